"""C11 - the encrypting store leaks no plaintext, detects tampering, and is recoverable.

S: Encrypt.tla (mechanism of pkg/blobserver/encrypt: ciphertexts, meta blobs with fresh identities, smallMeta heap,
   asynchronous compaction = upload the packed meta THEN delete the small ones, local index, crash anywhere, start-up
   scan, tampering with ideal authenticated encryption): Recoverable, IndexRight, IndexBackedByMeta, FetchSound,
   AckedFetchable, DeleteOnlyCovered; sensitivity: DeleteBeforeUpload must violate Recoverable, IndexBeforeMeta must
   violate IndexBackedByMeta, NoDigestCheck and MetaShapedBlobAccepted must violate FetchSound.
G: EncryptGen.tla enumerates scenarios (history length class x restart points relative to the compaction steps;
   crash point = lower-layer call around one compaction x index kept/wiped x second crash inside the compaction the
   restart starts; tamper target x kind x position class x index kept/wiped); harness/cmd/c11 runs them on the real
   encrypt store over gate stores (Plan.FreezeAt, Durable.Clone, rebuild with the index wiped), plus seeded random ones.
T: Trace_Encrypt.tla validates every recorded segment in one linear pass per shard: every mutating lower-layer call
   must be the next step of the model with the code's threshold (100), projections of the real stores must equal the
   model's state, crash states must be Recoverable, restarts must rebuild exactly the acknowledged map, the client
   view must be the BlobStore map, leak scans must be empty, tamper outcomes original-or-fail.
TLC is the only oracle; the Go side projects (decrypts with the harness's copy of the key, compares bytes, scans)."""
import json
import os
import re
from concurrent.futures import ThreadPoolExecutor

import vlib

LEVEL = "model_checking"
os.environ.setdefault("JAVA_TOOL_OPTIONS", "-XX:TieredStopAtLevel=1 -XX:ParallelGCThreads=2")

TRACE = ("Trace_Encrypt", "Trace_Encrypt.cfg")
LIMIT = {"Limit": "100"}     # replaced by the constant of the code under test (encrypt.SmallMetaCountLimit)


def is_reset(e):
    return e.get("ev") == "reset"


def validate(ctx, tracefile, evs=None, overrides=None):
    """One linear TLC pass; returns [(segment, index of first unexplained line, reasons)] (see vlib.tlc_trace_segments)."""
    if evs is None:
        evs = vlib.read_ndjson(tracefile)
    if not evs:
        return [], evs
    ov = dict(LIMIT)
    ov.update(overrides or {})
    r = ctx.tlc_trace(TRACE[0], TRACE[1], tracefile, timeout=1500, overrides=ov)
    if not r["accepted"]:
        raise vlib.MachineryError("Trace_Encrypt: the dead chain did not consume %s: %s" % (tracefile, r["out"][-2000:]))
    hw = set(int(x) for x in re.findall(r'<<"HW", (\d+)>>', r["out"]))
    why = {}
    for m in re.finditer(r'<<"WHY", (\d+),\s*"([^"]*)"\s*>>', r["out"], re.S):
        why.setdefault(int(m.group(1)), []).append(" ".join(m.group(2).split()))
    starts = [i for i, e in enumerate(evs) if is_reset(e)]
    if not starts or starts[0] != 0:
        raise vlib.MachineryError("trace %s does not start with a reset line" % tracefile)
    fails = []
    for si, a in enumerate(starts):
        b = starts[si + 1] if si + 1 < len(starts) else len(evs)
        if b - a <= 1 or b in hw:
            continue
        explained = [x for x in hw if a + 1 < x <= b]
        first_bad = (max(explained) + 1) if explained else a + 2
        fails.append((evs[a:b], first_bad - 1 - a, sorted(set(why.get(first_bad, []))) or ["no step of the specification matches this line"]))
    return fails, evs


def slug(s):
    return re.sub(r"[^a-z0-9]+", "-", s.lower()).strip("-")[:60]


def short(e, n=300):
    d = {k: v for k, v in e.items() if k not in ("scn",)}
    for k in ("metas", "enc", "index", "list", "out", "ids", "affected", "bs", "sizes", "pre"):
        if isinstance(d.get(k), list) and len(d[k]) > 6:
            d[k] = d[k][:6] + ["...%d" % len(d[k])]
    return json.dumps(d)[:n]


def classify(ctx, seg, idx, reasons, leg, replay_path=None):
    reset, ev = seg[0], seg[idx]
    scn = reset.get("scn", {})
    label = reset.get("label", "")
    if ev.get("ev") == "tamper":
        sig = "C11/encrypt/tamper/%s/%s/%s/orig|fail->wrong" % (ev.get("cls"), ev.get("tk"), ev.get("pos"))
        if ev.get("crafted"):
            # re-validate with the deviation the code is believed to have: accepted => attributed to it
            tf = ctx.path("reval_%d.ndjson" % (abs(hash(json.dumps(ev, sort_keys=True))) % 10**9))
            vlib.write_jsonl(tf, seg[:idx + 1])
            fails2, _ = validate(ctx, tf, seg[:idx + 1], overrides={"Deviations": '{"MetaShapedBlobAccepted"}'})
            reasons = list(reasons) + ["explained by the deviation MetaShapedBlobAccepted of Encrypt.tla (no domain separation between blob and meta "
                                       "ciphertexts; Fetch trusts the meta entry and does not check the plaintext hash)" if not fails2
                                       else "NOT explained by the deviation MetaShapedBlobAccepted"]
    elif ev.get("ev") == "leak":
        kinds = sorted(set(re.sub(r":\d+$", "", str(f)) for f in ev.get("found", [])))
        sig = "C11/encrypt/%s/leak/%s" % (scn.get("kind"), "+".join(kinds)[:80])
    else:
        if ev.get("ev") == "op":
            what = "%s:%s" % (ev.get("op"), ev.get("res"))
        elif ev.get("ev") == "lower":
            what = "lower:%s" % ev.get("act")
        elif ev.get("ev") == "restart":
            what = "restart:%s:wipe=%s" % (ev.get("res"), str(ev.get("wipe")).lower())
        else:
            what = ev.get("ev")
        if scn.get("kind") == "crash":
            parts = label.split("/")
            fam = parts[0] + "".join("+" + p for p in parts[1:] if p.startswith("second@"))
        else:
            fam = scn.get("kind", "?")
        if ev.get("ev") == "lower" and reasons[0].startswith("no step"):
            reasons = ["the lower-layer call '%s' is not the next step of the receive in flight or of a compaction job" % ev.get("act")]
        sig = "C11/encrypt/%s/%s/%s" % (fam, what, slug(reasons[0]))
    replay = {"property": "C11", "leg": leg, "scenario": scn, "seed": ctx.seed, "label": label, "reasons": reasons,
              "line": {k: v for k, v in ev.items() if k not in ("metas", "enc", "index")},
              "context": [short(e, 200) for e in seg[max(1, idx - 6):idx]]}
    ctx.discrepancy(sig, ("%s | %s | %s" % ("; ".join(reasons), label, short(ev)))[:700], replay_path or replay)


def run_shard(ctx, drv, name, scns, seed, random=0, keep=True):
    sf = ctx.path("scn_%s.jsonl" % name)
    vlib.write_jsonl(sf, scns)
    out = ctx.path("tr_%s.ndjson" % name)
    sd = ctx.path("drv_%s" % name)
    os.makedirs(sd, exist_ok=True)
    argv = [drv, "-out", out, "-seed", str(seed), "-scratch", sd]
    if scns:
        argv += ["-scn", sf]
    if random:
        argv += ["-random", str(random)]
    rc, so, se = ctx.run(argv, timeout=1500, ok_codes=None)
    if rc != 0:
        pm = re.search(r"panic: (.*)", se) or re.search(r"fatal error: (.*)", se)
        if pm:
            fr = re.search(r"(perkeep\.org/[^\s(]+)", se[pm.end():])
            ctx.discrepancy("C11/encrypt/driver/panic@%s" % (fr.group(1) if fr else "?"), "process died: %s" % pm.group(1)[:300],
                            {"property": "C11", "scenarios": scns, "seed": seed, "panic": se[pm.start():pm.start() + 1500]})
            return {"segments": 0, "lines": 0, "classes": {}, "stats": {}, "fails": [], "evs": []}
        raise vlib.MachineryError("c11 driver failed rc=%s: %s" % (rc, se[-2000:]))
    classes = json.loads(re.search(r"classes=(.*)", so).group(1))
    stats = json.loads(re.search(r"stats=(.*)", so).group(1))
    fails, evs = validate(ctx, out)
    return {"segments": sum(1 for e in evs if is_reset(e)), "lines": len(evs), "classes": classes, "stats": stats, "fails": fails,
            "evs": evs if keep else []}


def cost(s):
    if s["kind"] == "hist":
        return (6 * s["n"] + 400 * len(s.get("restarts", []))) * (2 if s.get("jitter") else 1)
    if s["kind"] == "crash":
        return 900 + 8 * s.get("cont", 0) + (300 if s.get("second") else 0)
    return 40 if s.get("pos") != "all" else 400


def negative_samples(ctx, evs):
    """Corrupt one field of real, accepted segments: each corruption must be rejected (the trace spec binds)."""
    starts = [i for i, e in enumerate(evs) if is_reset(e)] + [len(evs)]
    segs = [evs[starts[i]:starts[i + 1]] for i in range(len(starts) - 1)]
    bad = []
    want = []
    # (a) the packed meta's upload moved behind the removal of the small meta blobs
    for s in segs:
        ip = next((i for i, e in enumerate(s) if e.get("act") == "metaput" and e.get("np", 0) > 1), None)
        idl = next((i for i, e in enumerate(s) if e.get("act") == "metadel"), None)
        if ip is not None and idl is not None and ip < idl and s[0].get("kind") != "tamper":
            c = [dict(e) for e in s[:idl + 60]]
            c[ip], c[idl] = c[idl], c[ip]
            bad += c
            want.append("delete-before-upload")
            break
    # (b) a fetched blob reported with different bytes after tampering; (c) a plaintext window found underneath
    for s in segs:
        it = next((i for i, e in enumerate(s) if e.get("ev") == "tamper" and e.get("out")), None)
        if it is not None:
            c = [json.loads(json.dumps(e)) for e in s[:it + 1]]
            c[it]["out"][0][1] = "wrong"
            bad += c
            want.append("wrong-bytes")
            c2 = [json.loads(json.dumps(e)) for e in s[:2]]
            il = next((i for i, e in enumerate(c2) if e.get("ev") == "leak"), None)
            if il is not None:
                c2[il]["found"] = ["r/1:bytes/data:4"]
                bad += c2
                want.append("leak")
            break
    # (d) an acknowledged blob missing from an enumeration after the restart
    for s in segs:
        ir = next((i for i, e in enumerate(s) if e.get("ev") == "restart" and e.get("res") == "ok" and not e.get("frozen")), None)
        if ir is None:
            continue
        ie = next((i for i, e in enumerate(s) if i > ir and e.get("op") == "enum" and len(e.get("list", [])) > 3), None)
        if ie is not None:
            c = [json.loads(json.dumps(e)) for e in s[:ie + 1]]
            del c[ie]["list"][1]
            bad += c
            want.append("lost-after-restart")
            break
    if len(want) < 3:
        raise vlib.MachineryError("could not build the negative samples (%s)" % want)
    bf = ctx.path("negative.ndjson")
    vlib.write_jsonl(bf, bad)
    fails, _ = validate(ctx, bf, bad)
    if len(fails) != len(want):
        raise vlib.MachineryError("negative samples: %d corrupted segments (%s) but %d rejected - the trace spec does not bind" %
                                  (len(want), want, len(fails)))
    ctx.count("T", negative_samples_rejected=len(fails))
    ctx.sample({"negative_samples_rejected": want, "reasons": [f[2][0] for f in fails]})


def run(ctx, replay):
    drv = ctx.build("c11")
    quick = ctx.quick()
    # the threshold is a policy constant of the code, not part of the property: the model runs with the code's value
    rc, so, se = ctx.run([drv, "-limit"], timeout=60)
    LIMIT["Limit"] = re.search(r"limit=(\d+)", so).group(1)
    if not 20 <= int(LIMIT["Limit"]) <= 150:
        raise vlib.MachineryError("SmallMetaCountLimit = %s: the history lengths of EncryptGen (105..320) no longer cross the compaction "
                                  "threshold twice; adapt EncryptGen.tla" % LIMIT["Limit"])
    ctx._cfg(TRACE[1], dict(LIMIT))
    if replay:
        rp = json.load(open(replay))
        if "scenario" not in rp:
            raise vlib.MachineryError("replay file has no scenario")
        res = run_shard(ctx, drv, "replay", [rp["scenario"]], rp.get("seed", ctx.seed))
        for seg, idx, why in res["fails"]:
            classify(ctx, seg, idx, why, "replay", replay_path=replay)
        ctx.cov["traces_validated_against_impl"] += res["segments"]
        ctx.cov["evaluations"] += res["lines"]
        return
    tier = '"quick"' if quick else '"thorough"'
    # derive every cfg before the threads start (vlib derives in place)
    scns = ctx.tlc_gen("EncryptGen", "EncryptGen.cfg", overrides={"Tier": tier}, tag="SCN")
    for s in scns:
        s["restarts"] = s.get("restarts") or []
    s_jobs = [
        ("MC_Encrypt", "Encrypt.cfg", None, None),
        ("MC_Encrypt", "Encrypt.cfg", {"Plain": "{p1, p2, p3}", "MaxId": "10", "MaxCrash": "2"}, None),
        ("MC_Encrypt", "Encrypt.cfg", {"Deviations": '{"DeleteBeforeUpload"}'}, "Recoverable"),
        ("MC_Encrypt", "Encrypt.cfg", {"Deviations": '{"IndexBeforeMeta"}'}, "IndexBackedByMeta"),
        ("Encrypt", "Encrypt_tamper.cfg", None, None),
        ("Encrypt", "Encrypt_tamper.cfg", {"Deviations": '{"NoDigestCheck"}'}, "FetchSound"),
        ("Encrypt", "Encrypt_tamper.cfg", {"Deviations": '{"MetaShapedBlobAccepted"}'}, "FetchSound"),
    ]
    if not quick:
        s_jobs += [("MC_Encrypt", "Encrypt.cfg", {"MaxId": "12", "MaxCrash": "2"}, None),
                   ("Encrypt", "Encrypt_tamper.cfg", {"Plain": "{p1, p2, p3, p4}", "MaxId": "9"}, None)]
    for m, c, ov, _ in s_jobs:
        ctx._cfg(c, ov)
    ctx._cfg(TRACE[1], dict(LIMIT, Deviations='{"MetaShapedBlobAccepted"}'))
    nshards = 10 if quick else 14
    order = sorted(scns, key=cost, reverse=True)
    shards = [[] for _ in range(nshards)]
    loads = [0] * nshards
    for s in order:
        i = loads.index(min(loads))
        shards[i].append(s)
        loads[i] += cost(s)
    nrandom = 12 if quick else 60

    def s_work(job):
        m, c, ov, exp = job
        cov = (not quick) and exp is None
        r = ctx.tlc_check(m, c, overrides=ov, workers=3 if quick else 6, expect_violation=exp, coverage=cov, timeout=1500)
        if cov:
            # every action of the module (also the disjuncts of ENext that TLC reports by position) must have fired;
            # by construction of the configuration: no tampering in Encrypt.cfg, no crash in Encrypt_tamper.cfg
            exempt = ("Tamper", "TamperedRestart", "Restore") if c == "Encrypt.cfg" else ("Crash",)
            zero = []
            for mm in re.finditer(r"<(\w+) line (\d+), col \d+ to line \d+, col \d+ of module \w+(?: \((\d+) \d+ \d+ \d+\))?>: (\d+):(\d+)", r["out"]):
                name = mm.group(1) if not mm.group(3) else "%s@line%s" % (mm.group(1), mm.group(3))
                if int(mm.group(5)) == 0 and mm.group(1) not in exempt and not mm.group(1).startswith(("EInit",)):
                    zero.append(name)
            if zero:
                raise vlib.MachineryError("anti-vacuity: actions never taken in %s/%s %s: %s" % (m, c, ov, zero))
        return None

    def g_work(i):
        if i == nshards:
            return run_shard(ctx, drv, "random", [], ctx.seed, random=nrandom)
        return run_shard(ctx, drv, "s%d" % i, shards[i], ctx.seed, keep=i < 4)

    results = []
    with ThreadPoolExecutor(max_workers=12) as ex:
        gf = [ex.submit(g_work, i) for i in range(nshards + 1)]
        sf = [ex.submit(s_work, j) for j in s_jobs]
        for f in sf:
            f.result()
        for f in gf:
            results.append(f.result())
    nseg = nlines = 0
    classes = {}
    stats = {}
    for k, res in enumerate(results):
        nseg += res["segments"]
        nlines += res["lines"]
        for c, v in res["classes"].items():
            classes[c] = classes.get(c, 0) + v
            ctx.distinct(c)
        for c, v in res["stats"].items():
            stats[c] = max(stats.get(c, 0), v) if not c.startswith("tamper_runs") else stats.get(c, 0) + v
        for seg, idx, why in res["fails"]:
            classify(ctx, seg, idx, why, "T-random" if k == nshards else "G")
    # anti-vacuity of the scenario families: the crash sweep must have hit every class of mutating lower-layer call
    need = ["crash@blobs.put", "crash@meta.put:single", "crash@idx.set", "crash@meta.put:packed", "crash@meta.del/", "crash@meta.del:partial", "crash@end"]
    missing = [n for n in need if not any(c.startswith(n) for c in classes)]
    for attempt in range(3):
        if not missing:
            break
        # which call the k-th one is depends on how the job's index reads interleave with the receive's index.Set: sweep again
        extra = [{"kind": "crash", "pre": 100, "at": a, "wipe": attempt % 2 == 0, "second": "", "cont": 3, "restarts": []}
                 for a in ("w2", "w3", "w4", "w5", "w6", "e3", "e2", "e1", "e0", "rmpartial")]
        res = run_shard(ctx, drv, "retry%d" % attempt, extra, ctx.seed + 1000 + attempt, keep=False)
        results.append(res)
        nseg += res["segments"]
        nlines += res["lines"]
        for c, v in res["classes"].items():
            classes[c] = classes.get(c, 0) + v
            ctx.distinct(c)
        for seg, idx, why in res["fails"]:
            classify(ctx, seg, idx, why, "G")
        missing = [n for n in need if not any(c.startswith(n) for c in classes)]
    if missing:
        raise vlib.MachineryError("crash sweep did not reach: %s (classes: %s)" % (missing, sorted(classes)[:40]))
    if not any("second@" in c for c in classes):
        raise vlib.MachineryError("no second crash inside a start-up compaction was exercised")
    # binding self-test on real segments of this run
    pool = []
    for res in results:
        for fam in ("crash", "tamper", "hist"):
            starts = [i for i, e in enumerate(res["evs"]) if is_reset(e)] + [len(res["evs"])]
            for a, b in zip(starts, starts[1:]):
                if res["evs"][a].get("kind") == fam and sum(1 for p in pool if p[0].get("kind") == fam) < 3:
                    pool.append(res["evs"][a:b])
    negative_samples(ctx, [e for s in pool for e in s])
    ctx.sample({"metas_after_230_receives": stats.get("metas_at_end:230"),
                "metas_after_230_receives_when_the_first_job_gave_up": stats.get("metas_at_end:230:first-job-gave-up"),
                "lower_calls_of_the_compaction_window": stats.get("window_calls"),
                "tamper_runs": stats.get("tamper_runs")})
    ctx.sample({"crash_classes": sorted(c for c in classes if c.startswith("crash@"))[:40]})
    ctx.count("G", scenarios=len(scns), random=nrandom, segments=nseg, tamper_runs=stats.get("tamper_runs", 0))
    ctx.cov["traces_validated_against_impl"] = nseg
    ctx.cov["evaluations"] = nlines
    ctx.cov["exhaustive"] = True
    ctx.cov["rule"] = ("scenario = hist(length class, restart points relative to the compaction steps, index kept/wiped) | "
                       "crash(frozen lower-layer call around one compaction incl. half-done RemoveBlobs, index kept/wiped, second crash "
                       "inside the start-up compaction, continuation) | tamper(target class, kind, position class, index kept/wiped); all "
                       "enumerated by EncryptGen.tla (%d) plus %d seeded random ones; every mutating lower-layer call, every projection of "
                       "the real stores, every reply, every leak scan and every tamper outcome is one validated trace line; distinct = "
                       "measured scenario classes (crash classes name the call that was actually frozen)" % (len(scns), nrandom))
    ctx.assumptions += [
        "gate stores / gate KV are correct lower layers; a crash is a prefix of lower-layer calls (Plan.FreezeAt), RemoveBlobs may stop half way",
        "age is an ideal authenticated encryption: the model lets a damaged file never decrypt and an authentic one decrypt to what was encrypted; the real library decides on the real bytes",
        "no-leak is decided by the projection: every 16-byte window of every plain blob of >= 16 bytes and every plain ref (text, hex digest, raw digest) is searched in all bytes and names of both wrapped stores; the local index is not underneath",
        "compaction quiescence = no live makePackedMetaBlob goroutine (stack scan, bounded by a 30 s watchdog)",
        "histories stay below 1000 meta blobs (one enumeration page) and far below FullMetaBlobSize (10000 entries)",
    ]
