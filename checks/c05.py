"""C05 - the index is a function of the set of blobs, not of their arrival order.

S: IndexOOO.tla (the out-of-order mechanism of pkg/index: ReceiveBlob / noteNeeded / noteBlobIndexedLocked /
   removeAllMissingEdges / pending-blob index / indexReadyBlobs / restart) with 2 goroutines, restart, a blob that
   never arrives: Confluent holds for the intended mechanism; the deviation the code had
   (PartialCommitDropsMissingRow, H18) violates it.
G: IndexOOOGen.tla enumerates every arrival permutation of six dependency shapes (keys, permanodes, claims,
   deletes of permanodes/claims/deletes, two signers, shares, files with nested bytes, directories + static sets,
   member claims), with an index restart in the middle and duplicate deliveries; cmd/c05 delivers them to a REAL
   index.Index + corpus.
T: Trace_IndexOOO.tla checks ConfluentState (IndexOOOPred.tla - the same predicate the mechanism is model-checked
   against) on the projected out-of-order state after EVERY delivery step, plus equality of the final rows with the
   canonical order and with a full Reindex."""
import json
import os
import sys

import vlib

sys.path.insert(0, os.path.dirname(os.path.abspath(__file__)))
import _idxfam  # noqa: E402

LEVEL = "model_checking"


def classify(ctx, evs, line, text):
    i = line - 1
    ev = evs[i]
    a = i
    while evs[a]["ev"] != "reset":
        a -= 1
    reset = evs[a]
    what = text.split(",")[0].strip().strip('"') if text else "?"
    what = [w for w in ("state", "ready-not-empty", "rows-differ-from-canonical-order", "rows-differ-from-reindex", "deliver-error") if w in text][0]
    restarted = any(e["ev"] == "restart" for e in evs[a:i])
    # which blob kinds are waiting / wrong
    bad = []
    if ev.get("ev") == "state":
        kinds = [d["kind"] for d in reset["deps"]]
        for k, st in enumerate(ev["have"]):
            if st == "partial":
                bad.append(kinds[k])
    sig = "C05/%s/%s/%s%s/%s" % (reset["shape"], what, "final" if ev.get("final") else "step", "+restart" if restarted else "",
                                 "partial:" + "+".join(sorted(set(bad))) if bad else "-")
    return sig, "line %d: %s | order %s restart %s | %s" % (line, json.dumps({k: v for k, v in ev.items() if k != "seq"})[:300], reset["order"], reset["restart"], text[:200]), \
        {"property": "C05", "replay": {"shape_name": reset["shape"], "order": reset["order"], "restart": reset["restart"]}, "kv": reset.get("kv")}


def validate(ctx, o5):
    r = ctx.tlc_trace("Trace_IndexOOO", "Trace_IndexOOO.cfg", o5, timeout=1800)
    if not r["accepted"]:
        raise vlib.MachineryError("C05 trace not consumed: %s" % r["out"][-1500:])
    evs = vlib.read_ndjson(o5)
    for line, text in r["viols"]:
        sig, what, rp = classify(ctx, evs, line, text)
        ctx.discrepancy(sig, what, rp)
    return evs


def run(ctx, replay):
    quick = ctx.quick()
    sizes = _idxfam.shapes(ctx)
    names = _idxfam.shape_names(ctx)
    if replay:
        rp = json.load(open(replay))["replay"]
        rpl = [{"shape": names.index(rp["shape_name"]) + 1, "order": rp["order"], "restart": rp["restart"]}]
        o5, o6 = _idxfam.run_driver(ctx, rpl)
        validate(ctx, o5)
        ctx.cov["traces_validated_against_impl"] += 1
        ctx.cov["evaluations"] += 1
        return
    # ---- S
    ctx.tlc_check("MC_IndexOOO", "IndexOOO.cfg", workers=8)
    ctx.tlc_check("MC_IndexOOO", "IndexOOO.cfg", overrides={"Never": "{2}"}, workers=8)
    ctx.tlc_check("MC_IndexOOO", "IndexOOO.cfg", overrides={"Deviations": '{"PartialCommitDropsMissingRow"}'}, workers=8, expect_violation="Confluent")
    if not quick:
        ctx.tlc_check("MC_IndexOOO", "IndexOOO.cfg", overrides={"Threads": "{1, 2, 3}"}, workers=14, timeout=1800)
    # ---- G + T
    replays = _idxfam.generate(ctx, sizes, quick)
    ctx.sample({"replay": replays[len(replays) // 2]})
    o5, o6 = _idxfam.run_driver(ctx, replays, which="05", shards=6)
    evs = validate(ctx, o5)
    n = sum(1 for e in evs if e["ev"] == "reset")
    for e in evs:
        if e["ev"] == "reset":
            ctx.distinct("%s|%s|%s" % (e["shape"], e["order"], e["restart"]))
    if not quick:
        for kv in ("leveldb", "kv", "sqlite"):
            sub = replays[::max(1, len(replays) // 400)]
            o5b, _ = _idxfam.run_driver(ctx, sub, kv=kv, tag="_" + kv, which="05")
            validate(ctx, o5b)
            n += len(sub)
    # negative sample: a dropped missing| row must be reported
    bad = []
    for e in evs[:200]:
        e = dict(e)
        if e["ev"] == "state" and e["need"] and e["missing"]:
            e["missing"] = []
            bad.append(e)
            break
        bad.append(e)
    if bad and bad[-1]["ev"] == "state" and bad[-1]["missing"] == []:
        bf = ctx.path("bad05.ndjson")
        vlib.write_jsonl(bf, bad)
        if not ctx.tlc_trace("Trace_IndexOOO", "Trace_IndexOOO.cfg", bf)["viols"]:
            raise vlib.MachineryError("negative sample (dropped missing| row) not reported")
        ctx.count("T", negative_samples_rejected=1)
    ctx.cov["traces_validated_against_impl"] = n
    ctx.cov["evaluations"] = len(evs)
    ctx.cov["exhaustive"] = not quick
    ctx.cov["rule"] = ("replay = (dependency shape, arrival permutation, restart position, duplicate); all permutations for shapes of "
                       "<= 5 blobs, %s for 6-blob shapes; state checked after every delivery step; distinct = distinct replays" %
                       ("a seeded sample of 260" if quick else "all 720"))
    ctx.assumptions += ["a blob is in the blob source before the index receives it (the server wiring stores first)",
                        "dependency model read from the code: signer key blob (verifySignature), every part of a file (populateFile), the static set of a directory (populateDir), meta row of a delete claim's target (populateDeleteClaim)",
                        "deliveries are sequential here; concurrent deliveries are explored by C14 and by the 2-3 goroutine model check"]
