"""C01 - every storage backend behaves as a content-addressed map.

S: BlobStore.tla (paging theorem, page shape, only-receive-adds / only-remove-deletes).
G: BlobStoreGen.tla emits (a) every mutator history up to a depth (BFS, exhaustive), replayed with a
   full observation after every step, and (b) long random histories over the full alphabet
   (-simulate); both are executed on every real configuration built through CreateStorage.
T: the recorded replies are validated line by line by Trace_BlobStore.tla (TLC is the only oracle);
   seeded random Go histories go through the same validator."""
import json
import os
import re
from concurrent.futures import ThreadPoolExecutor

import vlib

LEVEL = "model_checking"

QUICK_CFGS = [
    "memory", "localdisk", "filesvfs", "diskpacked", "diskpacked[max=300]",
    "blobpacked", "encrypt", "replica(gate,gate)", "replica[min=1](gate,gate,gate)", "shard(gate,gate)", "cond",
    "overlay", "overlay[pre=all]", "overlay[pre=half]", "overlay[nodeleted=1]", "namespace", "namespace[hide=all]",
    "proxycache[pre=all;cache=20]", "proxycache[pre=half]", "proxycache[cache=20]", "proxycache", "union(gate,gate,gate)", "union(localdisk,filesvfs)",
    "replica(shard,shard)", "overlay(gate,blobpacked)", "namespace(encrypt)", "proxycache[cache=80](replica)",
    "proxycache(gate[nosub=1])",
    # a cache STORE that never evicts by itself (as a localdisk cache): only proxycache's own budget removes from it
    "proxycache[cache=20;gatecache=1]",
]
THOROUGH_EXTRA = [
    "diskpacked[kv=leveldb]", "diskpacked[kv=kv]", "diskpacked[kv=sqlite]", "diskpacked[max=300;kv=leveldb]",
    "blobpacked[kv=leveldb]", "encrypt[kv=kv]", "shard(gate,gate,gate)", "replica[min=2](gate,gate,gate)",
    "shard(replica,replica)", "overlay[pre=all](diskpacked,gate)", "overlay[pre=half](localdisk,filesvfs)", "overlay[pre=all](blobpacked,gate)", "overlay[pre=all](replica,shard)", "namespace(diskpacked[max=300])",
    "cond(replica,shard)", "replica(overlay,namespace)", "proxycache[cache=20](shard)", "union(gate,gate)",
    "blobpacked(gate,diskpacked)", "encrypt(shard,localdisk)", "namespace(namespace)", "overlay(overlay,gate)",
    "replica(blobpacked,encrypt)", "proxycache[cache=20](overlay)", "shard(filesvfs,memory)",
    "proxycache[pre=half;cache=80;gatecache=1]", "proxycache[cache=20;gatecache=1](replica)",
]


def kind_of(ev, kinds):
    b = ev.get("b")
    if b is None and ev.get("bs"):
        return "set"
    if b is None:
        return "-"
    return kinds.get(b, "?")


def signature(prop, cfg, ev, expected_text, kinds):
    exp = sorted(set(re.findall(r'res \|-> "(\w+)"', expected_text)))
    got = ev.get("res")
    sfx = ""
    if [got] == exp:
        sfx = "+size" if ev.get("op") not in ("stat", "enum") else "+list"
    cfgc = re.sub(r"\[[^\]]*\]", "", cfg)
    return "%s/%s/%s/%s/%s->%s%s" % (prop, cfgc, ev.get("op"), kind_of(ev, kinds), "|".join(exp), got, sfx)


def validate(ctx, cfg, tracefile, n, seed, leg, hists):
    """Validate one trace file; classify every VIOL; returns number of histories validated."""
    r = ctx.tlc_trace("Trace_BlobStore", "Trace_BlobStore.cfg", tracefile)
    if not r["accepted"]:
        raise vlib.MachineryError("trace %s not fully consumed (cfg %s): %s" % (tracefile, cfg, r["out"][-1500:]))
    if not r["viols"]:
        return
    evs = vlib.read_ndjson(tracefile)
    for line, text in r["viols"]:
        ev = evs[line - 1]
        # find the history this line belongs to
        i = line - 1
        while evs[i]["ev"] != "reset":
            i -= 1
        reset = evs[i]
        kinds = {2 * (k + 1): kd for k, kd in enumerate(reset.get("kinds", []))}
        sig = signature(ctx.prop, cfg, ev, text, kinds)
        hist = hists[reset["h"]] if hists is not None else None
        what = "line %d: %s ; spec allows %s" % (line, json.dumps({k: v for k, v in ev.items() if k not in ("seq",)}), text[:300])
        replay = {"property": ctx.prop, "cfg": cfg, "n": n, "seed": seed, "history": hist,
                  "signature": sig, "leg": leg, "event": ev, "prefix": [e for e in evs[i:line]][-30:]}
        ctx.discrepancy(sig, what[:600], replay)


CHUNK = 2000


def run_cfg(ctx, drv, cfg, histfile, hists, n, seed, observe, tag):
    safe = re.sub(r"[^A-Za-z0-9]+", "_", cfg)
    out = ctx.path("tr_%s_%s.ndjson" % (tag, safe))
    if hists is not None and len(hists) > CHUNK and "kv=" in cfg:
        # on-disk KV indexes below encrypt / namespace are never closed by perkeep (no Close on those stores): one driver
        # process per CHUNK histories keeps the number of open descriptors bounded
        th = te = 0
        for k in range(0, len(hists), CHUNK):
            part = ctx.path("hist_%s_%s_%d.jsonl" % (tag, safe, k))
            vlib.write_jsonl(part, hists[k:k + CHUNK])
            h, e = run_cfg(ctx, drv, cfg, part, hists[k:k + CHUNK], n, seed, observe, tag)
            os.remove(part)
            th, te = th + h, te + e
        return th, te
    rc, so, se = ctx.run([drv, "-cfg", cfg, "-hist", histfile, "-out", out, "-n", str(n), "-seed", str(seed)] +
                         (["-observe"] if observe else []), timeout=900, ok_codes=None)
    if rc != 0:
        # driver death: a panic in perkeep code is an observation
        m = re.search(r"panic: (.*)", se)
        if m:
            fr = re.search(r"(perkeep\.org/[^\s(]+)", se[m.end():])
            ctx.discrepancy("%s/%s/driver/panic@%s" % (ctx.prop, re.sub(r"\[[^\]]*\]", "", cfg), fr.group(1) if fr else "?"),
                            "driver died: panic: %s" % m.group(1))
            return 0, 0
        raise vlib.MachineryError("driver failed on %s: %s" % (cfg, se[-2000:]))
    m = re.search(r"histories=(\d+) events=(\d+)", so)
    validate(ctx, cfg, out, n, seed, tag, hists)
    os.remove(out)
    return int(m.group(1)), int(m.group(2))


def run(ctx, replay):
    drv = ctx.build("c01")
    if replay:
        rp = json.load(open(replay))
        hf = ctx.path("replay.jsonl")
        vlib.write_jsonl(hf, [rp["history"]])
        run_cfg(ctx, drv, rp["cfg"], hf, [rp["history"]], rp["n"], rp["seed"], rp.get("leg") == "mut", rp.get("leg", "mut"))
        ctx.cov["traces_validated_against_impl"] += 1
        ctx.cov["evaluations"] += 1
        return
    quick = ctx.quick()
    # ---- S
    ctx.tlc_check("BlobStore", "BlobStore.cfg", coverage=not quick)
    # ---- G: generate
    n = 4
    depth = 3 if quick else 4
    mut = ctx.tlc_gen("BlobStoreGen", "BlobStoreGen.cfg", overrides={"Depth": depth})
    sim = ctx.tlc_gen("BlobStoreGen", "BlobStoreGen.cfg", overrides={"Mode": '"all"', "Depth": 40},
                      simulate=(150 if quick else 1500), depth=42, seed=ctx.seed)
    mutf, simf = ctx.path("mut.jsonl"), ctx.path("sim.jsonl")
    vlib.write_jsonl(mutf, mut)
    vlib.write_jsonl(simf, sim)
    ctx.sample({"mutator_history": mut[len(mut) // 2]})
    ctx.sample({"simulated_history_prefix": sim[0][:6]})
    cfgs = QUICK_CFGS + ([] if quick else THOROUGH_EXTRA)
    # cheap stores take the exhaustive set, the heavier compositions a stride of it
    jobs = []
    for i, cfg in enumerate(cfgs):
        jobs.append((cfg, mutf, mut, True, "mut"))
        jobs.append((cfg, simf, sim, False, "sim"))

    def work(j):
        cfg, hf, hs, obs, tag = j
        return j, run_cfg(ctx, drv, cfg, hf, hs, n, ctx.seed, obs, tag)
    total_h = total_e = 0
    with ThreadPoolExecutor(max_workers=8) as ex:
        for j, (h, e) in ex.map(work, jobs):
            total_h += h
            total_e += e
            ctx.distinct("%s/%s" % (j[0], j[4]))
    ctx.count("G", replayed_histories=total_h, events=total_e, configurations=len(cfgs))
    # ---- T: seeded random Go histories over a larger universe with all sizes/hashes
    rnd_h = 25 if quick else 150

    def rwork(cfgu):
        cfg, univ = cfgu
        safe = re.sub(r"[^A-Za-z0-9]+", "_", cfg)
        out = ctx.path("rnd_%s_%s.ndjson" % (safe, univ))
        rc, so, se = ctx.run([drv, "-cfg", cfg, "-out", out, "-n", "8", "-seed", str(ctx.seed), "-random", str(rnd_h),
                              "-rlen", "40", "-univ", univ], timeout=900, ok_codes=None)
        if rc != 0:
            m = re.search(r"panic: (.*)", se)
            if m:
                fr = re.search(r"(perkeep\.org/[^\s(]+)", se[m.end():])
                ctx.discrepancy("%s/%s/driver/panic@%s" % (ctx.prop, re.sub(r"\[[^\]]*\]", "", cfg), fr.group(1) if fr else "?"),
                                "driver died: panic: %s" % m.group(1))
                return 0, 0
            raise vlib.MachineryError("driver failed on %s: %s" % (cfg, se[-2000:]))
        validate(ctx, cfg, out, 8, ctx.seed, "rnd" if univ == "std" else "rnd-" + univ, None)
        os.remove(out)
        m = re.search(r"histories=(\d+) events=(\d+)", so)
        return int(m.group(1)), int(m.group(2))
    with ThreadPoolExecutor(max_workers=8) as ex:
        # blobpacked stores also get the "packable" universe: its file schema blob describes a file made of the big blob,
        # so that the store packs the two and packed and loose blobs coexist in the histories
        for h, e in ex.map(rwork, [(c, "std") for c in cfgs] + [(c, "packable") for c in cfgs if "blobpacked" in c]):
            total_h += h
            total_e += e
    ctx.cov["traces_validated_against_impl"] = total_h
    ctx.cov["evaluations"] = total_e
    ctx.cov["exhaustive"] = False
    ctx.cov["rule"] = ("histories: all %d mutator sequences of length %d over 4 blobs (TLC BFS) with a full observation "
                       "after each step, %d simulated histories of length 40 over the full alphabet, %d random Go histories; "
                       "each on %d configurations; distinct = configuration x leg" % (len(mut), depth, len(sim), rnd_h, len(cfgs)))
    ctx.assumptions += ["harness gate stores / VFS are correct reference lower layers",
                        "byte equality and digests are decided by the Go projection (res=wrongbytes), not by TLC",
                        "blobs are abstracted to ranks of their ref text; sizes are real"]
