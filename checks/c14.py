"""C14 - concurrent clients see linearizable, race-free stores and index.

S: mechanism => atomic for 2 clients, per composite: ProxyCache.tla (NoStaleCopy holds when public calls are
   serialized, is violated by the code's interleavings - H11), BlobPacked.tla with Concurrent = TRUE (RemovedGone
   violated - H23), Replica.tla with StragglersAfterAck (NoResurrection violated - H26); IndexOOO.tla with 2-3
   goroutines (Confluent).  The counterexamples become deterministic gate schedules for G.
G: the schedules are replayed on the real stores through the gate scheduler (one step = wait for the expected
   lower-layer call to be parked, release it, await its completion).
T: 2-16 client goroutines run seeded random programs over overlapping blobs on every backend (yields / delays
   injected at the lower-layer boundaries), each public call logged at start and end with one global sequence
   counter; Trace_Lin.tla searches for a linearization (silent Lin steps) of every segment.  The drivers are
   built with -race: a race report of the very executions being validated is a discrepancy of its own.
   The index+corpus is fed by concurrent receivers while it is queried (cmd/c14idx)."""
import json
import os
import re
from concurrent.futures import ThreadPoolExecutor

import sys
sys.path.insert(0, os.path.dirname(os.path.abspath(__file__)))
import vlib

LEVEL = "model_checking"

# configurations whose mechanism is not linearizable by design (found on the model, reproduced by a schedule) are
# exercised through their deterministic schedules only; random runs on them would produce timing-dependent signatures
RANDOM_CFGS_QUICK = ["memory", "localdisk", "filesvfs", "diskpacked", "diskpacked[max=300]", "encrypt", "shard(gate,gate)",
                     "namespace", "overlay[pre=half]", "cond", "replica(gate,gate)", "blobpacked", "union(gate,gate)"]
RANDOM_CFGS_MORE = ["shard(replica,replica)", "overlay(gate,blobpacked)", "namespace(encrypt)", "replica(filesvfs,localdisk)",
                    "diskpacked[kv=leveldb]", "overlay", "shard(gate,gate,gate)", "encrypt(shard,gate)"]


# receive || remove of the same blob is not atomic in these stores (known findings F-H31, F-H20d, reproduced by
# deterministic schedules): their random programs contain no remove, so that every other discrepancy stays visible
HEAVY_CFGS = {"memory", "localdisk", "diskpacked", "blobpacked"}
NOREMOVE = {"diskpacked"}
# receive || remove of the same blob is not atomic in these either (F-H31, F-H26b, deterministic schedules): their random
# programs never receive and remove the same blob concurrently (-split), every other combination is exercised
SPLIT = {"overlay", "replica"}


def cfg_class(cfg):
    return re.sub(r"\[[^\]]*\]", "", cfg)


def races(ctx, cfg, stderr):
    """One discrepancy per distinct pair of perkeep functions in a race report."""
    n = 0
    for blk in stderr.split("WARNING: DATA RACE")[1:]:
        blk = blk.split("==================")[0]
        fr = re.findall(r"^\s+(perkeep\.org/\S+?)\(\)", blk, re.M)
        fr = [f for f in fr if "/verif/" not in f]
        pair = "|".join(sorted(set(fr[:1] + [f for f in fr[1:] if f != fr[0]][:1]))) if fr else "?"
        # the two conflicting accesses: first perkeep frame of each stack
        stacks = re.split(r"\n\s*\n", blk)
        tops = []
        for st in stacks[:2]:
            m = re.search(r"^\s+(perkeep\.org/\S+?)\(\)", st, re.M)
            if m:
                tops.append(m.group(1))
        pair = "|".join(sorted(set(tops))) or pair
        ctx.discrepancy("C14/%s/race/%s" % (cfg_class(cfg), pair), "data race reported by the race detector on %s: %s" % (cfg, blk.strip()[:600]),
                        {"property": "C14", "cfg": cfg, "race": blk[:3000]})
        n += 1
    return n


def validate(ctx, cfg, path, leg, weak_retry=True, clients=16):
    evs = vlib.read_ndjson(path)
    is_reset = lambda e: e.get("ev") == "reset"
    fails = ctx.tlc_trace_segments("MC_TraceLin", "Trace_Lin.cfg", evs, is_reset, timeout=2400)
    # which of the rejected segments does the weaker scan semantics of enumerate explain? (one more TLC run over all of them)
    weak_ok = set()
    cand = [i for i, (seg, idx, why) in enumerate(fails) if weak_retry and any(e.get("op") == "enum" for e in seg)]
    if cand:
        cat = []
        for i in cand:
            cat += fails[i][0]
        still = ctx.tlc_trace_segments("MC_TraceLin", "Trace_Lin.cfg", cat, is_reset, overrides={"Weak": "TRUE"}, timeout=2400)
        bad = set(id(seg[0]) for seg, _, _ in still)
        bad_keys = set(json.dumps(seg[0], sort_keys=True) for seg, _, _ in still)
        for i in cand:
            if json.dumps(fails[i][0][0], sort_keys=True) not in bad_keys:
                weak_ok.add(i)
    for i, (seg, idx, why) in enumerate(fails):
        ev = seg[idx]
        kind = "enum-not-snapshot" if i in weak_ok else "lin"
        sig = "C14/%s/%s/%s/%s" % (cfg_class(seg[0].get("cfg", cfg)), kind, ev.get("op"), ev.get("res"))
        if kind == "enum-not-snapshot":
            sig = "C14/%s/enum-not-snapshot" % cfg_class(seg[0].get("cfg", cfg))
        ctx.discrepancy(sig, ("%s: no linearization explains line %s of segment %s: %s" % (leg, idx, seg[0].get("seg"), json.dumps({k: v for k, v in ev.items() if k != "seq"})[:300])),
                        {"property": "C14", "cfg": cfg, "leg": leg, "segment": seg[:idx + 3]})
    return sum(1 for e in evs if is_reset(e)), len(evs)


def run(ctx, replay):
    quick = ctx.quick()
    if replay:
        rp = json.load(open(replay))
        if rp.get("family") == "index+reads":
            import _c14q
            return _c14q.replay(ctx, rp)
        if "segment" in rp:
            tf = ctx.path("seg.ndjson")
            vlib.write_jsonl(tf, rp["segment"])
            validate(ctx, rp["cfg"], tf, "replay")
        ctx.cov["traces_validated_against_impl"] += 1
        ctx.cov["evaluations"] += 1
        return
    drv = ctx.build("c14", race=True)
    c12 = ctx.build("c12")
    # ---- S
    ctx.tlc_check("ProxyCache", "ProxyCache.cfg")
    ctx.tlc_check("ProxyCache", "ProxyCache.cfg", overrides={"Serialize": "FALSE"}, expect_violation="NoStaleCopy")
    ctx.tlc_check("MC_BlobPacked", "BlobPacked.cfg", overrides={"Concurrent": "TRUE"}, expect_violation="RemovedGone")
    ctx.tlc_check("Replica", "Replica.cfg", overrides={"Deviations": '{"StragglersAfterAck"}', "Blobs": "{2}"}, workers=8, expect_violation="NoResurrection")
    ctx.tlc_check("MC_IndexOOO", "IndexOOO.cfg", overrides={"AllowRestart": "FALSE"}, workers=8)
    if not quick:
        ctx.tlc_check("MC_IndexOOO", "IndexOOO.cfg", overrides={"AllowRestart": "FALSE", "Threads": "{1, 2, 3}"}, workers=14, timeout=1800)
    tot_s = tot_e = 0
    # ---- G: deterministic schedules from the counterexamples
    for sc in ("h11", "h23", "h31", "h20", "h26b"):
        out = ctx.path("sched_%s.ndjson" % sc)
        rc, so, se = ctx.run([drv, "-sched", sc, "-out", out], timeout=300, ok_codes=(0, 66))
        races(ctx, "sched:" + sc, se)
        s, e = validate(ctx, "sched:" + sc, out, "sched:" + sc, weak_retry=False)
        tot_s += s
        tot_e += e
        ctx.distinct("sched:" + sc)
    # H26: acknowledged receive at quorum, removal, straggler lands (replica minWrites < n), via the C12 driver
    scn = [{"n": 3, "w": [1, 2, 3], "rd": [1, 2, 3], "min": 1, "b": 6, "outcome": ["ok", "ok", "ok"], "order": [1, 2, 3], "pre": [[], [], []]},
           {"n": 2, "w": [1, 2], "rd": [1, 2], "min": 1, "b": 6, "outcome": ["ok", "ok"], "order": [2, 1], "pre": [[2], [2, 4]]}]
    sf = ctx.path("h26.jsonl")
    vlib.write_jsonl(sf, scn)
    out = ctx.path("h26.ndjson")
    ctx.run([c12, "-scn", sf, "-out", out, "-mode", "blobstore"], timeout=300)
    r = ctx.tlc_trace("Trace_BlobStore", "Trace_BlobStore.cfg", out)
    evs = vlib.read_ndjson(out)
    for line, text in r["viols"]:
        ev = evs[line - 1]
        ctx.discrepancy("C14/replica/sched:straggler-after-remove/%s/%s" % (ev.get("op"), ev.get("res")),
                        "replica with minWritesForSuccess < n: a write of an acknowledged receive lands after a later acknowledged removal: %s" % json.dumps(ev)[:300],
                        {"property": "C14", "scenario": scn, "events": evs[:line]})
    tot_s += len(scn)
    tot_e += len(evs)
    ctx.distinct("sched:h26")
    ctx.sample({"schedule_h11": "cache.Fetch@A(miss) origin.Fetch@A(hit) | cache.Remove@A origin.Remove@A [remove acked] | cache.Receive@A -> later fetch serves A"})
    # ---- T: random concurrent clients under the race detector
    cfgs = RANDOM_CFGS_QUICK + ([] if quick else RANDOM_CFGS_MORE)
    # (clients, ops per client, segments, blobs)
    shapes = [(2, 6, 12, 3, ""), (3, 5, 10, 4, ""), (4, 4, 6, 3, ""), (4, 10, 12, 5, "enumrm")] if quick else \
        [(2, 8, 30, 3, ""), (3, 6, 30, 5, ""), (4, 5, 24, 4, ""), (8, 3, 8, 4, ""), (4, 10, 30, 5, "enumrm"), (4, 12, 24, 6, "enumrm"), (3, 12, 24, 6, "enumrm")]
    # the linearization search is exponential in the number of overlapping calls (measured on memory: 16 clients x 1
    # operation x 10 segments = 7 M states, 11 min; 16 x 2 did not finish in 15 min): 12 and 16 clients run on four
    # configurations only, with few segments
    # (sized so that every validation stays well inside its time-out also on a machine that is busy with other checks:
    # with 40 / 12 segments and 12 x 2 the longest validation was close to 25 min and timed out under load)
    heavy = [] if quick else [(12, 1, 4, 3, ""), (16, 1, 2, 3, "")]

    if os.environ.get("VERIF_C14_CFGS"):  # development aid: only these configurations
        cfgs = os.environ["VERIF_C14_CFGS"].split(";")
    if os.environ.get("VERIF_C14_SHAPES"):  # development aid: "clients,ops,segments,blobs,mix;..."
        heavy = []
        shapes = [tuple(int(x) if x.isdigit() else x for x in sh.split(",")) for sh in os.environ["VERIF_C14_SHAPES"].split(";")]
    if os.environ.get("VERIF_C14_MIX"):  # development aid: only the shapes of one operation mix
        shapes = [sh for sh in shapes if sh[4] == os.environ["VERIF_C14_MIX"]]

    def work(cfg):
        res = []
        for (cl, ops, segs, nb, mix) in shapes + (heavy if cfg in HEAVY_CFGS else []):
            safe = re.sub(r"[^A-Za-z0-9]+", "_", cfg)
            out = ctx.path("rnd_%s_%d%s.ndjson" % (safe, cl, mix))
            rc, so, se = ctx.run([drv, "-cfg", cfg, "-out", out, "-seed", str(ctx.seed * 100 + cl), "-clients", str(cl), "-ops", str(ops),
                                  "-segments", str(segs), "-blobs", str(nb), "-mix", mix] + (["-noremove"] if any(k in cfg for k in NOREMOVE) else [])
                                  + (["-split"] if any(k in cfg for k in SPLIT) else []),
                                 timeout=900, ok_codes=None)
            if rc not in (0, 66):
                pm = re.search(r"panic: (.*)", se) or re.search(r"fatal error: (.*)", se)
                if pm:
                    fr = re.search(r"(perkeep\.org/[^\s(]+)", se[pm.end():])
                    ctx.discrepancy("C14/%s/driver/panic@%s" % (cfg_class(cfg), fr.group(1) if fr else "?"), "process died: %s" % pm.group(1)[:200],
                                    {"property": "C14", "cfg": cfg, "panic": se[pm.start():pm.start() + 2000]})
                    continue
                raise vlib.MachineryError("c14 driver failed on %s rc=%s: %s" % (cfg, rc, se[-1500:]))
            nr = races(ctx, cfg, se)
            s, e = validate(ctx, cfg, out, "random/%dclients%s" % (cl, "/" + mix if mix else ""))
            os.remove(out)
            res.append((s, e, nr))
        return cfg, res
    with ThreadPoolExecutor(max_workers=6) as ex:
        for cfg, res in ex.map(work, cfgs):
            for (s, e, nr) in res:
                tot_s += s
                tot_e += e
            ctx.distinct("random|" + cfg_class(cfg))
    # ---- T (index + corpus): every arrival order dealt to 3 goroutines that feed the index at once while a 4th
    # queries index and corpus in a loop, under the race detector; at quiescence the out-of-order state must satisfy
    # IndexOOOPred.ConfluentState for the delivered set (Trace_IndexOOO) and live == reloaded (Trace_CorpusRefine)
    import c05 as _c05
    import _idxfam
    reps = _idxfam.generate(ctx, _idxfam.shapes(ctx), quick)
    if quick:
        reps = reps[::3]
        # a blob delivered twice (the second delivery racing with the arrival of its dependencies)
        import random as _random
        rr = _random.Random(ctx.seed)
        reps += [dict(r, order=r["order"] + [rr.choice(r["order"])]) for r in rr.sample(reps, min(80, len(reps)))]
    sink = []
    o5, o6 = _idxfam.run_driver(ctx, reps, tag="conc", race=True, extra=["-conc", "3"], stderr_sink=sink, shards=4)
    for se in sink:
        races(ctx, "index", se)
    r5 = ctx.tlc_trace("Trace_IndexOOO", "Trace_IndexOOO.cfg", o5, timeout=1800)
    r6 = ctx.tlc_trace("Trace_CorpusRefine", "Trace_CorpusRefine.cfg", o6, timeout=1800)
    if not r5["accepted"] or not r6["accepted"]:
        raise vlib.MachineryError("C14 index traces not consumed: %s %s" % (r5["out"][-800:], r6["out"][-800:]))
    ev5, ev6 = vlib.read_ndjson(o5), vlib.read_ndjson(o6)
    for line, text in r5["viols"]:
        sig, what, rp = _c05.classify(ctx, ev5, line, text)
        rp["property"] = "C14"
        ctx.discrepancy(sig.replace("C05/", "C14/index+conc/", 1), "3 concurrent feeders: " + what, rp)
    for line, text in r6["viols"]:
        ev = ev6[line - 1]
        a = line - 1
        while ev6[a]["ev"] != "reset":
            a -= 1
        ctx.discrepancy("C14/index+conc/%s/live-vs-reloaded/%s" % (ev6[a]["shape"], "+".join(ev.get("classes", [])[:8])),
                        "3 concurrent feeders, order %s: live corpus != reloaded at quiescence: %s" % (ev6[a]["order"], json.dumps(ev.get("diff"))[:400]),
                        {"property": "C14", "replay": {"shape_name": ev6[a]["shape"], "order": ev6[a]["order"]}})
    tot_s += len(reps)
    tot_e += len(ev5) + len(ev6)
    ctx.distinct("index+conc")
    ctx.count("T", index_concurrent_replays=len(reps))
    # ---- T (index + corpus, family index+reads): the RESULTS of reads made during a concurrent feed (Trace_IndexLin)
    import _c14q
    s, e = _c14q.run_leg(ctx, quick, reps)
    tot_s += s
    tot_e += e
    ctx.cov["traces_validated_against_impl"] = tot_s
    ctx.cov["evaluations"] = tot_e
    ctx.cov["exhaustive"] = False
    ctx.cov["rule"] = ("segment = one concurrent run of c clients x k random operations over 3 overlapping blobs on one configuration "
                       "(seeded yields at lower-layer boundaries) followed by a sequential observation; (clients, ops, segments) in %s on %d "
                       "configurations; plus 3 deterministic schedules derived from model counterexamples; distinct = configuration class / schedule" % (shapes, len(cfgs)))
    ctx.cov["aux_oracle"] = "data-race freedom is observed by the Go race detector on the validated executions (no TLA+ model of call/return histories decides it)"
    ctx.assumptions += ["call/ret events are ordered by one global counter taken under the log mutex: call before invocation, ret after return",
                        "proxycache, replica with minWrites < n and blobpacked-while-packing are exercised through deterministic schedules only (their mechanisms are not linearizable: known findings)",
                        "enumerate is checked as an atomic snapshot; a segment that only the weaker scan semantics explains gets the signature enum-not-snapshot"]
