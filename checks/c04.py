"""C04 - packing files into zips is invisible to clients and recoverable from the zips.

S: BlobPacked.tla (Invisible, RemovedGone, RowsPointIntoLarge, WholeOnlyWhenComplete) for the intended
   mechanism; the deviations the code is believed to have (RemoveKeepsLooseCopy = H7, RecoveryForgetsRemovals)
   must violate RemovedGone; BlobStoreFault.tla is the client-view reference.
G: real blobpacked over gate small/large stores and a gate meta KV; files at/above the packing threshold
   (single zip, multi zip via the verif max-zip hook, repeated chunks, identical files under two names);
   the process is frozen before every mutating lower-layer call of the pack (and half way through the
   loose-blob deletion), the durable state is cloned and restarted in recovery modes none / fast / full,
   observed (fetch, sub-fetch, stat, enumerate, whole-file read, OpenWholeRef), continued, and put through
   later removals / re-receives and a full recovery from the zips alone.
T: Trace_BlobStoreFault.tla validates every segment (single pass); Trace_BlobPacked.tla validates the
   recorded write order of every fault-free pack; every zip in `large` is checked (size limit, valid zip,
   first entry = contiguous file content)."""
import json
import os
import re
import sys

import vlib

sys.path.insert(0, os.path.dirname(os.path.abspath(__file__)))
import _stream  # noqa: E402

LEVEL = "model_checking"


def classify(ctx, seg, idx, reason):
    reset, ev = seg[0], seg[idx]
    cr = reset.get("crash", {"class": "none"})
    mode = reset.get("mode", cr.get("mode", "-"))
    if ev.get("ev") == "recover":
        what = "recover:%s/%s" % (ev.get("what"), ev.get("res"))
    elif ev.get("ev") == "zips":
        what = "zips/%s" % ev.get("res")
    else:
        what = "%s/%s" % (ev.get("op"), ev.get("res"))
    # the second restart ("side") only checks that a rebuild changes nothing: it does not start a new phase for what follows
    recs = [i for i, x in enumerate(seg[:idx]) if x.get("ev") == "recover"]
    in_side = bool(recs) and seg[recs[-1]].get("side") and not any(e.get("ev") == "op" and e.get("op") in ("receive", "remove") for e in seg[recs[-1]:idx])
    last_rec = max([i for i in recs if not seg[i].get("side")] or [0])
    muts = [e.get("op") for e in seg[last_rec + 1:idx] if e.get("ev") == "op" and e.get("op") in ("receive", "remove") and last_rec > 0 or
            (last_rec == 0 and e.get("ev") == "op" and e.get("op") == "remove")]
    phase = "after-" + ("+".join(dict.fromkeys(muts)) if muts else "restart" if last_rec else "pack")
    if in_side or (ev.get("ev") == "recover" and ev.get("side")):
        phase = "after-second-restart:" + str(seg[recs[-1]].get("what") if recs else ev.get("what"))
    sig = "C04/%s/%s/mode=%s/%s/%s" % (reset.get("scn"), cr.get("class"), mode, phase, what)
    return sig, ("%s: %s" % (reason, json.dumps({k: v for k, v in ev.items() if k not in ("seq", "needs")})[:300])), \
        {"property": "C04", "segment": [e for e in seg[:idx + 1] if e.get("op") not in ("fetch",)][-60:], "reason": reason}


def run(ctx, replay):
    drv = ctx.build("c04")
    quick = ctx.quick()
    is_reset = lambda e: e.get("ev") == "reset"
    if replay:
        rp = json.load(open(replay))
        if rp.get("family") == "stream":
            return _stream.run_replay(ctx, rp)
        raise vlib.MachineryError("C04 replays are reproduced by re-running the check with the same seed (the crash state depends on the whole scenario); "
                                  "the saved segment is in %s" % replay)
    # ---- S
    ctx.tlc_check("MC_BlobPacked", "BlobPacked.cfg")
    ctx.tlc_check("MC_BlobPacked", "BlobPacked.cfg", overrides={"Deviations": '{"RemoveKeepsLooseCopy"}'}, expect_violation="RemovedGone")
    ctx.tlc_check("MC_BlobPacked", "BlobPacked.cfg", overrides={"Deviations": '{"RecoveryForgetsRemovals"}'}, expect_violation="RemovedGone")
    if not quick:
        ctx.tlc_check("MC_BlobPacked", "BlobPacked.cfg", overrides={"Chunks": "{1, 2, 3}", "NZips": "3"}, coverage=True)
    # ---- G / T
    out, pk = ctx.path("c04.ndjson"), ctx.path("c04pack.ndjson")
    rc, so, se = ctx.run([drv, "-out", out, "-packlog", pk, "-seed", str(ctx.seed)] + ([] if quick else ["-thorough"]), timeout=2400)
    classes = json.loads(re.search(r"classes=(.*)", so).group(1))
    ctx.sample({"crash_classes": classes})
    evs = vlib.read_ndjson(out)
    fails = ctx.tlc_trace_segments("MC_TraceFault", "Trace_BlobStoreFaultBig.cfg", evs, is_reset, timeout=2400)
    for seg, idx, why in fails:
        sig, what, rp = classify(ctx, seg, idx, why)
        ctx.discrepancy(sig, what, rp)
    nseg = 0
    for e in evs:
        if is_reset(e):
            nseg += 1
            ctx.distinct("%s|%s|%s" % (e.get("scn"), e.get("crash", {}).get("class"), e.get("mode")))
    # pack write order
    r = ctx.tlc_trace("Trace_BlobPacked", "Trace_BlobPacked.cfg", pk)
    if not r["accepted"]:
        raise vlib.MachineryError("pack log not consumed: %s" % r["out"][-1500:])
    pevs = vlib.read_ndjson(pk)
    for line, text in r["viols"]:
        ctx.discrepancy("C04/pack-order/%s" % re.sub(r"[^a-z ]", "", text.lower()).strip().replace(" ", "-")[:70],
                        "pack log line %d: %s ; %s" % (line, json.dumps(pevs[line - 1]), text), {"property": "C04", "packlog": pevs})
    ctx.sample({"pack_write_sequence": pevs[:6]})
    # negative sample: DeleteLoose moved before its MetaBatch must be reported
    bad = [dict(x) for x in pevs[:5]]
    mi = next(i for i, x in enumerate(bad) if x["act"] == "MetaBatch")
    di = next(i for i, x in enumerate(bad) if x["act"] == "DeleteLoose")
    bad[mi], bad[di] = bad[di], bad[mi]
    bf = ctx.path("pack_bad.ndjson")
    vlib.write_jsonl(bf, bad)
    if not ctx.tlc_trace("Trace_BlobPacked", "Trace_BlobPacked.cfg", bf)["viols"]:
        raise vlib.MachineryError("negative sample (delete before meta batch) not reported by Trace_BlobPacked")
    ctx.cov["traces_validated_against_impl"] = nseg + sum(1 for e in pevs if e["act"] == "reset")
    ctx.cov["evaluations"] = len(evs) + len(pevs)
    ctx.cov["exhaustive"] = True
    ctx.cov["rule"] = ("segment = (file scenario, crash point = every mutating lower-layer call of the pack incl. half-done loose deletion and "
                       "'after the last write', recovery mode none/fast/full), each observed, continued and put through removals/re-receives; "
                       "distinct = (scenario, crash class, mode)")
    ctx.assumptions += ["gate stores / KV are correct lower layers and snapshot-able; a crash is a prefix of lower-layer calls",
                        "real files of 0.5-1.5 MiB written with schema.WriteFileFromReader; multi-zip packs through the verif max-zip hook",
                        "blobpacked is configured keepGoing (its integrity check would otherwise os.Exit)"]
    _stream.run_leg(ctx, quick, "blobpacked")
