"""C09 - paging through search results neither skips nor repeats anything; around windows are contiguous.

S: Paging.tla - order (time desc, ref desc), token filter, Pages, the transcribed around bookkeeping; for every
   assignment of 4 time values (negative, -1 ns, +1 ns, positive) to 5 (6) permanodes, every limit and pivot:
   ExactlyOnce, PageIsNextChunk, AroundOK, AroundFull; sensitivity: each of the deviations UnsignedToken (H5),
   NoTieBreak, TieBreakLeq must break ExactlyOnce.
G: PagingGen.tla enumerates worlds (n <= 4 exhaustively x 7 time classes incl. pre-1970, sub-second and zoned (same instant, different UTC offsets), -simulate
   for n = 5..6) and the query grid; harness/cmd/c09 builds the signed blobs, indexes them (live corpus and corpus
   reloaded from the rows), follows Continue tokens of search.Handler.Query to the end (or a loop bound) for both
   continuable sorts and every limit, and asks Around for every pivot.
T: Trace_Paging.tla derives the matching permanodes and both sort keys from the world file with the Claims
   operators and requires Concat(pages) = Full, only the last page short, and contiguous around windows
   containing the pivot; seeded random worlds with up to 200 permanodes on a handful of instants go through
   the same validator."""
import hashlib
import json
import os
import re
import threading
from concurrent.futures import ThreadPoolExecutor

import vlib

LEVEL = "model_checking"
LOCK = threading.Lock()       # shards are validated in parallel threads; classification is serialised
SECRING = os.path.join(vlib.REPO, "pkg/jsonsign/testdata/test-secring.gpg")
TCFG = "Trace_Paging.cfg"
PRE1970 = {"pre1970", "presub", "span1970", "mixed"}

VIOL_RX = re.compile(r'^\s*"(\w+)",\s*"(\w+)",\s*"([\w-]+)",\s*"(\w*)",\s*(.*)$', re.S)


def signature(ev, cls, tclass, zoned=False):
    era = ("pre-1970" if tclass in PRE1970 else "post-1970") + ("+zoned" if zoned else "")
    if ev["ev"] == "pages":
        return "C09/%s/pages:%s/%s/exactly-once->%s" % (ev["mode"], ev["sort"], era, cls)
    return "C09/%s/around:%s/%s/window->%s" % (ev["mode"], ev["sort"], era, cls)


def validate(ctx, tracefile, cases, leg):
    r = ctx.tlc_trace("Trace_Paging", TCFG, tracefile, timeout=900)
    if not r["accepted"]:
        raise vlib.MachineryError("trace %s not fully consumed: %s" % (tracefile, r["out"][-1500:]))
    evs = vlib.read_ndjson(tracefile)
    nworlds = sum(1 for e in evs if e["ev"] == "world")
    drift = len(re.findall(r'<<\s*"DRIFT"', r["out"]))
    for line, text in r["viols"]:
        ev = evs[line - 1]
        m = VIOL_RX.match(text)
        if not m or m.group(1) != ev["ev"]:
            raise vlib.MachineryError("cannot parse VIOL line %d: %s" % (line, text[:300]))
        cls, tclass, full = m.group(3), m.group(4), " ".join(m.group(5).split())
        case = cases[ev["w"]]
        zoned = bool(case.get("opts", {}).get("zones")) and case.get("opts", {}).get("created") == "dc" and ev["sort"] == "created"
        sig = signature(ev, cls, tclass, zoned)
        shown = {k: v for k, v in ev.items() if k not in ("w",)}
        if ev["ev"] == "pages" and len(ev["pages"]) > 6:
            shown["pages"] = ev["pages"][:6] + ["... %d pages" % len(ev["pages"])]
        what = "%s ; full ordered list (ranks) %s ; time class %s, %d permanodes" % (json.dumps(shown, sort_keys=True), full[:200], tclass, case.get("n", 0))
        with LOCK:
            ctx.discrepancy(sig, what[:900], {"property": "C09", "leg": case.get("leg", leg), "signature": sig, "case": case, "event": ev})
    return nworlds, len(evs) - nworlds, drift


def run_cases(ctx, drv, cases, tag, shards):
    cf = ctx.path("cases_%s.jsonl" % tag)
    vlib.write_jsonl(cf, cases)
    shards = max(1, min(shards, len(cases)))

    def work(i):
        out = ctx.path("tr_%s_%d.ndjson" % (tag, i))
        rc, so, se = ctx.run([drv, "-worlds", cf, "-out", out, "-secring", SECRING, "-shard", str(i), "-nshards", str(shards)],
                             timeout=900, ok_codes=None)
        if rc != 0:
            m = re.search(r"panic: (.*)", se)
            if m and rc == 2:
                fr = re.search(r"(perkeep\.org/[^\s(]+)", se[m.end():])
                ctx.discrepancy("C09/%s/driver/-/reply->panic@%s" % (tag, fr.group(1) if fr else "?"), "driver died: panic: %s" % m.group(1)[:300])
                return 0, 0, 0, None
            raise vlib.MachineryError("c09 driver failed (rc=%d): %s" % (rc, se[-2000:]))
        w, n, d = validate(ctx, out, cases, tag)
        return w, n, d, out
    tw = tn = td = 0
    first = None
    with ThreadPoolExecutor(max_workers=shards) as ex:
        for w, n, d, out in ex.map(work, range(shards)):
            tw += w
            tn += n
            td += d
            first = first or out
    return tw, tn, td, first


def negative_samples(ctx, tracefile):
    """Binding self-test: corrupt one field of a real, accepted trace line; exactly that line must be rejected."""
    evs = vlib.read_ndjson(tracefile)
    starts = [i for i, e in enumerate(evs) if e["ev"] == "world"] + [len(evs)]

    def swap_pages(e):       # last of page 1 <-> first of page 2: order broken, multiset intact
        e["pages"] = [list(p) for p in e["pages"]]
        e["pages"][0][-1], e["pages"][1][0] = e["pages"][1][0], e["pages"][0][-1]

    def drop_one(e):         # one result skipped
        e["pages"] = [list(p) for p in e["pages"]]
        e["pages"][0] = e["pages"][0][1:]

    def gap(e):              # the window is no longer a contiguous piece of the list: a foreign rank next to the pivot
        out = list(e["out"])
        out[0 if out[0] != e["pivot"] else len(out) - 1] = 1
        e["out"] = out
    kinds = (("swap", lambda e: e["ev"] == "pages" and len(e["pages"]) >= 2 and e["pages"][0] and e["pages"][1] and e["pages"][0][-1] != e["pages"][1][0], swap_pages),
             ("skip", lambda e: e["ev"] == "pages" and len(e["pages"]) >= 2 and e["pages"][0], drop_one),
             ("gap", lambda e: e["ev"] == "around" and len(e["out"]) >= 2, gap))
    done = set()
    tried = 0
    for a, b in zip(starts, starts[1:]):
        seg = evs[a:b]
        if len(done) == len(kinds) or tried >= 6:
            break
        if not all(any(pred(e) for e in seg) for _, pred, _ in kinds):
            continue
        tried += 1
        good = ctx.path("neg_base.ndjson")
        vlib.write_jsonl(good, seg)
        bad_before = set(l for l, _ in ctx.tlc_trace("Trace_Paging", TCFG, good)["viols"])
        for name, pred, mutate in kinds:
            if name in done:
                continue
            k = next((i for i, e in enumerate(seg) if (i + 1) not in bad_before and pred(e)), None)
            if k is None:
                continue
            bad = [dict(e) for e in seg]
            mutate(bad[k])
            bf = ctx.path("neg_%s.ndjson" % name)
            vlib.write_jsonl(bf, bad)
            r = ctx.tlc_trace("Trace_Paging", TCFG, bf)
            if (k + 1) not in set(l for l, _ in r["viols"]):
                raise vlib.MachineryError("negative sample (%s, line %d) was accepted: the trace spec does not bind" % (name, k + 1))
            done.add(name)
    if len(done) < 2:
        if ctx.violations or ctx.known_seen:
            ctx.notes.append("negative samples: only %d corruptions could be applied to lines that were accepted (the run has discrepancies)" % len(done))
        else:
            raise vlib.MachineryError("negative samples: only %d corruptions could be applied" % len(done))
    ctx.count("T", negative_samples_rejected=len(done))


def run(ctx, replay):
    # many small TLC processes run side by side: keep each JVM small
    os.environ.setdefault("JAVA_TOOL_OPTIONS", "-Xmx3g -XX:ParallelGCThreads=2 -XX:CICompilerCount=2")
    drv = ctx.build("c09")
    quick = ctx.quick()
    if replay:
        rp = json.load(open(replay))
        w, n, d, _ = run_cases(ctx, drv, [rp["case"]], "replay", 1)
        ctx.cov["traces_validated_against_impl"] += w
        ctx.cov["evaluations"] += n
        return
    ctx.specs()
    nr = 6 if quick else 120
    dump = ctx.path("rnd_cases.jsonl")
    with ThreadPoolExecutor(max_workers=8) as ex:
        # ---- S
        pn = "{2, 4, 6, 8, 10}" if quick else "{2, 4, 6, 8, 10, 12}"
        ml = 6 if quick else 7
        fs = [ex.submit(ctx.tlc_check, "Paging", "Paging.cfg", overrides={"Pn": pn, "MaxLimit": ml}, workers=4 if quick else 12, coverage=not quick)]
        for dev in ("UnsignedToken", "NoTieBreak", "TieBreakLeq"):
            fs.append(ex.submit(ctx.tlc_check, "Paging", "Paging.cfg", overrides={"Deviations": '{"%s"}' % dev}, workers=1, expect_violation="ExactlyOnce"))
        # ---- G: worlds and query grids from TLC
        g1 = ex.submit(ctx.tlc_gen, "PagingGen", "PagingGen.cfg", tag="WORLD", overrides={"MaxN": 4 if quick else 5})
        g2 = ex.submit(ctx.tlc_gen, "PagingGen", "PagingGen.cfg", tag="WORLD", overrides={"Mode": '"sim"', "SimMin": 4 if quick else 6},
                       simulate=(90 if quick else 6000), depth=20, seed=ctx.seed)
        g3 = ex.submit(ctx.run, [drv, "-random", str(nr), "-seed", str(ctx.seed), "-maxn", "200", "-dump", dump], timeout=300)
        bfs, sim = g1.result(), g2.result()
        g3.result()
        rnd = vlib.read_ndjson(dump)
        ctx.sample({"generated_world": {k: sim[0][k] for k in ("n", "cls", "slots", "opts", "limits")}})
        ctx.sample({"random_world": {"n": rnd[0]["n"], "cls": rnd[0]["cls"], "distinct_instants": len(set(rnd[0]["slots"])), "limits": rnd[0]["limits"]}})
        cases = [dict(c, leg=tag) for tag, cs in (("G-bfs", bfs), ("G-sim", sim)) for c in cs]
        # big random worlds first in their own shards (one each), the small ones spread over 10 shards
        f_small = ex.submit(run_cases, ctx, drv, cases, "gen", 10)
        f_big = ex.submit(run_cases, ctx, drv, rnd, "rnd", len(rnd) if quick else 12)
        w1, n1, d1, first_trace = f_small.result()
        w2, n2, d2, _ = f_big.result()
        for f in fs:
            r = f.result()
            if r.get("zero_actions"):
                raise vlib.MachineryError("leg S: actions never taken: %s" % r["zero_actions"])
    for c in cases + rnd:
        ctx.distinct(hashlib.md5(json.dumps([c["n"], c["cls"], c["slots"], c["opts"]], sort_keys=True).encode()).hexdigest())
    ctx.count("G", worlds_exhaustive=len(bfs), worlds_sim=len(sim), replies=n1, around_windows_differing_from_transcription=d1 + d2)
    ctx.count("T", worlds_random=len(rnd), replies_random=n2, largest_world=max(c["n"] for c in rnd))
    if d1 + d2:
        ctx.notes.append("%d accepted around windows differ from the bookkeeping transcribed in Paging!AroundMech (information only)" % (d1 + d2))
    negative_samples(ctx, first_trace)
    ctx.cov["traces_validated_against_impl"] = w1 + w2
    ctx.cov["evaluations"] = n1 + n2
    ctx.cov["exhaustive"] = False
    ctx.cov["rule"] = ("world = (n permanodes, time class, slot assignment = tie pattern, options: tagged subset / deleted permanode / deleted later claim / "
                       "dateCreated in reverse order); exhaustive for n <= %d x 7 time classes (incl. zoned: tied instants spelled with different UTC offsets in dateCreated) (%d worlds), %d simulated worlds n <= 6, %d random worlds up to 200 "
                       "permanodes on 1..21 instants; per world x {live corpus, reloaded corpus} x {created, mod}: paging for every limit 1..n+1 and an around "
                       "query for every pivot x limit; evaluations = page sequences + around windows validated by TLC; distinct = distinct worlds"
                       % (4 if quick else 5, len(bfs), len(sim), len(rnd)))
    ctx.assumptions += [
        "blobrefs are abstracted to the rank of their text (all sha224); the agreement of Ref.Less with text order is C20",
        "time zones: only the time-valued attributes can carry a UTC offset into a sort key (claim dates are re-read from index rows, always UTC); dateCreated is the one exercised (Z, +02:00, +05:30, -09:30), the model compares instants",
        "times are (seconds, nanoseconds) pairs read from the world file; created time = dateCreated attribute if set, else modtime (other sources of PermanodeTime - files, EXIF - are not exercised)",
        "claim dates inside the first second of 1970 are never generated: perkeep treats them as missing (Time3339.IsAnyZero) and does not index the claim",
        "every matching permanode has a live claim (claim-less and deleted permanodes are not listed by the sorted sources: C08/H4); tag claims are never deleted here (H2 belongs to C07)",
        "an around reply is judged at property level (contiguous window containing the pivot, at most limit, empty iff the pivot does not match); equality with the transcribed bookkeeping is only counted",
        "Continue requires the in-memory corpus; queries without corpus cannot page and are not part of the property"]
