// c10 replays abstract key/value histories (TLC-generated or seeded random) on a
// real perkeep sorted.KeyValue - memory, leveldb, kvfile ("kv"), sqlite, or
// buffer.New(memory, one of these, maxBufferBytes) - and records the projected
// replies as an ndjson trace for Trace_SortedKV.tla.
//
// The driver never computes an expected value: it maps ranks to the bytes of its
// alphabets, makes the real call, maps the reply back to ranks and logs it.
// Every call runs under a watchdog (a call that blocks forever is the
// observation res:"hang"), panics inside perkeep are recovered and logged as
// res:"panic" with the panic site; an iterator is always scanned to exhaustion
// and closed before the next call.
package main

import (
	"bufio"
	"encoding/json"
	"flag"
	"fmt"
	"io"
	"log"
	"math/rand"
	"os"
	"path/filepath"
	"regexp"
	"runtime"
	"sort"
	"strconv"
	"strings"
	"time"

	"go4.org/jsonconfig"
	"perkeep.org/pkg/sorted"
	"perkeep.org/pkg/sorted/buffer"
	_ "perkeep.org/pkg/sorted/kvfile"
	_ "perkeep.org/pkg/sorted/leveldb"
	_ "perkeep.org/pkg/sorted/sqlite"

	"verif/gate"
)

// The documented limits (pkg/sorted/kv.go); written out so that a change of the
// constants in perkeep is seen as a change of behaviour at the limits.
const (
	maxKeySize   = 767
	maxValueSize = 63000
)

// ---------------------------------------------------------------- alphabets

type alphabet struct {
	Keys, Vals []string
	keyRank    map[string]int
	valRank    map[string]int
}

func newAlphabet() *alphabet {
	k767 := "k" + strings.Repeat("x", maxKeySize-1)
	keys := []string{
		":", "a", "a:", "ab", "a|b", "a|b:c", "a|b|", "a\xff",
		k767,       // exactly at the key limit: stored
		k767 + "x", // one above (and an extension of the previous key): silently skipped
		"|", "\xff", "\xff\xff",
	}
	v63000 := strings.Repeat("z", maxValueSize)
	vals := []string{
		"", // the empty value is a value
		"v", "w|x:y\xff",
		v63000,       // exactly at the value limit
		v63000 + "z", // one above
	}
	sort.Strings(keys) // bytewise
	sort.Strings(vals)
	a := &alphabet{Keys: keys, Vals: vals, keyRank: map[string]int{}, valRank: map[string]int{}}
	for i, k := range keys {
		a.keyRank[k] = i + 1
	}
	for i, v := range vals {
		a.valRank[v] = i + 1
	}
	return a
}

func (a *alphabet) key(rank int) string { // cursor 0 = ""
	if rank == 0 {
		return ""
	}
	return a.Keys[rank-1]
}
func (a *alphabet) val(rank int) string { return a.Vals[rank-1] }
func (a *alphabet) rankOfKey(k string) int {
	if r, ok := a.keyRank[k]; ok {
		return r
	}
	return -1
}
func (a *alphabet) rankOfVal(v string) int {
	if r, ok := a.valRank[v]; ok {
		return r
	}
	return -1
}

func (a *alphabet) describe() map[string]any {
	var bigk, bigv []int
	for i, k := range a.Keys {
		if len(k) > maxKeySize {
			bigk = append(bigk, i+1)
		}
	}
	for i, v := range a.Vals {
		if len(v) > maxValueSize {
			bigv = append(bigv, i+1)
		}
	}
	show := func(s string) string {
		if len(s) > 12 {
			return fmt.Sprintf("%q...(%d bytes)", s[:4], len(s))
		}
		return strconv.Quote(s)
	}
	var ks, vs []string
	for _, k := range a.Keys {
		ks = append(ks, show(k))
	}
	for _, v := range a.Vals {
		vs = append(vs, show(v))
	}
	k767 := "k" + strings.Repeat("x", maxKeySize-1)
	return map[string]any{
		"nk": len(a.Keys), "nv": len(a.Vals), "bigk": bigk, "bigv": bigv, "keys": ks, "vals": vs,
		// the small alphabet of the exhaustive generator: a key, an extension of it, the oversize key
		"genk": []int{a.keyRank["a|b"], a.keyRank["a|b:c"], a.keyRank[k767+"x"]},
		"genv": []int{a.valRank[""], a.valRank["v"], a.valRank[strings.Repeat("z", maxValueSize+1)]},
		// batches: a key and its extension, the empty and a plain value
		"batchk": []int{a.keyRank["a|b"], a.keyRank["a|b:c"]},
		"batchv": []int{a.valRank[""], a.valRank["v"]},
	}
}

// ---------------------------------------------------------------- histories

type Op struct {
	Op   string  `json:"op"`
	A    int     `json:"a"`
	B    int     `json:"b"`
	Muts [][]int `json:"muts"`
}

type Hist struct {
	Leg     string `json:"leg"`
	H       int    `json:"h"`
	Observe bool   `json:"observe"`
	Ops     []Op   `json:"ops"`
}

func randomHist(rng *rand.Rand, a *alphabet, ln int) []Op {
	nk, nv := len(a.Keys), len(a.Vals)
	// a working set smaller than the alphabet makes overwrites, deletes of present keys and
	// non-empty scans frequent
	hot := make([]int, 0, 6)
	for len(hot) < 6 {
		hot = append(hot, 1+rng.Intn(nk))
	}
	key := func() int {
		if rng.Intn(4) > 0 {
			return hot[rng.Intn(len(hot))]
		}
		return 1 + rng.Intn(nk)
	}
	cur := func() int {
		if rng.Intn(3) == 0 {
			return 0
		}
		return key()
	}
	var h []Op
	for i := 0; i < ln; i++ {
		switch x := rng.Intn(20); {
		case x < 5:
			h = append(h, Op{Op: "set", A: key(), B: 1 + rng.Intn(nv)})
		case x < 7:
			h = append(h, Op{Op: "delete", A: key()})
		case x < 10:
			h = append(h, Op{Op: "get", A: key()})
		case x < 14:
			h = append(h, Op{Op: "find", A: cur(), B: cur()})
		case x < 17:
			n := rng.Intn(6)
			if rng.Intn(4) == 0 {
				// a long batch over few keys: the same key is set, deleted and set again many times, and the batch is
				// longer than the small-slice thresholds of sorting / grouping code
				n = 13 + rng.Intn(40)
			}
			muts := [][]int{}
			for j := 0; j < n; j++ {
				if rng.Intn(3) == 0 {
					muts = append(muts, []int{0, key(), 0})
				} else {
					muts = append(muts, []int{1, key(), 1 + rng.Intn(nv)})
				}
			}
			h = append(h, Op{Op: "batch", Muts: muts})
		case x < 19:
			h = append(h, Op{Op: "flush"})
		default:
			h = append(h, Op{Op: "reopen"})
		}
	}
	return h
}

// ---------------------------------------------------------------- configurations

type config struct {
	text    string
	buffer  bool
	max     int64
	backing string // memory | leveldb | kv | sqlite
	aged    int    // on-disk stores: close/reopen cycles with since-deleted data before the history starts
}

var cfgRx = regexp.MustCompile(`^(?:buffer(?:\[max=(\d+)\])?\((\w+)(?:\[aged=(\d+)\])?\)|(\w+)(?:\[aged=(\d+)\])?)$`)

func parseConfig(s string) (*config, error) {
	m := cfgRx.FindStringSubmatch(s)
	if m == nil {
		return nil, fmt.Errorf("bad configuration %q", s)
	}
	c := &config{text: s}
	if m[4] != "" {
		c.backing = m[4]
		c.aged, _ = strconv.Atoi(m[5])
	} else {
		c.buffer = true
		c.backing = m[2]
		c.aged, _ = strconv.Atoi(m[3])
		c.max = 4
		if m[1] != "" {
			c.max, _ = strconv.ParseInt(m[1], 10, 64)
		}
	}
	if c.aged > 0 && c.backing == "memory" {
		return nil, fmt.Errorf("memory cannot be aged")
	}
	switch c.backing {
	case "memory", "leveldb", "kv", "sqlite":
	default:
		return nil, fmt.Errorf("unknown sorted type %q", c.backing)
	}
	return c, nil
}

// store is the object under test plus what is needed to close and reopen it.
type store struct {
	cfg  *config
	dir  string
	kv   sorted.KeyValue // what the client talks to
	back sorted.KeyValue // the backing store (== kv without buffer)
}

func (s *store) openBacking() (sorted.KeyValue, error) {
	if s.cfg.backing == "memory" {
		if s.back != nil {
			return s.back, nil // memory has no durable form: Close is a no-op, the object lives on
		}
		return sorted.NewKeyValue(jsonconfig.Obj{"type": "memory"})
	}
	return sorted.NewKeyValue(jsonconfig.Obj{"type": s.cfg.backing, "file": filepath.Join(s.dir, "db."+s.cfg.backing)})
}

// agedContent is what an [aged=n] store holds when a history starts (ranks): two keys that the exhaustive
// generator never touches, so that the old tables stay relevant throughout.
func agedContent(a *alphabet) [][]int {
	return [][]int{{a.keyRank["ab"], a.valRank["v"]}, {a.keyRank["a\xff"], a.valRank["w|x:y\xff"]}}
}

// age gives an on-disk store a past before the history starts: its content is written over several
// close + reopen generations (an LSM store then has tables below level 0 and a recycled journal), through
// the same public interface; the reset line declares the content and the first observation checks it.
func (s *store) age(a *alphabet) error {
	pre := agedContent(a)
	n := 3*s.cfg.aged + 3
	for i := 0; i <= n; i++ {
		b, err := s.openBacking()
		if err != nil {
			return err
		}
		if i < n {
			p := pre[i%len(pre)]
			if err := b.Set(a.key(p[0]), a.val(p[1])); err != nil {
				return err
			}
		}
		// Let background work (leveldb table compaction, which rewrites and deletes files) finish before
		// closing, so that every run - and every replay - starts its histories from the same files: wait
		// until the store's directory has not changed for a while. Too short a wait costs coverage only.
		settle(s.dir)
		if err := b.Close(); err != nil {
			return err
		}
	}
	return nil
}

// settle returns when the file names and sizes under dir have been the same for 250 ms (at most 5 s).
func settle(dir string) {
	snapshot := func() string {
		var sb strings.Builder
		filepath.Walk(dir, func(p string, fi os.FileInfo, err error) error {
			if err == nil && !fi.IsDir() {
				fmt.Fprintf(&sb, "%s:%d;", p, fi.Size())
			}
			return nil
		})
		return sb.String()
	}
	last, since, t0 := snapshot(), time.Now(), time.Now()
	for time.Since(since) < 250*time.Millisecond && time.Since(t0) < 5*time.Second {
		time.Sleep(25 * time.Millisecond)
		if cur := snapshot(); cur != last {
			last, since = cur, time.Now()
		}
	}
}

func (s *store) open() error {
	b, err := s.openBacking()
	if err != nil {
		return err
	}
	s.back = b
	if s.cfg.buffer {
		s.kv = buffer.New(sorted.NewMemoryKeyValue(), b, s.cfg.max)
	} else {
		s.kv = b
	}
	return nil
}

// canReopen: a plain memory store cannot be closed and reopened.
func (s *store) canReopen() bool { return s.cfg.buffer || s.cfg.backing != "memory" }

// ---------------------------------------------------------------- watchdog

type outcome struct {
	res   string // ok | notfound | err | panic | hang
	v     int
	list  [][]int
	err   string
	frame string
}

var (
	hangConfirm = 1500 * time.Millisecond // blocked with an unchanging stack for this long = hang
	hangHardCap = 20 * time.Second
	gidRx       = regexp.MustCompile(`^goroutine (\d+) \[`)
)

func topPerkeepFrame(stack string) string {
	for _, line := range strings.Split(stack, "\n") {
		if strings.HasPrefix(line, "perkeep.org/") {
			if i := strings.LastIndex(line, "("); i > 0 {
				return line[:i]
			}
			return line
		}
	}
	return "?"
}

func goid() string {
	buf := make([]byte, 64)
	buf = buf[:runtime.Stack(buf, false)]
	if m := gidRx.FindSubmatch(buf); m != nil {
		return string(m[1])
	}
	return ""
}

// stackOf returns the header state and the stack text of goroutine id.
func stackOf(id string) (state, stack string) {
	buf := make([]byte, 1<<20)
	buf = buf[:runtime.Stack(buf, true)]
	for _, g := range strings.Split(string(buf), "\n\n") {
		if strings.HasPrefix(g, "goroutine "+id+" [") {
			hdr := g[:strings.Index(g, "\n")]
			st := hdr[strings.Index(hdr, "[")+1 : strings.LastIndex(hdr, "]")]
			if i := strings.Index(st, ","); i >= 0 {
				st = st[:i]
			}
			return st, g[strings.Index(g, "\n")+1:]
		}
	}
	return "gone", ""
}

var blockedStates = map[string]bool{
	"chan send": true, "chan receive": true, "select": true, "semacquire": true,
	"sync.Mutex.Lock": true, "sync.RWMutex.RLock": true, "sync.RWMutex.Lock": true,
	"sync.Cond.Wait": true, "sync.WaitGroup.Wait": true, "chan send (nil chan)": true, "chan receive (nil chan)": true,
	"select (no cases)": true,
}

// guard runs f under the watchdog.
func guard(f func() outcome) outcome {
	done := make(chan outcome, 1)
	idc := make(chan string, 1)
	go func() {
		idc <- goid()
		defer func() {
			if p := recover(); p != nil {
				buf := make([]byte, 1<<16)
				buf = buf[:runtime.Stack(buf, false)]
				// skip the frames of the panic machinery and of this closure: first perkeep frame below panic()
				st := string(buf)
				if i := strings.Index(st, "panic("); i >= 0 {
					st = st[i:]
				}
				done <- outcome{res: "panic", err: fmt.Sprint(p), frame: topPerkeepFrame(st)}
			}
		}()
		done <- f()
	}()
	id := <-idc
	t0 := time.Now()
	fast := time.NewTimer(100 * time.Millisecond)
	defer fast.Stop()
	select {
	case o := <-done:
		return o
	case <-fast.C:
	}
	var lastStack string
	var since time.Time
	for {
		select {
		case o := <-done:
			return o
		case <-time.After(100 * time.Millisecond):
		}
		state, stack := stackOf(id)
		now := time.Now()
		if blockedStates[state] {
			if stack != lastStack {
				lastStack, since = stack, now
			} else if now.Sub(since) >= hangConfirm {
				return outcome{res: "hang", err: "blocked in [" + state + "]", frame: topPerkeepFrame(stack)}
			}
		} else {
			lastStack = ""
		}
		if now.Sub(t0) > hangHardCap {
			return outcome{res: "hang", err: "no completion within " + hangHardCap.String() + " [" + state + "]", frame: topPerkeepFrame(stack)}
		}
	}
}

// ---------------------------------------------------------------- real calls

func errOutcome(err error) outcome {
	if err == nil {
		return outcome{res: "ok"}
	}
	if err == sorted.ErrNotFound {
		return outcome{res: "notfound"}
	}
	return outcome{res: "err", err: err.Error()}
}

type flusher interface{ Flush() error }

// do performs one abstract call on the real store. applied=false: the call does not exist for this
// configuration (flush without buffer, reopen of plain memory) and nothing is logged.
func (s *store) do(a *alphabet, op Op) (o outcome, applied bool) {
	switch op.Op {
	case "get":
		return guard(func() outcome {
			v, err := s.kv.Get(a.key(op.A))
			o := errOutcome(err)
			if err == nil {
				o.v = a.rankOfVal(v)
			}
			return o
		}), true
	case "set":
		return guard(func() outcome { return errOutcome(s.kv.Set(a.key(op.A), a.val(op.B))) }), true
	case "delete":
		return guard(func() outcome { return errOutcome(s.kv.Delete(a.key(op.A))) }), true
	case "batch":
		return guard(func() outcome {
			bm := s.kv.BeginBatch()
			for _, mu := range op.Muts {
				if mu[0] == 0 {
					bm.Delete(a.key(mu[1]))
				} else {
					bm.Set(a.key(mu[1]), a.val(mu[2]))
				}
			}
			return errOutcome(s.kv.CommitBatch(bm))
		}), true
	case "find":
		return guard(func() outcome {
			it := s.kv.Find(a.key(op.A), a.key(op.B))
			list := [][]int{}
			closed := false
			defer func() {
				// a panic inside Next must not leave the iterator (and what it holds) open
				if !closed {
					func() {
						defer func() { recover() }()
						it.Close()
					}()
				}
			}()
			for it.Next() { // always to exhaustion
				list = append(list, []int{a.rankOfKey(it.Key()), a.rankOfVal(it.Value())})
			}
			closed = true
			o := errOutcome(it.Close())
			o.list = list
			return o
		}), true
	case "flush":
		f, ok := s.kv.(flusher)
		if !ok {
			return outcome{}, false
		}
		return guard(func() outcome { return errOutcome(f.Flush()) }), true
	case "reopen":
		if !s.canReopen() {
			return outcome{}, false
		}
		return guard(func() outcome {
			if err := s.kv.Close(); err != nil {
				return outcome{res: "err", err: "close: " + err.Error()}
			}
			if err := s.open(); err != nil {
				return outcome{res: "err", err: "open: " + err.Error()}
			}
			return outcome{res: "ok"}
		}), true
	}
	fatal(fmt.Errorf("unknown op %q", op.Op))
	return
}

func event(op Op, o outcome) gate.Event {
	muts := op.Muts
	if muts == nil {
		muts = [][]int{}
	}
	list := o.list
	if list == nil {
		list = [][]int{}
	}
	ev := gate.Event{"ev": "op", "op": op.Op, "a": op.A, "b": op.B, "muts": muts, "res": o.res, "v": o.v, "list": list}
	if o.err != "" {
		ev["err"] = o.err
	}
	if o.frame != "" {
		ev["frame"] = o.frame
	}
	return ev
}

// ---------------------------------------------------------------- one history

type runner struct {
	a        *alphabet
	cfg      *config
	lg       *gate.Log
	scratch  string
	hangs    int
	maxHangs int
	template string // the aged, closed store every history of an [aged=n] configuration starts from
}

// observation after a mutator: the whole map, every key the history has touched so far, the two scans that
// put the largest touched key on the exclusive / inclusive side of a bound, and the inverted range.
func observation(touched map[int]bool) []Op {
	ops := []Op{{Op: "find"}}
	var ks []int
	for k := range touched {
		ks = append(ks, k)
	}
	sort.Ints(ks)
	for _, k := range ks {
		ops = append(ops, Op{Op: "get", A: k})
	}
	if len(ks) > 0 {
		lo, hi := ks[0], ks[len(ks)-1]
		ops = append(ops, Op{Op: "find", A: lo, B: hi}, Op{Op: "find", A: hi, B: 0})
		if hi > lo {
			ops = append(ops, Op{Op: "find", A: hi, B: lo}) // inverted bounds: an empty range
		}
	}
	return ops
}

func (r *runner) run(h Hist) {
	dir, err := os.MkdirTemp(r.scratch, "h")
	if err != nil {
		fatal(err)
	}
	s := &store{cfg: r.cfg, dir: dir}
	if r.cfg.aged > 0 {
		// aged once per run; every history starts from a copy of that (closed) store
		if r.template == "" {
			t, err := os.MkdirTemp(r.scratch, "aged")
			if err != nil {
				fatal(err)
			}
			if err := (&store{cfg: r.cfg, dir: t}).age(r.a); err != nil {
				fatal(fmt.Errorf("ageing %s: %v", r.cfg.text, err))
			}
			r.template = t
		}
		if err := os.CopyFS(dir, os.DirFS(r.template)); err != nil {
			fatal(err)
		}
	}
	if err := s.open(); err != nil {
		fatal(fmt.Errorf("open %s: %v", r.cfg.text, err))
	}
	pre := [][]int{}
	if r.cfg.aged > 0 {
		pre = agedContent(r.a)
	}
	r.lg.Emit(gate.Event{"ev": "reset", "cfg": r.cfg.text, "h": h.H, "leg": h.Leg, "pre": pre})
	touched := map[int]bool{}
	abandoned := false
	step := func(op Op) bool {
		o, applied := s.do(r.a, op)
		if !applied {
			return true
		}
		r.lg.Emit(event(op, o))
		r.lg.Flush() // if perkeep kills the process in the next call, the trace still ends with this one
		if o.res == "hang" {
			r.hangs++
			abandoned = true
			return false
		}
		if o.res == "panic" {
			abandoned = true
			return false
		}
		return true
	}
loop:
	for _, op := range h.Ops {
		if !step(op) {
			break
		}
		switch op.Op {
		case "set", "delete":
			touched[op.A] = true
		case "batch":
			for _, mu := range op.Muts {
				touched[mu[1]] = true
			}
		}
		if h.Observe && op.Op != "get" && op.Op != "find" {
			for _, q := range observation(touched) {
				if !step(q) {
					break loop
				}
			}
		}
	}
	if !abandoned && !h.Observe {
		step(Op{Op: "find"}) // final state of a long history
	}
	if !abandoned {
		// closing is not part of the property's observations, but must not wedge the driver
		guard(func() outcome { return errOutcome(s.kv.Close()) })
		os.RemoveAll(dir)
	}
	// an abandoned store may still be held by a blocked goroutine: its directory goes with the run directory
}

// ---------------------------------------------------------------- main

func fatal(err error) {
	fmt.Fprintln(os.Stderr, "c10:", err)
	os.Exit(2)
}

func main() {
	cfgS := flag.String("cfg", "memory", "memory | leveldb | kv | sqlite | buffer[max=N](one of these)")
	histF := flag.String("hist", "", "file of histories, one JSON object {leg,h,observe,ops} per line")
	out := flag.String("out", "trace.ndjson", "trace output")
	seed := flag.Int64("seed", 1, "seed of the random histories")
	random := flag.Int("random", 0, "append this many random histories")
	rlen := flag.Int("rlen", 120, "length of random histories")
	scratch := flag.String("scratch", "", "directory for on-disk stores")
	skip := flag.Int("skip", 0, "skip this many histories (resume after a driver death)")
	maxHangs := flag.Int("maxhangs", 3, "abandon the run after this many hangs")
	alpha := flag.Bool("alphabet", false, "print the alphabets as JSON and exit")
	verbose := flag.Bool("v", false, "perkeep logs to stderr")
	flag.Parse()
	a := newAlphabet()
	if *alpha {
		json.NewEncoder(os.Stdout).Encode(a.describe())
		return
	}
	if !*verbose {
		log.SetOutput(io.Discard)
	}
	cfg, err := parseConfig(*cfgS)
	if err != nil {
		fatal(err)
	}
	if *scratch != "" {
		if err := os.MkdirAll(*scratch, 0o755); err != nil {
			fatal(err)
		}
	}
	rundir, err := os.MkdirTemp(*scratch, "verif-c10-")
	if err != nil {
		fatal(err)
	}
	var hists []Hist
	if *histF != "" {
		f, err := os.Open(*histF)
		if err != nil {
			fatal(err)
		}
		sc := bufio.NewScanner(f)
		sc.Buffer(make([]byte, 1<<20), 1<<26)
		for sc.Scan() {
			var h Hist
			if err := json.Unmarshal(sc.Bytes(), &h); err != nil {
				fatal(fmt.Errorf("bad history line: %v", err))
			}
			hists = append(hists, h)
		}
		f.Close()
	}
	rng := rand.New(rand.NewSource(*seed))
	for i := 0; i < *random; i++ {
		hists = append(hists, Hist{Leg: "rnd", H: i, Ops: randomHist(rng, a, *rlen)})
	}
	lg, err := gate.NewFileLog(*out)
	if err != nil {
		fatal(err)
	}
	r := &runner{a: a, cfg: cfg, lg: lg, scratch: rundir, maxHangs: *maxHangs}
	ran, unexamined := 0, 0
	for i, h := range hists {
		if i < *skip {
			continue
		}
		r.run(h)
		ran++
		lg.Flush()
		if r.hangs >= r.maxHangs {
			unexamined = len(hists) - i - 1
			break
		}
	}
	n := lg.Len()
	if err := lg.Close(); err != nil {
		fatal(err)
	}
	fmt.Printf("histories=%d events=%d hangs=%d unexamined=%d\n", ran, n, r.hangs, unexamined)
	os.RemoveAll(rundir)
	os.Exit(0) // blocked goroutines of abandoned histories must not keep the process
}
