//go:build verif

// c17 drives the two halves of property C17 on the real perkeep code and writes
// ndjson traces for Trace_Share.tla / Trace_AuthMatrix.tla.
//
//	-mode share   worlds + request chains (TLC-generated or seeded random) are built into
//	              real signed blobs, a blob store and a real index; the share handler is
//	              created through blobserver.CreateHandler("share", ...) and called through
//	              httptest for every chain; the reply is projected to a class.
//	-mode matrix  an in-process server (serverinit.Load + InstallHandlers) for one high-level
//	              configuration and one auth mode; every installed pattern x sub-path x
//	              method x credentials is requested and projected to a class.
//
// The driver never computes an expected value; TLC does (Trace_*.tla).
package main

import (
	"encoding/json"
	"flag"
	"fmt"
	"io"
	"log"
	"os"
)

func fatal(v ...any) {
	fmt.Fprintln(os.Stderr, append([]any{"c17:"}, v...)...)
	os.Exit(3)
}

type traceWriter struct {
	f   *os.File
	enc *json.Encoder
	n   int
}

func newTrace(path string) *traceWriter {
	f, err := os.Create(path)
	if err != nil {
		fatal(err)
	}
	return &traceWriter{f: f, enc: json.NewEncoder(f)}
}

func (t *traceWriter) emit(v any) {
	if err := t.enc.Encode(v); err != nil {
		fatal(err)
	}
	t.n++
}

func (t *traceWriter) close() { t.f.Close() }

func main() {
	mode := flag.String("mode", "share", "share | matrix")
	out := flag.String("out", "trace.ndjson", "trace output")
	secring := flag.String("secring", "", "path to test-secring.gpg")
	verbose := flag.Bool("v", false, "perkeep logs to stderr")
	// share
	in := flag.String("in", "", "share: JSON file {worlds:[...], reqs:[...]} (TLC-generated)")
	random := flag.Int("random", 0, "share: generate this many random worlds instead of reading -in")
	rreq := flag.Int("rreq", 300, "share: requests per random world")
	seed := flag.Int64("seed", 1, "seed")
	states := flag.String("states", "live,reopened", "share: index states to test")
	// matrix
	hl := flag.String("hl", "mem", "matrix: high-level configuration (mem | disk | noindex)")
	authS := flag.String("auth", "userpass:u:p", "matrix: auth configuration string")
	cells := flag.String("cells", "", "matrix: JSON file with the abstract cells (TLC-generated)")
	flag.Parse()
	if !*verbose {
		log.SetOutput(io.Discard)
	}
	if *secring == "" {
		fatal("-secring required")
	}
	tw := newTrace(*out)
	defer tw.close()
	switch *mode {
	case "share":
		runShare(tw, *secring, *in, *random, *rreq, *seed, *states)
	case "matrix":
		runMatrix(tw, *secring, *hl, *authS, *cells)
	default:
		fatal("unknown mode", *mode)
	}
	fmt.Printf("lines=%d\n", tw.n)
}
