//go:build verif

package main

import (
	"bytes"
	"context"
	"encoding/json"
	"fmt"
	"io"
	"net/http"
	"net/http/httptest"
	"os"
	"path/filepath"
	"sort"
	"strings"

	"perkeep.org/pkg/auth"
	"perkeep.org/pkg/serverinit"

	"verif/world"

	_ "perkeep.org/pkg/blobserver/blobpacked"
	_ "perkeep.org/pkg/blobserver/cond"
	_ "perkeep.org/pkg/blobserver/diskpacked"
	_ "perkeep.org/pkg/blobserver/localdisk"
	_ "perkeep.org/pkg/blobserver/memory"
	_ "perkeep.org/pkg/blobserver/replica"
	_ "perkeep.org/pkg/importer/allimporters"
	_ "perkeep.org/pkg/index"
	_ "perkeep.org/pkg/jsonsign/signhandler"
	_ "perkeep.org/pkg/search"
	_ "perkeep.org/pkg/server"
	_ "perkeep.org/pkg/sorted/kvfile"
	_ "perkeep.org/pkg/sorted/leveldb"
)

const marker = "VERIFSECRET"

type recMux struct {
	mux      *http.ServeMux
	patterns []string
}

func (m *recMux) Handle(p string, h http.Handler) {
	m.patterns = append(m.patterns, p)
	m.mux.Handle(p, h)
}

type cell struct {
	Sub    string `json:"sub"`
	Method string `json:"method"`
	Creds  string `json:"creds"`
}

func highLevel(hl, authS, secring, dir string) map[string]any {
	c := map[string]any{
		"auth":               authS,
		"listen":             "localhost:3179",
		"identity":           "26F5ABDA",
		"identitySecretRing": secring,
	}
	switch hl {
	case "mem":
		c["memoryStorage"] = true
		c["memoryIndex"] = true
		c["shareHandler"] = true
	case "disk":
		c["blobPath"] = filepath.Join(dir, "blobs")
		c["packRelated"] = true
		c["levelDB"] = filepath.Join(dir, "index.leveldb")
		c["shareHandlerPath"] = "/pub/"
	case "noindex":
		c["memoryStorage"] = true
		c["runIndex"] = false
	default:
		fatal("unknown high-level configuration", hl)
	}
	return c
}

func runMatrix(tw *traceWriter, secring, hl, authS, cellsFile string) {
	dir, err := os.MkdirTemp("", "verif-c17-")
	if err != nil {
		fatal(err)
	}
	defer os.RemoveAll(dir)
	os.Setenv("CAMLI_CONFIG_DIR", filepath.Join(dir, "cfg"))
	os.MkdirAll(filepath.Join(dir, "cfg"), 0700)
	hj, _ := json.Marshal(highLevel(hl, authS, secring, dir))
	cfg, err := serverinit.Load(hj)
	if err != nil {
		fatal("serverinit.Load:", err)
	}
	rm := &recMux{mux: http.NewServeMux()}
	if _, err := cfg.InstallHandlers(rm, "http://verif.invalid"); err != nil {
		fatal("InstallHandlers:", err)
	}
	// pattern -> handler type, from the low-level configuration the server itself generated
	types := map[string]string{}
	var blobRoot string
	prefixes, _ := cfg.LowLevelJSONConfig()["prefixes"].(map[string]any)
	for p, v := range prefixes {
		m, ok := v.(map[string]any)
		if !ok {
			continue
		}
		ht, _ := m["handler"].(string)
		if in, _ := m["internal"].(bool); in {
			types[p] = "internal"
			continue
		}
		if strings.HasPrefix(ht, "storage-") {
			types[p+"camli/"] = "storage"
		} else {
			types[p] = ht
		}
		if ht == "root" {
			args, _ := m["handlerArgs"].(map[string]any)
			blobRoot, _ = args["blobRoot"].(string)
		}
	}
	for _, p := range rm.patterns {
		if strings.HasPrefix(p, "/debug/") {
			types[p] = "debug"
		}
		if types[p] == "" {
			fatal("installed pattern", p, "has no known handler type")
		}
	}
	sort.Strings(rm.patterns)

	goodHdr, badHdr := credentials(authS)

	// ---- seed content through the server's own upload endpoint, with credentials
	signers, err := world.LoadSigners(secring)
	if err != nil {
		fatal(err)
	}
	w := &world.World{Values: []string{marker + "-title"}, Items: []world.Item{
		{ID: 1, Kind: "key", Signer: 1},
		{ID: 2, Kind: "permanode", Signer: 1, Data: "m"},
		{ID: 3, Kind: "claim", Claim: "set", PN: 2, Attr: "title", Val: 1, Date: 10, Signer: 1},
		{ID: 4, Kind: "chunk", Data: marker + "-chunk-data"},
		{ID: 5, Kind: "file", Name: marker + "-name.txt", Parts: []world.Part{{Kind: "blob", Ref: 4, Size: len(marker + "-chunk-data")}}},
		{ID: 6, Kind: "share", Target: 5, Transitive: true, Signer: 1, Date: 30},
	}}
	w.Normalize()
	built, err := world.Build(w, signers)
	if err != nil {
		fatal(err)
	}
	if err := cfg.UploadPublicKey(context.Background()); err != nil {
		fatal("UploadPublicKey:", err)
	}
	var secrets []string
	for _, it := range w.Items {
		ref := built.Refs[it.ID].String()
		if it.Kind != "key" {
			secrets = append(secrets, ref)
		}
		req := httptest.NewRequest("PUT", blobRoot+"camli/"+ref, bytes.NewReader(built.Blobs[it.ID]))
		req.RemoteAddr = "203.0.113.9:5555"
		req.Header.Set("Authorization", goodHdr)
		rec := httptest.NewRecorder()
		rm.mux.ServeHTTP(rec, req)
		if rec.Code/100 != 2 {
			fatal("seeding item", it.ID, "through", blobRoot, "failed:", rec.Code, rec.Body.String())
		}
	}
	ref := func(id int) string { return built.Refs[id].String() }

	subPath := map[string]string{
		"root":     "",
		"disco":    "?camli.mode=config",
		"stat":     "camli/stat?camliversion=1&blob1=" + ref(4),
		"enum":     "camli/enumerate-blobs?limit=100",
		"blob":     "camli/" + ref(4),
		"upload":   "camli/upload",
		"remove":   "camli/remove",
		"query":    "camli/search/query",
		"describe": "camli/search/describe?blobref=" + ref(2),
		"sign":     "camli/sig/sign",
		"sigdisc":  "camli/sig/discovery",
		"pubkey":   "camli/" + ref(1),
		"status":   "status.json",
		"debugx":   "debug/x",
		"ref":      ref(4),
		"shareref": ref(6),
		"download": "download/" + ref(5) + "/f.txt",
		"cmdline":  "cmdline",
	}
	var cells []cell
	data, err := os.ReadFile(cellsFile)
	if err != nil {
		fatal(err)
	}
	if err := json.Unmarshal(data, &cells); err != nil {
		fatal("bad cells file:", err)
	}
	tw.emit(map[string]any{"ev": "server", "hl": hl, "auth": authKind(authS), "patterns": rm.patterns})
	// two passes: the credential-less websocket-upgrade probes come first, on a server process that has not served any
	// authenticated discovery yet (the process-wide token is created lazily by the first one)
	for pass := 0; pass < 2; pass++ {
		for _, p := range rm.patterns {
			base := p
			if types[p] == "storage" {
				base = strings.TrimSuffix(p, "camli/")
			}
			for _, c := range cells {
				if (pass == 0) != strings.HasPrefix(c.Creds, "ws") {
					continue
				}
				sp, ok := subPath[c.Sub]
				if !ok {
					fatal("unknown sub-path class", c.Sub)
				}
				if !strings.HasSuffix(p, "/") && c.Sub != "root" {
					continue // exact pattern: nothing below it
				}
				if types[p] == "debug" && c.Sub != "root" && c.Sub != "cmdline" && c.Sub != "debugx" {
					continue
				}
				var body io.Reader
				ctype := ""
				if c.Method == "POST" || c.Method == "PUT" {
					switch c.Sub {
					case "query":
						body = strings.NewReader(`{"constraint":{"camliType":"permanode"},"describe":{"depth":1}}`)
					case "stat":
						body = strings.NewReader("camliversion=1&blob1=" + ref(4))
						ctype = "application/x-www-form-urlencoded"
					case "blob":
						body = bytes.NewReader(built.Blobs[4])
					}
				}
				req := httptest.NewRequest(c.Method, base+sp, body)
				req.RemoteAddr = "203.0.113.9:5555" // never "localhost"
				if ctype != "" {
					req.Header.Set("Content-Type", ctype)
				}
				switch c.Creds {
				case "none":
				case "wsnone", "wsempty", "wsbad":
					// a websocket upgrade request is authenticated by its authtoken form value, not by a header
					req.Header.Set("Connection", "Upgrade")
					req.Header.Set("Upgrade", "websocket")
					q := req.URL.Query()
					if c.Creds == "wsempty" {
						q.Set("authtoken", "")
					} else if c.Creds == "wsbad" {
						q.Set("authtoken", "0000000000000000")
					}
					req.URL.RawQuery = q.Encode()
				case "bad":
					req.Header.Set("Authorization", badHdr)
				case "good":
					req.Header.Set("Authorization", goodHdr)
				default:
					fatal("unknown credentials class", c.Creds)
				}
				_, routed := rm.mux.Handler(req)
				ht := types[routed]
				if ht == "" {
					ht = "mux" // the ServeMux's own redirect / not-found handler
				}
				rec := httptest.NewRecorder()
				// a response that echoes a ref of the request itself discloses nothing
				var hidden []string
				for _, s := range secrets {
					if !strings.Contains(base+sp, s) {
						hidden = append(hidden, s)
					}
				}
				cls := serve(rm.mux, rec, req, hidden)
				dsub := c.Sub
				if ht == "debug" {
					dsub = strings.Trim(strings.TrimPrefix(routed, "/debug/"), "/")
					if c.Sub != "root" && strings.HasSuffix(routed, "/") {
						dsub += "-" + c.Sub
					}
				}
				tw.emit(map[string]any{"ev": "req", "pattern": p, "routed": routed, "htype": ht, "sub": dsub, "csub": c.Sub, "method": c.Method,
					"creds": c.Creds, "status": rec.Code, "cls": cls})
			}
		}
	}
	tw.emit(map[string]any{"ev": "end", "hl": hl})
}

func serve(h http.Handler, rec *httptest.ResponseRecorder, req *http.Request, secrets []string) (cls string) {
	defer func() {
		if e := recover(); e != nil {
			cls = "panic"
		}
	}()
	h.ServeHTTP(rec, req)
	var hay bytes.Buffer
	hay.Write(rec.Body.Bytes())
	for k, vs := range rec.Header() {
		hay.WriteString("\n" + k + ": " + strings.Join(vs, ","))
	}
	leak := bytes.Contains(hay.Bytes(), []byte(marker))
	for _, s := range secrets {
		if bytes.Contains(hay.Bytes(), []byte(s)) {
			leak = true
		}
	}
	switch {
	case leak:
		return "content"
	case rec.Code == 401 || rec.Code == 403:
		return "refused"
	case rec.Code/100 == 2:
		return "ok"
	case rec.Code/100 == 3:
		return "redirect"
	case rec.Code/100 == 4:
		return "clienterr"
	}
	return "servererr"
}

func authKind(a string) string {
	k := strings.SplitN(a, ":", 2)[0]
	if strings.Contains(a, "vivify=") {
		k += "+vivify"
	}
	if strings.Contains(a, "+localhost") {
		k += "+localhost"
	}
	return k
}

// credentials returns the Authorization header of a legitimate client of this auth mode, and
// a wrong one of the same shape.
func credentials(a string) (good, bad string) {
	parts := strings.Split(a, ":")
	basic := func(u, p string) string {
		r, _ := http.NewRequest("GET", "/", nil)
		r.SetBasicAuth(u, p)
		return r.Header.Get("Authorization")
	}
	switch parts[0] {
	case "userpass", "basic":
		return basic(parts[1], parts[2]), basic(parts[1], parts[2]+"x")
	case "devauth":
		return basic("", parts[1]), basic("", parts[1]+"x")
	case "token":
		// the server side of "token:" compares with the process token (what the web UI uses)
		return "Token " + auth.Token(), "Token " + parts[1] + "x"
	}
	fatal("no credentials known for auth mode", fmt.Sprint(parts[0]))
	return
}
