//go:build verif

package main

import (
	"bytes"
	"context"
	"encoding/json"
	"fmt"
	"io"
	"math/rand"
	"net/http"
	"net/http/httptest"
	"os"
	"strings"
	"time"

	"go4.org/jsonconfig"
	"golang.org/x/crypto/openpgp"

	"perkeep.org/pkg/blob"
	"perkeep.org/pkg/blobserver"
	"perkeep.org/pkg/jsonsign"
	"perkeep.org/pkg/schema"
	"perkeep.org/pkg/server"

	"verif/idx"
	"verif/world"
)

// SItem is one blob of a share world. The same records (minus the fields filled in by the
// driver) are what Share.tla evaluates ValidChain / Served on.
//
//	key        the signer's public key (always item 1, always stored)
//	permanode  a permanode
//	claim      set-attribute claim on permanode Target whose VALUE is the ref of Mention[0]
//	           (a genuine schema blob that names a ref in a non-link field)
//	share      share claim: Target, Transitive, Expires (seconds after world.Epoch, 0 = never);
//	           Search: a share of a search - a "search" field and NO target (Target = 0)
//	delete     delete claim of item Target (a share, or another delete = undelete)
//	chunk      plain bytes; with Mention: plain bytes that contain the text of those refs
//	bytes/file parts = Parts (blobRef / bytesRef); with Mention: the refs also occur in the
//	           non-link JSON field "verifNote"
//	staticset  "members" = Children, "mergeSets" = Merge
//	dir        "entries" = Children[0]
type SItem struct {
	ID         int          `json:"id"`
	Kind       string       `json:"kind"`
	Target     int          `json:"target"`
	Transitive bool         `json:"transitive"`
	Expires    int          `json:"expires"`
	Search     bool         `json:"search"`
	Parts      []world.Part `json:"parts"`
	Children   []int        `json:"children"`
	Merge      []int        `json:"merge"`
	Mention    []int        `json:"mention"`
	Stored     bool         `json:"stored"`
}

type SWorld struct {
	Name  string  `json:"name"`
	Items []SItem `json:"items"`
}

type SReq struct {
	W       int    `json:"w"` // 1-based index into worlds
	Chain   []int  `json:"chain"`
	Method  string `json:"method"`
	Asm     bool   `json:"asm"`
	GServed bool   `json:"served"` // the generator's own Served(chain), echoed for cross-checking
	Gen     bool   `json:"gen"`    // the request came from the TLC generator (served is meaningful)
}

type shareInput struct {
	Worlds []SWorld `json:"worlds"`
	Reqs   []SReq   `json:"reqs"`
}

const chunkLen = 16

func chunkData(id int) string {
	s := strings.Repeat(fmt.Sprintf("chunk-%02d|", id), 3)
	return s[:chunkLen]
}

// toWorld renders the share world as a verif/world World. Contents that embed refs (mentions,
// merge sets) are computed from refs, the refs found by the previous pass.
func toWorld(sw *SWorld, refs map[int]string, own map[int]string) *world.World {
	ref := func(id int) string {
		if r, ok := refs[id]; ok {
			return r
		}
		return fmt.Sprintf("sha224-%056x", id) // first pass: a distinct placeholder per item
	}
	w := &world.World{}
	for _, it := range sw.Items {
		wi := world.Item{ID: it.ID, Kind: it.Kind, Date: 10 * it.ID}
		var ment []string
		for _, m := range it.Mention {
			ment = append(ment, ref(m))
		}
		switch it.Kind {
		case "key":
			wi.Signer = 1
		case "permanode":
			wi.Signer = 1
			wi.Data = "c17"
		case "claim":
			wi.Signer = 1
			wi.Claim = "set"
			wi.PN = it.Target
			wi.Attr = "camliContent"
			if len(it.Mention) > 0 {
				wi.ValRef = it.Mention[0]
			}
		case "share":
			if it.Search {
				// verif/world has no search shares: build and sign the claim ourselves (once)
				if _, ok := own[it.ID]; !ok {
					own[it.ID] = searchShare(it)
				}
				wi.Kind = "chunk"
				wi.Data = own[it.ID]
				break
			}
			wi.Signer = 1
			wi.Target = it.Target
			wi.Transitive = it.Transitive
			wi.Expires = it.Expires
		case "delete":
			wi.Signer = 1
			wi.Target = it.Target
		case "chunk":
			wi.Data = chunkData(it.ID)
			if len(ment) > 0 {
				wi.Data += " see " + strings.Join(ment, " ")
			}
		case "file", "bytes":
			wi.Parts = it.Parts
			wi.Name = fmt.Sprintf("f%d.txt", it.ID)
			if len(ment) > 0 {
				wi.Data = "see " + strings.Join(ment, " ")
			}
		case "staticset":
			if len(it.Merge) == 0 && len(ment) == 0 {
				wi.Children = it.Children
			} else {
				// verif/world has no mergeSets: write the static-set JSON ourselves
				ms, gs := []string{}, []string{}
				for _, c := range it.Children {
					ms = append(ms, ref(c))
				}
				for _, c := range it.Merge {
					gs = append(gs, ref(c))
				}
				doc := map[string]any{"camliVersion": 1, "camliType": "static-set", "members": ms, "mergeSets": gs}
				if len(ment) > 0 {
					doc["parts"] = strayParts(ment) // a link field of ANOTHER blob type: not a link of a static set
				}
				j, _ := json.MarshalIndent(doc, "", " ")
				wi.Kind = "chunk"
				wi.Data = string(j)
			}
		case "dir":
			wi.Children = it.Children
			wi.Name = fmt.Sprintf("d%d", it.ID)
			if len(ment) > 0 && len(it.Children) > 0 {
				// a directory that also carries a "parts" array (the link field of file/bytes blobs) naming the
				// mentioned refs: for a directory that is not a link
				j, _ := json.MarshalIndent(map[string]any{"camliVersion": 1, "camliType": "directory", "fileName": wi.Name,
					"entries": ref(it.Children[0]), "parts": strayParts(ment)}, "", " ")
				wi.Kind = "chunk"
				wi.Data = string(j)
			}
		default:
			fatal("unknown item kind", it.Kind)
		}
		w.Items = append(w.Items, wi)
	}
	w.Normalize()
	return w
}

func strayParts(refs []string) []map[string]any {
	ps := []map[string]any{}
	for _, r := range refs {
		ps = append(ps, map[string]any{"blobRef": r, "size": 1})
	}
	return ps
}

// buildWorld iterates world.Build until the refs embedded in contents are the refs of the
// blobs they name (acyclic: at most depth+1 passes).
func buildWorld(sw *SWorld, s *world.Signers) *world.Built {
	refs := map[int]string{}
	own := map[int]string{}
	for pass := 0; pass < 12; pass++ {
		b, err := world.Build(toWorld(sw, refs, own), s)
		if err != nil {
			j, _ := json.Marshal(sw.Items)
			fatal("building world", sw.Name, err, string(j))
		}
		same := len(refs) == len(b.Refs)
		for id, r := range b.Refs {
			if refs[id] != r.String() {
				same = false
			}
			refs[id] = r.String()
		}
		if same {
			return b
		}
	}
	fatal("world", sw.Name, "does not reach a fixpoint (non-deterministic signing or a reference cycle)")
	return nil
}

// ownSigner signs the claims verif/world cannot build, with the same identity as signer 1.
var ownSigner struct {
	ent    *openpgp.Entity
	pubRef blob.Ref
	pubArm string
}

type entFetcher struct{ e *openpgp.Entity }

func (f entFetcher) FetchEntity(string) (*openpgp.Entity, error) { return f.e, nil }

type keyFetcher struct {
	br  blob.Ref
	arm string
}

func (k keyFetcher) Fetch(ctx context.Context, br blob.Ref) (io.ReadCloser, uint32, error) {
	if br != k.br {
		return nil, 0, os.ErrNotExist
	}
	return io.NopCloser(strings.NewReader(k.arm)), uint32(len(k.arm)), nil
}

// searchShare is what `pk-put share -search=...` writes: a share claim with "search" and no "target".
func searchShare(it SItem) string {
	bb := schema.NewShareRef(schema.ShareHaveRef, it.Transitive)
	bb.SetShareSearch(map[string]any{"constraint": map[string]any{"camliType": "file"}})
	if it.Expires != 0 {
		bb.SetShareExpiration(world.Epoch.Add(time.Duration(it.Expires) * time.Second))
	}
	t := world.Epoch.Add(time.Duration(10*it.ID) * time.Second)
	bb.SetClaimDate(t)
	bb.SetSigner(ownSigner.pubRef)
	unsigned, err := bb.JSON()
	if err != nil {
		fatal("search share:", err)
	}
	sr := &jsonsign.SignRequest{
		UnsignedJSON:  unsigned,
		Fetcher:       keyFetcher{ownSigner.pubRef, ownSigner.pubArm},
		EntityFetcher: entFetcher{ownSigner.ent},
		SignatureTime: t.Add(time.Duration(it.ID) * time.Second),
	}
	signed, err := sr.Sign(context.Background())
	if err != nil {
		fatal("signing search share:", err)
	}
	return signed
}

// denote is the harness's own model of a file's / bytes tree's contents.
func denote(sw *SWorld, id int) ([]byte, bool) {
	it := sw.Items[id-1]
	switch it.Kind {
	case "chunk":
		if !it.Stored || len(it.Mention) > 0 {
			return nil, false
		}
		return []byte(chunkData(id)), true
	case "file", "bytes":
		if !it.Stored {
			return nil, false
		}
		var out []byte
		for _, p := range it.Parts {
			sub, ok := denote(sw, p.Ref)
			if !ok || p.Off+p.Size > len(sub) {
				return nil, false
			}
			out = append(out, sub[p.Off:p.Off+p.Size]...)
		}
		return out, true
	}
	return nil, false
}

type shareLoader struct {
	sto blobserver.Storage
	ix  any
}

func (l *shareLoader) FindHandlerByType(string) (string, any, error) {
	return "", nil, blobserver.ErrHandlerTypeNotFound
}
func (l *shareLoader) AllHandlers() (map[string]string, map[string]any) { return nil, nil }
func (l *shareLoader) MyPrefix() string                                 { return "/share/" }
func (l *shareLoader) BaseURL() string                                  { return "http://verif.invalid" }
func (l *shareLoader) GetHandlerType(p string) string {
	switch p {
	case "/bs/":
		return "storage-memory"
	case "/index/":
		return "storage-index"
	}
	return ""
}
func (l *shareLoader) GetHandler(p string) (any, error) {
	switch p {
	case "/bs/":
		return l.sto, nil
	case "/index/":
		return l.ix, nil
	}
	return nil, fmt.Errorf("no handler %q", p)
}
func (l *shareLoader) GetStorage(p string) (blobserver.Storage, error) {
	if p == "/bs/" {
		return l.sto, nil
	}
	return nil, fmt.Errorf("no storage %q", p)
}

func refOf(b *world.Built, id int) string {
	if id == 0 {
		return "notaref"
	}
	return b.Refs[id].String()
}

func runShare(tw *traceWriter, secring, in string, random, rreq int, seed int64, states string) {
	server.VerifSetShareFailureSleep(func(time.Duration) {})
	signers, err := world.LoadSigners(secring)
	if err != nil {
		fatal(err)
	}
	ownSigner.ent, err = jsonsign.EntityFromSecring("26F5ABDA", secring)
	if err != nil {
		fatal(err)
	}
	ownSigner.pubRef, ownSigner.pubArm = signers.PubRef[1], signers.PubArm[1]
	var inp shareInput
	if random > 0 {
		rng := rand.New(rand.NewSource(seed))
		for i := 0; i < random; i++ {
			sw := randomWorld(rng, fmt.Sprintf("rnd-%d-%d", seed, i))
			inp.Worlds = append(inp.Worlds, sw)
			for k := 0; k < rreq; k++ {
				inp.Reqs = append(inp.Reqs, randomReq(rng, &sw, i+1))
			}
		}
	} else {
		data, err := os.ReadFile(in)
		if err != nil {
			fatal(err)
		}
		if err := json.Unmarshal(data, &inp); err != nil {
			fatal("bad input:", err)
		}
	}
	now := int(time.Since(world.Epoch).Seconds())
	byWorld := map[int][]SReq{}
	for _, r := range inp.Reqs {
		byWorld[r.W] = append(byWorld[r.W], r)
	}
	for wi := range inp.Worlds {
		sw := &inp.Worlds[wi]
		for i := range sw.Items {
			it := &sw.Items[i]
			if it.ID != i+1 {
				fatal("world", sw.Name, "item ids must be 1..n in order")
			}
			if it.Parts == nil {
				it.Parts = []world.Part{}
			}
			if it.Children == nil {
				it.Children = []int{}
			}
			if it.Merge == nil {
				it.Merge = []int{}
			}
			if it.Mention == nil {
				it.Mention = []int{}
			}
		}
		built := buildWorld(sw, signers)
		for _, state := range strings.Split(states, ",") {
			env, err := idx.NewMem(false)
			if err != nil {
				fatal(err)
			}
			if state == "grown" || state == "regrown" {
				runGrown(tw, sw, built, env, now, byWorld[wi+1], state == "regrown")
				continue
			}
			for _, it := range sw.Items {
				if !it.Stored {
					continue
				}
				if err := env.Deliver(built, it.ID); err != nil {
					fatal("delivering item", it.ID, "of", sw.Name, err)
				}
			}
			env.Await()
			switch state {
			case "live":
			case "reopened":
				env, err = env.Reopen(false)
				if err != nil {
					fatal(err)
				}
			default:
				fatal("unknown state", state)
			}
			h, err := blobserver.CreateHandler("share", &shareLoader{sto: env.Src, ix: env.Ix},
				jsonconfig.Obj{"blobRoot": "/bs/", "index": "/index/"})
			if err != nil {
				fatal("CreateHandler(share):", err)
			}
			refs := make([]string, len(sw.Items))
			for i := range sw.Items {
				refs[i] = built.Refs[i+1].String()
			}
			tw.emit(map[string]any{"ev": "world", "name": sw.Name, "state": state, "now": now, "items": sw.Items, "refs": refs})
			for _, r := range byWorld[wi+1] {
				tw.emit(doShareReq(h, sw, built, r))
			}
		}
	}
}

// runGrown: the store grows under ONE running handler. The delete claims (deletions of shares, deletions of those
// deletions) arrive one by one AFTER the handler has already answered the world's requests; after every arrival the
// same requests are asked again. Each phase is logged as a world of its own (the late items not yet stored), so the
// specification judges every answer against the store as it was at that moment.
//
// reopenEach ("regrown"): the index is additionally closed and re-opened on the same rows (a new handler on top)
// BEFORE every late arrival, so each delete claim lands on an index whose deletes cache was loaded from rows and
// is then updated incrementally.
func runGrown(tw *traceWriter, sw *SWorld, built *world.Built, env *idx.Env, now int, reqs []SReq, reopenEach bool) {
	var late []int
	for _, it := range sw.Items {
		if it.Stored && it.Kind == "delete" {
			late = append(late, it.ID)
		}
	}
	if len(late) == 0 {
		return
	}
	isLate := map[int]bool{}
	for _, id := range late {
		isLate[id] = true
	}
	for _, it := range sw.Items {
		if it.Stored && !isLate[it.ID] {
			if err := env.Deliver(built, it.ID); err != nil {
				fatal("delivering item", it.ID, "of", sw.Name, err)
			}
		}
	}
	env.Await()
	h, err := blobserver.CreateHandler("share", &shareLoader{sto: env.Src, ix: env.Ix},
		jsonconfig.Obj{"blobRoot": "/bs/", "index": "/index/"})
	if err != nil {
		fatal("CreateHandler(share):", err)
	}
	refs := make([]string, len(sw.Items))
	for i := range sw.Items {
		refs[i] = built.Refs[i+1].String()
	}
	for phase := 0; phase <= len(late); phase++ {
		if phase > 0 {
			if reopenEach {
				if env, err = env.Reopen(false); err != nil {
					fatal(err)
				}
				h, err = blobserver.CreateHandler("share", &shareLoader{sto: env.Src, ix: env.Ix},
					jsonconfig.Obj{"blobRoot": "/bs/", "index": "/index/"})
				if err != nil {
					fatal("CreateHandler(share):", err)
				}
			}
			if err := env.Deliver(built, late[phase-1]); err != nil {
				fatal("delivering late item", late[phase-1], "of", sw.Name, err)
			}
			env.Await()
		}
		items := append([]SItem(nil), sw.Items...)
		for _, id := range late[phase:] {
			items[id-1].Stored = false
		}
		view := &SWorld{Name: sw.Name, Items: items}
		tw.emit(map[string]any{"ev": "world", "name": sw.Name, "state": "live", "phase": phase, "regrown": reopenEach, "now": now, "items": items, "refs": refs})
		for _, r := range reqs {
			ev := doShareReq(h, view, built, r)
			if phase < len(late) {
				ev["gen"] = false // the generator's expectation is about the complete world
			}
			tw.emit(ev)
		}
	}
}

func doShareReq(h http.Handler, sw *SWorld, built *world.Built, r SReq) map[string]any {
	if len(r.Chain) == 0 {
		fatal("empty chain")
	}
	last := r.Chain[len(r.Chain)-1]
	u := "/" + refOf(built, last)
	var q []string
	if len(r.Chain) > 1 {
		var via []string
		for _, id := range r.Chain[:len(r.Chain)-1] {
			via = append(via, refOf(built, id))
		}
		q = append(q, "via="+strings.Join(via, ","))
	}
	if r.Asm {
		q = append(q, "assemble=1")
	}
	if len(q) > 0 {
		u += "?" + strings.Join(q, "&")
	}
	req := httptest.NewRequest(r.Method, u, nil)
	rec := httptest.NewRecorder()
	h.ServeHTTP(rec, req)
	body := rec.Body.Bytes()
	cls := ""
	switch rec.Code {
	case 200:
		var want []byte
		if last != 0 {
			want = built.Blobs[last]
		}
		var asm []byte
		asmOK := false
		if r.Asm && last != 0 && sw.Items[last-1].Kind == "file" {
			asm, asmOK = denote(sw, last) // "contents of a file" is defined for files only
		}
		switch {
		case r.Method == "HEAD":
			cl := rec.Header().Get("Content-Length")
			switch {
			case len(body) != 0:
				cls = "head-body"
			case r.Asm && asmOK && cl == fmt.Sprint(len(asm)):
				cls = "head-ok"
			case !r.Asm && want != nil && cl == fmt.Sprint(len(want)):
				cls = "head-ok"
			case cl == "0":
				cls = "head-empty"
			default:
				cls = "head-wrong"
			}
		case r.Asm && asmOK && bytes.Equal(body, asm):
			cls = "asm-exact"
		case want != nil && bytes.Equal(body, want):
			cls = "exact"
		case len(body) == 0:
			cls = "empty"
		default:
			cls = "wrong-bytes"
			for id, bb := range built.Blobs {
				if id != last && bytes.Equal(body, bb) {
					cls = "other-blob"
				}
			}
		}
	case 400, 401, 403, 404, 405:
		cls = fmt.Sprint(rec.Code)
	default:
		cls = "other"
		if rec.Code/100 == 5 {
			cls = "5xx"
		}
	}
	return map[string]any{"ev": "req", "chain": r.Chain, "method": r.Method, "asm": r.Asm, "cls": cls, "gen": r.Gen, "gserved": r.GServed}
}

// ---------------------------------------------------------------- seeded random worlds

func randomWorld(rng *rand.Rand, name string) SWorld {
	n := 7 + rng.Intn(5)
	sw := SWorld{Name: name}
	seen := map[string]bool{}
	add := func(it SItem) {
		if it.Kind == "bytes" || it.Kind == "staticset" {
			// identical content would be the same blob twice
			sig := fmt.Sprint(it.Kind, it.Parts, it.Children, it.Merge, it.Mention)
			if seen[sig] {
				return
			}
			seen[sig] = true
		}
		it.ID = len(sw.Items) + 1
		it.Stored = it.Kind == "key" || rng.Intn(10) != 0
		sw.Items = append(sw.Items, it)
	}
	ofKind := func(kinds ...string) []int {
		var out []int
		for _, it := range sw.Items {
			for _, k := range kinds {
				if it.Kind == k {
					out = append(out, it.ID)
				}
			}
		}
		return out
	}
	pick := func(ids []int) int { return ids[rng.Intn(len(ids))] }
	add(SItem{Kind: "key"})
	add(SItem{Kind: "chunk"})
	for len(sw.Items) < n {
		any := ofKind("permanode", "claim", "share", "delete", "chunk", "file", "bytes", "staticset", "dir")
		switch k := rng.Intn(12); {
		case k == 0:
			it := SItem{Kind: "chunk"}
			if rng.Intn(2) == 0 {
				it.Mention = []int{pick(any)}
			}
			add(it)
		case k == 1:
			var parts []world.Part
			for _, c := range ofKind("chunk") {
				if len(sw.Items[c-1].Mention) == 0 && rng.Intn(2) == 0 {
					parts = append(parts, world.Part{Kind: "blob", Ref: c, Size: chunkLen})
				}
			}
			add(SItem{Kind: "bytes", Parts: parts})
		case k == 2 || k == 3:
			var parts []world.Part
			for _, c := range ofKind("chunk", "bytes") {
				ci := sw.Items[c-1]
				if rng.Intn(2) == 0 {
					continue
				}
				if ci.Kind == "chunk" && len(ci.Mention) == 0 {
					parts = append(parts, world.Part{Kind: "blob", Ref: c, Size: chunkLen})
				} else if ci.Kind == "bytes" {
					parts = append(parts, world.Part{Kind: "bytes", Ref: c, Size: chunkLen * len(ci.Parts)})
				}
			}
			it := SItem{Kind: "file", Parts: parts}
			if rng.Intn(3) == 0 {
				it.Mention = []int{pick(any)}
			}
			add(it)
		case k == 4 || k == 5:
			it := SItem{Kind: "staticset"}
			for _, c := range ofKind("file", "dir", "chunk") {
				if rng.Intn(2) == 0 {
					it.Children = append(it.Children, c)
				}
			}
			for _, c := range ofKind("staticset") {
				if rng.Intn(2) == 0 {
					it.Merge = append(it.Merge, c)
				}
			}
			if rng.Intn(3) == 0 {
				it.Mention = []int{pick(any)}
			}
			add(it)
		case k == 6:
			if ss := ofKind("staticset"); len(ss) > 0 {
				it := SItem{Kind: "dir", Children: []int{pick(ss)}}
				if rng.Intn(2) == 0 {
					it.Mention = []int{pick(any)}
				}
				add(it)
			}
		case k == 7 || k == 8 || k == 9:
			it := SItem{Kind: "share", Target: pick(any), Transitive: rng.Intn(3) != 0}
			if rng.Intn(4) == 0 {
				it.Target, it.Search = 0, true
			}
			switch rng.Intn(5) {
			case 0:
				it.Expires = 100 + rng.Intn(1000) // long ago
			case 1:
				it.Expires = 1000000000 + rng.Intn(1000) // 2043
			}
			add(it)
		case k == 10:
			if cs := ofKind("share", "delete"); len(cs) > 0 {
				add(SItem{Kind: "delete", Target: pick(cs)})
			}
		case k == 11:
			if pn := ofKind("permanode"); len(pn) > 0 && rng.Intn(2) == 0 {
				add(SItem{Kind: "claim", Target: pick(pn), Mention: []int{pick(any)}})
			} else {
				add(SItem{Kind: "permanode"})
			}
		}
	}
	return sw
}

func linksOf(it SItem) []int {
	var out []int
	for _, p := range it.Parts {
		out = append(out, p.Ref)
	}
	out = append(out, it.Children...)
	out = append(out, it.Merge...)
	return out
}

// randomReq walks mostly along targets and links (so that valid chains are frequent), with
// random deviations; it does not know which chains are valid.
func randomReq(rng *rand.Rand, sw *SWorld, w int) SReq {
	n := len(sw.Items)
	anyID := func() int {
		if rng.Intn(40) == 0 {
			return 0 // malformed ref
		}
		return 1 + rng.Intn(n)
	}
	var shares []int
	for _, it := range sw.Items {
		if it.Kind == "share" {
			shares = append(shares, it.ID)
		}
	}
	var ch []int
	if len(shares) > 0 && rng.Intn(6) != 0 {
		ch = append(ch, shares[rng.Intn(len(shares))])
	} else {
		ch = append(ch, anyID())
	}
	for len(ch) < 6 && rng.Intn(4) != 0 {
		cur := ch[len(ch)-1]
		next := anyID()
		if cur != 0 && rng.Intn(5) != 0 {
			it := sw.Items[cur-1]
			if len(ch) == 1 && it.Kind == "share" && it.Target != 0 {
				next = it.Target
			} else if len(it.Mention) > 0 && rng.Intn(3) == 0 {
				next = it.Mention[0]
			} else if ls := linksOf(it); len(ls) > 0 {
				next = ls[rng.Intn(len(ls))]
			} else if len(it.Mention) > 0 && rng.Intn(2) == 0 {
				next = it.Mention[0]
			}
		}
		ch = append(ch, next)
	}
	r := SReq{W: w, Chain: ch, Method: "GET"}
	switch rng.Intn(12) {
	case 0:
		r.Method = "HEAD"
	case 1:
		r.Method = []string{"POST", "PUT", "DELETE"}[rng.Intn(3)]
	}
	r.Asm = rng.Intn(8) == 0
	return r
}
