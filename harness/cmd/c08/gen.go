//go:build verif

package main

import (
	"math/rand"
)

// gen builds random constraint trees over a world: deeper and wider than the TLC
// grammar, with compound permanode / file / dir constraints. It only chooses
// inputs; expected answers are computed by Trace_Search.tla.
type gen struct {
	rng     *rand.Rand
	wf      *WorldFile
	tr      []Node
	classic bool // restrict to the fragment the handler implements without a corpus
	vids    []int
	refVids []int
	// refAttrs: attributes some claim gives an item reference as value (valueInSet is only meaningful there)
	refAttrs []string
}

func newGen(rng *rand.Rand, wf *WorldFile, classic bool) *gen {
	g := &gen{rng: rng, wf: wf, classic: classic}
	for i := range wf.Values {
		g.vids = append(g.vids, i+1)
	}
	seen := map[int]bool{}
	for _, it := range wf.Items {
		if it.Kind == "claim" && it.ValRef != 0 && !seen[it.ValRef] {
			seen[it.ValRef] = true
			g.refVids = append(g.refVids, RefVidBase+it.ValRef)
		}
	}
	seenA := map[string]bool{}
	for _, it := range wf.Items {
		if it.Kind == "claim" && it.ValRef != 0 && !seenA[it.Attr] {
			seenA[it.Attr] = true
			g.refAttrs = append(g.refAttrs, it.Attr)
		}
	}
	return g
}

func (g *gen) pick(n int) int { return g.rng.Intn(n) }
func (g *gen) chance(k int) bool {
	return g.rng.Intn(k) == 0
}

func (g *gen) alloc() int {
	g.tr = append(g.tr, Node{})
	return len(g.tr)
}

func (g *gen) time() int {
	if len(g.wf.Times) == 0 {
		return 0
	}
	return g.wf.Times[g.pick(len(g.wf.Times))]
}

func (g *gen) query() Query {
	g.tr = nil
	orderFamily := false
	switch g.pick(8) {
	case 7:
		// broad permanode-only constraints (many results): what is under test is the ORDER and the limit
		i := g.alloc()
		orderFamily = true
		switch g.pick(6) {
		case 0:
			g.tr[i-1] = Node{K: "type", S: "permanode"}
		case 1, 4, 5:
			if v := g.wf.lookupValue("a"); v != 0 {
				g.tr[i-1] = Node{K: "pn", S: "tag", V: v}
			} else {
				g.tr[i-1] = Node{K: "pn"}
			}
		case 2:
			g.tr[i-1] = Node{K: "pn"}
		default:
			n := Node{K: "or"}
			n.A = g.pnish()
			n.B = g.pnish()
			g.tr[i-1] = n
		}
	case 6:
		if g.classic {
			g.constraint(2+g.pick(3), false)
			break
		}
		g.relationFamily()
	case 5:
		if !g.classic && g.chance(2) {
			g.parentDirFamily()
			break
		}
		g.nodeTypeFamily()
	case 4:
		if len(g.refAttrs) == 0 || g.classic {
			g.constraint(2+g.pick(3), false)
			break
		}
		g.inSetFamily()
	case 0:
		// and(permanode-ish, X) / and(X, permanode-ish): the shapes the planner restricts sources for
		i := g.alloc()
		n := Node{K: "and"}
		if g.chance(2) {
			n.A = g.pnish()
			n.B = g.constraint(1+g.pick(3), false)
		} else {
			n.A = g.constraint(1+g.pick(3), false)
			n.B = g.pnish()
		}
		g.tr[i-1] = n
	case 1:
		g.pnish()
	default:
		g.constraint(2+g.pick(3), false)
	}
	sorts := []string{"unsorted", "blobref", "created", "lastmod", "unspecified", "createdAsc", "blobref", "created", "lastmodAsc", "createdAsc", "createdAsc"}
	if g.classic {
		sorts = []string{"unsorted", "blobref", "blobref", "unspecified"}
	}
	q := Query{Tree: g.tr, Sort: sorts[g.pick(len(sorts))]}
	if orderFamily && !g.classic && g.chance(2) {
		q.Sort = []string{"createdAsc", "createdAsc", "created", "lastmod"}[g.pick(4)]
	}
	if g.chance(2) {
		q.Limit = 1 + g.pick(5)
	}
	return q
}

// parentDirFamily: several DIFFERENT parentDir constraints in one tree (on files and on directories, side by side
// under a logical operator, or nested: parent of the parent), so that one directory is judged as a parent by different
// constraints within one search.
func (g *gen) parentDirFamily() {
	simpleDir := func() int {
		j := g.alloc()
		n := Node{K: "dir"}
		switch g.pick(4) {
		case 0:
			n.SP = 1 + g.pick(len(g.wf.SPreds))
		case 1:
			n.Lo = 1 + g.pick(3)
		case 2:
			n.Hi = 1 + g.pick(3)
		}
		g.tr[j-1] = n
		return j
	}
	child := func(parent int) int {
		j := g.alloc()
		n := Node{K: []string{"file", "dir"}[g.pick(2)], A: parent}
		g.tr[j-1] = n
		return j
	}
	i := g.alloc()
	n := Node{K: []string{"and", "or", "or", "xor"}[g.pick(4)]}
	if g.chance(3) {
		// nested: the parent's parent, beside a plain parent constraint
		n.A = child(func() int {
			j := g.alloc()
			g.tr[j-1] = Node{K: "dir", A: simpleDir()}
			return j
		}())
	} else {
		n.A = child(simpleDir())
	}
	if g.chance(3) {
		j := g.alloc()
		g.tr[j-1] = Node{K: "not", A: child(simpleDir())}
		n.B = j
	} else {
		n.B = child(simpleDir())
	}
	g.tr[i-1] = n
}

// inSetFamily: several valueInSet sub-queries in one tree over the same reference attribute, side by side under a
// logical operator or nested in each other, so that one referenced blob is judged by different sub-queries within
// one search.
func (g *gen) inSetFamily() {
	attr := g.refAttrs[g.pick(len(g.refAttrs))]
	inset := func(sub func() int) int {
		i := g.alloc()
		n := Node{K: "pn", S: attr}
		n.A = sub()
		if g.chance(4) {
			n.All = true
		}
		g.tr[i-1] = n
		return i
	}
	leaf := func() int { return g.constraint(g.pick(2), false) }
	if g.chance(3) {
		// nested: attr in { attr in { sub } }, beside attr in { sub' }
		i := g.alloc()
		n := Node{K: []string{"and", "or", "xor"}[g.pick(3)]}
		n.A = inset(func() int { return inset(leaf) })
		n.B = inset(leaf)
		g.tr[i-1] = n
		return
	}
	i := g.alloc()
	n := Node{K: []string{"and", "and", "or", "xor"}[g.pick(4)]}
	n.A = inset(leaf)
	if g.chance(3) {
		j := g.alloc()
		n.B = j
		g.tr[j-1] = Node{K: "not", A: inset(leaf)}
	} else {
		n.B = inset(leaf)
	}
	g.tr[i-1] = n
}

// relationFamily: parent / child relation constraints with every edge filter, any / all, over simple sub-constraints
// (so that the relatives they select are few and specific), alone or under a logical operator.
func (g *gen) relationFamily() {
	rel := func() int {
		i := g.alloc()
		n := Node{K: "pn"}
		n.Rel = []string{"parent", "child"}[g.pick(2)]
		n.RelAny = !g.chance(3)
		n.Edge = []string{"", "", "camliMember", "camliPath:x", "tag"}[g.pick(5)]
		if g.chance(2) {
			n.B = g.pnish()
		} else {
			n.B = g.constraint(g.pick(2), false)
		}
		g.tr[i-1] = n
		return i
	}
	switch g.pick(3) {
	case 0:
		rel()
	case 1:
		i := g.alloc()
		n := Node{K: []string{"and", "or", "xor"}[g.pick(3)]}
		n.A = rel()
		n.B = rel()
		g.tr[i-1] = n
	default:
		i := g.alloc()
		n := Node{K: "and"}
		n.A = g.pnish()
		n.B = rel()
		g.tr[i-1] = n
	}
}

// nodeTypeFamily: permanode-only trees in which camliNodeType atoms sit under every logical operator (and, or, xor,
// not, nested): the planner derives the "typed permanode" candidate source from them (matchesPermanodeTypes), and
// only and / or may contribute types.
func (g *gen) nodeTypeFamily() {
	nodeType := func() int {
		i := g.alloc()
		vals := []string{"foo", "bar", "foo", "nosuchtype"}
		v := g.wf.lookupValue(vals[g.pick(len(vals))])
		if v == 0 && len(g.vids) > 0 {
			v = g.vids[g.pick(len(g.vids))]
		}
		g.tr[i-1] = Node{K: "pn", S: "camliNodeType", V: v}
		return i
	}
	var sub func(depth int) int
	sub = func(depth int) int {
		if depth == 0 || g.chance(3) {
			if g.chance(3) {
				return g.pnish()
			}
			return nodeType()
		}
		i := g.alloc()
		n := Node{K: []string{"not", "xor", "or", "and", "not", "xor"}[g.pick(6)]}
		n.A = sub(depth - 1)
		if n.K != "not" {
			n.B = sub(depth - 1)
		}
		g.tr[i-1] = n
		return i
	}
	i := g.alloc()
	n := Node{K: "and"}
	if g.chance(2) {
		n.A = g.pnish()
		n.B = sub(1 + g.pick(2))
	} else {
		n.A = sub(1 + g.pick(2))
		n.B = g.pnish()
	}
	g.tr[i-1] = n
}

// pnish generates a constraint that onlyMatchesPermanode accepts.
func (g *gen) pnish() int {
	i := g.alloc()
	switch g.pick(5) {
	case 0:
		g.tr[i-1] = Node{K: "type", S: "permanode"}
	case 1:
		if v := g.wf.lookupValue([]string{"foo", "bar"}[g.pick(2)]); v != 0 {
			g.tr[i-1] = Node{K: "pn", S: "camliNodeType", V: v}
		} else {
			g.pnNode(i, 1)
		}
	default:
		g.pnNode(i, 1)
	}
	return i
}

// constraint generates a constraint at a fresh index and returns it. fd = must be a
// file / dir / logical-of-those constraint (operand of dir.contains).
func (g *gen) constraint(depth int, fd bool) int {
	i := g.alloc()
	if depth > 0 && !g.chance(3) {
		ops := []string{"and", "and", "or", "or", "xor", "not"}
		op := ops[g.pick(len(ops))]
		n := Node{K: op}
		n.A = g.constraint(depth-1, fd)
		if op != "not" {
			n.B = g.constraint(depth-1, fd)
		}
		g.tr[i-1] = n
		return i
	}
	if fd {
		if g.chance(2) {
			g.fileNode(i, depth)
		} else {
			g.dirNode(i, depth)
		}
		return i
	}
	switch g.pick(14) {
	case 0:
		g.tr[i-1] = Node{K: "any"}
	case 1:
		types := []string{"permanode", "permanode", "file", "directory", "claim", "static-set", "bytes"}
		g.tr[i-1] = Node{K: "type", S: types[g.pick(len(types))]}
	case 2:
		g.tr[i-1] = Node{K: "anytype"}
	case 3:
		g.tr[i-1] = Node{K: "prefix", P: 1 + g.pick(len(g.wf.Prefixes))}
	case 4:
		n := Node{K: "size"}
		sizes := []int{1, 11, 100, 300, 600, 700, 750}
		if g.chance(2) {
			n.Lo = sizes[g.pick(len(sizes))]
		}
		if n.Lo == 0 || g.chance(2) {
			n.Hi = sizes[g.pick(len(sizes))]
			if n.Lo > n.Hi {
				n.Lo, n.Hi = n.Hi, n.Lo
			}
		}
		g.tr[i-1] = n
	case 5:
		g.fileNode(i, depth)
	case 6:
		g.dirNode(i, depth)
	default:
		g.pnNode(i, depth)
	}
	return i
}

func (g *gen) pnNode(i, depth int) {
	n := Node{K: "pn"}
	if !g.chance(5) && len(g.wf.Attrs) > 0 {
		n.S = g.wf.Attrs[g.pick(len(g.wf.Attrs))]
		if g.chance(8) {
			n.S = "nosuchattr"
		}
		hasVC := false
		switch g.pick(7) {
		case 0, 1, 2:
			if g.chance(4) && len(g.refVids) > 0 {
				n.V = g.refVids[g.pick(len(g.refVids))]
			} else if len(g.vids) > 0 {
				n.V = g.vids[g.pick(len(g.vids))]
			}
			hasVC = n.V != 0
		case 3:
			n.SP = 1 + g.pick(len(g.wf.SPreds))
			hasVC = true
		case 4:
			n.IP = 1 + g.pick(len(g.wf.IPreds))
			hasVC = true
		case 5:
			if depth > 0 {
				n.A = g.constraint(depth-1, false)
				hasVC = true
			}
		}
		if hasVC && g.chance(4) && n.SP == 0 {
			n.SP = 1 + g.pick(len(g.wf.SPreds)) // two value constraints at once
		}
		if hasVC && g.chance(3) {
			n.All = true
		}
		if !hasVC || g.chance(4) {
			switch g.pick(4) {
			case 0:
				n.Lo = 1 + g.pick(2)
			case 1:
				n.Hi = 1 + g.pick(2)
			case 2:
				n.Lo = 1
				n.Hi = 1 + g.pick(2)
			case 3:
				if hasVC {
					n.Lo = 1
				} else {
					n.ZMax = true // no value at all
				}
			}
		}
	}
	if !g.classic && g.chance(4) {
		n.HasAt = true
		n.At = g.time()
	}
	if !g.classic && g.chance(6) {
		n.Hid = true
	}
	if !g.classic && g.chance(6) {
		if g.chance(2) {
			n.HasMtb, n.Mtb = true, g.time()
		} else {
			n.HasMta, n.Mta = true, g.time()
		}
		if g.chance(4) {
			n.HasMtb, n.Mtb, n.HasMta, n.Mta = true, g.time(), true, g.time()
		}
	}
	if !g.classic && g.chance(6) {
		if g.chance(2) {
			n.HasTb, n.Tb = true, g.time()
		} else {
			n.HasTa, n.Ta = true, g.time()
		}
	}
	if !g.classic && depth > 0 && g.chance(4) {
		n.Rel = []string{"parent", "child"}[g.pick(2)]
		n.RelAny = !g.chance(3)
		if g.chance(4) {
			n.Edge = []string{"camliMember", "camliPath:x", "tag"}[g.pick(3)]
		}
		n.B = g.constraint(depth-1, false)
	}
	g.tr[i-1] = n
}

func (g *gen) fileNode(i, depth int) {
	n := Node{K: "file"}
	if g.chance(2) {
		n.SP = 1 + g.pick(len(g.wf.SPreds))
	}
	if g.chance(3) {
		n.MP = 1 + g.pick(len(g.wf.SPreds))
	}
	if g.chance(3) {
		sizes := []int{1, 10, 11, 15, 25, 30}
		n.Lo = sizes[g.pick(len(sizes))]
		if g.chance(2) {
			n.Hi = n.Lo + g.pick(20)
		}
	}
	if !g.classic && g.chance(5) {
		n.Wh = 1 + g.pick(len(g.wf.Wholes))
	}
	if !g.classic && depth > 0 && g.chance(4) {
		n.A = g.dirOnly(depth - 1)
	}
	g.tr[i-1] = n
}

func (g *gen) dirOnly(depth int) int {
	i := g.alloc()
	g.dirNode(i, depth)
	return i
}

func (g *gen) dirNode(i, depth int) {
	n := Node{K: "dir"}
	if g.chance(3) {
		n.SP = 1 + g.pick(len(g.wf.SPreds))
	}
	if g.chance(8) {
		n.P = 1 + g.pick(len(g.wf.Prefixes))
	}
	if g.chance(3) {
		switch g.pick(3) {
		case 0:
			n.Lo = 1 + g.pick(3)
		case 1:
			n.Hi = 1 + g.pick(3)
		case 2:
			n.ZMax = true
		}
	}
	if !g.classic && depth > 0 && g.chance(5) {
		n.A = g.dirOnly(depth - 1)
	}
	if depth > 0 && g.chance(2) {
		n.Rec = g.chance(2)
		if g.chance(5) {
			j := g.alloc()
			g.tr[j-1] = Node{K: "prefix", P: 1 + g.pick(len(g.wf.Prefixes))}
			n.B = j
		} else {
			n.B = g.constraint(depth-1, true)
		}
	}
	g.tr[i-1] = n
}
