//go:build verif

package main

import (
	"encoding/json"
	"fmt"
	"math/rand"
	"path/filepath"
	"sort"
	"strings"

	"perkeep.org/pkg/blob"

	"verif/world"
)

// wb builds an abstract world. Items are appended in creation order (every
// reference points to an earlier item), ids are 1..n.
type wb struct {
	w     world.World
	vals  map[string]int
	attrs map[string]bool
	used  map[[2]int]bool // (permanode, date): claim dates are distinct per permanode (no tie within one permanode)
	seen  map[string]bool // (permanode, attr, value) already set / added once
	norep bool            // skip claims that would repeat a value (the describe path de-duplicates them: C07's business)
	reps  bool
	memo  map[string]int
}

func newWB() *wb {
	return &wb{vals: map[string]int{}, attrs: map[string]bool{}, used: map[[2]int]bool{}, seen: map[string]bool{}}
}

func (b *wb) add(it world.Item) int {
	it.ID = len(b.w.Items) + 1
	b.w.Items = append(b.w.Items, it)
	return it.ID
}

// subsec moves item id to ms milliseconds after its whole-second date.
func (b *wb) subsec(id, ms int) {
	if id > 0 {
		b.w.Items[id-1].Nano = ms * 1000000
	}
}

func (b *wb) val(s string) int {
	if id, ok := b.vals[s]; ok {
		return id
	}
	b.w.Values = append(b.w.Values, s)
	b.vals[s] = len(b.w.Values)
	return len(b.w.Values)
}

func (b *wb) key(signer int) int { return b.add(world.Item{Kind: "key", Signer: signer}) }
func (b *wb) pn(tag string) int {
	return b.add(world.Item{Kind: "permanode", Signer: 1, Data: tag})
}

// claim adds an attribute claim; v is a string value, an int item id (ref value) or nil (no value).
func (b *wb) claim(typ string, pn int, attr string, v any, date, signer int) int {
	if typ != "del" {
		k := fmt.Sprint(pn, "|", attr, "|", v)
		if b.seen[k] {
			if b.norep {
				return 0
			}
			b.reps = true
		}
		b.seen[k] = true
	}
	for b.used[[2]int{pn, date}] {
		date++
	}
	b.used[[2]int{pn, date}] = true
	b.attrs[attr] = true
	it := world.Item{Kind: "claim", Claim: typ, PN: pn, Attr: attr, Date: date, Signer: signer}
	switch x := v.(type) {
	case string:
		it.Val = b.val(x)
	case int:
		it.ValRef = x
	case nil:
	}
	return b.add(it)
}
func (b *wb) set(pn int, attr string, v any, date int) int {
	return b.claim("set", pn, attr, v, date, 1)
}
func (b *wb) addc(pn int, attr string, v any, date int) int {
	return b.claim("add", pn, attr, v, date, 1)
}
func (b *wb) delc(pn int, attr string, v any, date int) int {
	return b.claim("del", pn, attr, v, date, 1)
}
func (b *wb) delete(target, date int) int {
	return b.add(world.Item{Kind: "delete", Target: target, Date: date, Signer: 1})
}
func (b *wb) chunk(data string) int { return b.add(world.Item{Kind: "chunk", Data: data}) }
func (b *wb) file(name string, date int, chunks ...int) int {
	var parts []world.Part
	for _, c := range chunks {
		parts = append(parts, world.Part{Kind: "blob", Ref: c, Size: len(b.w.Items[c-1].Data)})
	}
	return b.add(world.Item{Kind: "file", Name: name, Date: date, Parts: parts})
}
func (b *wb) dir(name string, kids ...int) int {
	// identical static sets / directories are one blob: reuse the item
	ssKey := fmt.Sprint("ss", kids)
	if b.memo == nil {
		b.memo = map[string]int{}
	}
	ss, ok := b.memo[ssKey]
	if !ok {
		ss = b.add(world.Item{Kind: "staticset", Children: kids})
		b.memo[ssKey] = ss
	}
	dKey := fmt.Sprint("dir", name, ss)
	if d, ok := b.memo[dKey]; ok {
		return d
	}
	d := b.add(world.Item{Kind: "dir", Name: name, Children: []int{ss}})
	b.memo[dKey] = d
	return d
}

// mimeOf is the harness's model of the MIME type the index records: sniffed from the
// content for the one magic prefix the worlds use, otherwise from Go's built-in extension table.
func mimeOf(name, content string) string {
	if strings.HasPrefix(content, "GIF89a") && len(content) > 6 {
		return "image/gif"
	}
	switch filepath.Ext(name) {
	case ".html":
		return "text/html"
	case ".jpg":
		return "image/jpeg"
	case ".json":
		return "application/json"
	case ".pdf":
		return "application/pdf"
	}
	return ""
}

var stdSPreds = []StrDef{
	{Equals: "hello"},
	{Contains: "ell"},
	{HasPrefix: "he"},
	{HasSuffix: "2"},
	{Contains: "HELLO", Fold: true},
	{LenMin: 2, LenMax: 5},
	{HasSuffix: ".html"},
	{HasPrefix: "text/"},
	{Equals: "image/jpeg"},
	{Contains: "o", HasSuffix: "l"},
	{HasPrefix: "sha224-"},
	{LenMax: 1},
	{Equals: "sub"},
	{Contains: "a"},
}

var stdIPreds = []IPred{{Min: 5, Max: 20}, {Max: 10}, {Min: 8}, {Min: -5, Max: -1}}

// finish signs the world and derives the harness's facts.
func (b *wb) finish(name string, s *world.Signers, rng *rand.Rand) (*WorldFile, error) {
	b.w.Normalize()
	bt, err := world.Build(&b.w, s)
	if err != nil {
		return nil, err
	}
	wf := &WorldFile{Name: name, Values: b.w.Values, Repeats: b.reps, OwnerKey: s.KeyID[1], OwnerRef: s.PubRef[1].String()}
	if wf.Values == nil {
		wf.Values = []string{}
	}
	content := func(it *world.Item) string {
		var sb strings.Builder
		for _, p := range it.Parts {
			sb.WriteString(b.w.Items[p.Ref-1].Data)
		}
		return sb.String()
	}
	wholeOf := map[string]int{}
	wf.Wholes = []string{}
	for i := range b.w.Items {
		it := b.w.Items[i]
		ti := TItem{Item: it, Vid: RefVidBase + it.ID, Blob: string(bt.Blobs[it.ID])}
		if it.Kind == "file" {
			c := content(&it)
			ti.FSize = len(c)
			ti.Mime = mimeOf(it.Name, c)
			if _, ok := wholeOf[c]; !ok {
				wf.Wholes = append(wf.Wholes, blob.RefFromString(c).String())
				wholeOf[c] = len(wf.Wholes)
			}
			ti.Whole = wholeOf[c]
		}
		wf.Items = append(wf.Items, ti)
	}
	// a whole ref that no file has
	wf.Wholes = append(wf.Wholes, blob.RefFromString("no file has this content").String())
	for a := range b.attrs {
		wf.Attrs = append(wf.Attrs, a)
	}
	sort.Strings(wf.Attrs)
	wf.EdgeAttrs = []string{}
	for _, a := range wf.Attrs {
		if a == "camliMember" || strings.HasPrefix(a, "camliPath:") {
			wf.EdgeAttrs = append(wf.EdgeAttrs, a)
		}
	}
	if wf.Attrs == nil {
		wf.Attrs = []string{}
	}
	wf.HideVid = b.vals["hide"]
	wf.VenueVid = b.vals["foursquare.com:venue"]
	// value universe: string values and refs used as values
	type vv struct {
		vid int
		s   string
	}
	var univ []vv
	for i, v := range wf.Values {
		univ = append(univ, vv{i + 1, v})
	}
	for _, it := range wf.Items {
		univ = append(univ, vv{it.Vid, it.Ref})
	}
	for i, d := range stdSPreds {
		dj, _ := json.Marshal(d)
		sp := SPred{ID: i + 1, Def: string(dj), Vids: []int{}, Names: []int{}, Mimes: []int{}}
		for _, u := range univ {
			if d.holds(u.s) {
				sp.Vids = append(sp.Vids, u.vid)
			}
		}
		for _, it := range wf.Items {
			if (it.Kind == "file" || it.Kind == "dir") && d.holds(it.Name) {
				sp.Names = append(sp.Names, it.ID)
			}
			if it.Kind == "file" && d.holds(it.Mime) {
				sp.Mimes = append(sp.Mimes, it.ID)
			}
		}
		wf.SPreds = append(wf.SPreds, sp)
	}
	for i, p := range stdIPreds {
		p.ID = i + 1
		p.Vids = []int{}
		for _, u := range univ {
			if p.holds(u.s) {
				p.Vids = append(p.Vids, u.vid)
			}
		}
		wf.IPreds = append(wf.IPreds, p)
	}
	// prefixes: complete refs of a few items, a complete ref of no item, short digest prefixes
	var pstr []string
	seenKind := map[string]bool{}
	for _, it := range wf.Items {
		if !seenKind[it.Kind] && (it.Kind == "permanode" || it.Kind == "file" || it.Kind == "dir" || it.Kind == "chunk") {
			seenKind[it.Kind] = true
			pstr = append(pstr, it.Ref)
		}
	}
	for _, nth := range []int{4, 5} { // in the fixed worlds: the claim-less and the deleted permanode
		k := 0
		for _, it := range wf.Items {
			if it.Kind == "permanode" {
				if k++; k == nth {
					pstr = append(pstr, it.Ref)
				}
			}
		}
	}
	// the last permanode and the last dir too (deleted / nested ones tend to be late)
	for _, kind := range []string{"permanode", "dir", "file"} {
		for i := len(wf.Items) - 1; i >= 0; i-- {
			if wf.Items[i].Kind == kind {
				pstr = append(pstr, wf.Items[i].Ref)
				break
			}
		}
	}
	pstr = append(pstr, blob.RefFromString("not in this world").String())
	digs := map[string]int{}
	for _, it := range wf.Items {
		digs[it.Ref[:len("sha224-")+1]]++
	}
	var short []string
	for p := range digs {
		short = append(short, p)
	}
	sort.Slice(short, func(i, j int) bool {
		if digs[short[i]] != digs[short[j]] {
			return digs[short[i]] > digs[short[j]]
		}
		return short[i] < short[j]
	})
	if len(short) > 3 {
		short = short[:3]
	}
	pstr = append(pstr, short...)
	for _, it := range wf.Items {
		if it.Kind == "dir" || it.Kind == "file" {
			pstr = append(pstr, it.Ref[:len("sha224-")+3])
		}
		if len(pstr) > 16 {
			break
		}
	}
	seen := map[string]bool{}
	for _, p := range pstr {
		if seen[p] {
			continue
		}
		seen[p] = true
		_, exact := blob.Parse(p)
		pf := Prefix{ID: len(wf.Prefixes) + 1, Str: p, Exact: exact, Ids: []int{}}
		for _, it := range wf.Items {
			if strings.HasPrefix(it.Ref, p) {
				pf.Ids = append(pf.Ids, it.ID)
			}
		}
		wf.Prefixes = append(wf.Prefixes, pf)
	}
	// interesting times: every claim / file date, and the midpoints
	ts := map[int]bool{}
	for _, it := range wf.Items {
		if it.Kind == "claim" || it.Kind == "file" {
			ts[it.Date] = true
			ts[it.Date+1] = true
		}
	}
	for t := range ts {
		wf.Times = append(wf.Times, t)
	}
	sort.Ints(wf.Times)
	if wf.Times == nil {
		wf.Times = []int{}
	}
	wf.Menu = [][]Node{}
	return wf, nil
}

func (wf *WorldFile) save(path string) error {
	data, err := json.Marshal(wf)
	if err != nil {
		return err
	}
	return writeFile(path, data)
}

func (wf *WorldFile) vidOf(s string) int {
	for i, v := range wf.Values {
		if v == s {
			return i + 1
		}
	}
	panic("no value " + s)
}

func (wf *WorldFile) lookupValue(s string) int {
	for i, v := range wf.Values {
		if v == s {
			return i + 1
		}
	}
	return 0
}

func (wf *WorldFile) firstOf(kind string, nth int) int {
	for _, it := range wf.Items {
		if it.Kind == kind {
			nth--
			if nth == 0 {
				return it.ID
			}
		}
	}
	panic(fmt.Sprintf("no %d-th %s", nth, kind))
}

func (wf *WorldFile) prefixOfItem(id int, exact bool) int {
	for _, p := range wf.Prefixes {
		if p.Exact == exact {
			for _, x := range p.Ids {
				if x == id {
					return p.ID
				}
			}
		}
	}
	panic(fmt.Sprintf("no prefix (exact=%v) for item %d", exact, id))
}

func pnAttr(attr string, vid int) []Node { return []Node{{K: "pn", S: attr, V: vid}} }

// fixedWorld returns one of the fixed worlds of the S and G legs together with its atom menu.
func fixedWorld(name string, s *world.Signers) (*WorldFile, error) {
	b := newWB()
	switch name {
	case "ws":
		// small world for the exhaustive legs
		b.key(1)
		p1 := b.pn("1")
		b.set(p1, "title", "hello", 10)
		b.addc(p1, "tag", "a", 11)
		b.set(p1, "camliNodeType", "foo", 12)
		p2 := b.pn("2")
		b.set(p2, "title", "hello2", 20)
		b.addc(p2, "tag", "a", 21)
		b.set(p2, "camliNodeType", "bar", 22)
		b.pn("3") // no claim at all
		p4 := b.pn("4")
		b.addc(p4, "tag", "a", 30)
		b.set(p4, "camliNodeType", "foo", 31)
		b.delete(p4, 35)
		p5 := b.pn("5")
		b.addc(p5, "camliMember", p1, 40)
		b.set(p5, "title", "hello", 12) // same modtime-independent date as a claim of p1
		c1 := b.chunk("some words")
		f1 := b.file("a.html", 5, c1)
		b.dir("top", f1)
		p6 := b.pn("6")
		b.set(p6, "camliContent", f1, 50)
		b.addc(p6, "tag", "b", 51)
	case "wp":
		// permanode-centred world
		b.key(1)
		b.key(2)
		p1 := b.pn("1")
		b.set(p1, "title", "hello", 10)
		b.addc(p1, "tag", "a", 11)
		b.addc(p1, "tag", "b", 12)
		b.set(p1, "camliNodeType", "foo", 13)
		p2 := b.pn("2")
		b.set(p2, "title", "hello2", 20)
		b.addc(p2, "tag", "a", 21)
		b.set(p2, "title", "Hello World", 25) // title as of 22 is hello2
		p3 := b.pn("3")
		b.set(p3, "camliNodeType", "bar", 30)
		b.addc(p3, "tag", "b", 31)
		b.set(p3, "camliNodeType", "foo", 35) // ever bar, now foo
		b.pn("4")                             // no claim at all
		p5 := b.pn("5")
		b.addc(p5, "tag", "a", 40)
		b.set(p5, "title", "hello", 41)
		b.set(p5, "camliNodeType", "foo", 42)
		b.delete(p5, 45) // deleted
		p6 := b.pn("6")
		b.addc(p6, "tag", "b", 50)
		d6 := b.delete(p6, 52)
		b.delete(d6, 53) // deleted, then undeleted
		p7 := b.pn("7")
		b.set(p7, "title", "album", 60)
		b.addc(p7, "camliMember", p1, 61)
		b.addc(p7, "camliMember", p2, 62)
		b.set(p7, "camliPath:x", p3, 63)
		b.addc(p7, "camliMember", p5, 64)
		c1 := b.chunk("some words")
		f1 := b.file("a.html", 5, c1)
		p8 := b.pn("8")
		b.set(p8, "camliContent", f1, 70) // its time is the file's
		b.addc(p8, "tag", "a", 71)
		p9 := b.pn("9")
		b.claim("add", p9, "tag", "a", 80, 2) // only the other signer says so
		b.claim("set", p9, "title", "hello", 81, 2)
		p10 := b.pn("10")
		b.set(p10, "camliDefVis", "hide", 90)
		b.addc(p10, "tag", "a", 91)
		p11 := b.pn("11")
		b.set(p11, "count", "12", 100)
		b.addc(p11, "tag", "c", 101)
		p12 := b.pn("12")
		b.set(p12, "count", "7", 102)
		b.addc(p12, "tag", "12", 103)
		p13 := b.pn("13")
		b.addc(p13, "count", "x1", 104)
		b.addc(p13, "count", "-3", 105)
		p14 := b.pn("14")
		b.set(p14, "camliNodeType", "foo", 110)
		b.delc(p14, "camliNodeType", nil, 111) // ever foo, now nothing
		p15 := b.pn("15")
		b.set(p15, "camliNodeType", "foursquare.com:venue", 120)
		b.addc(p15, "tag", "a", 121)
		p16 := b.pn("16")
		b.addc(p16, "tag", "a", 25) // same modtime as p2
		b.addc(p7, "camliMember", p16, 65)
		b.delc(p7, "camliMember", p16, 66) // member removed again
		p17 := b.pn("17")
		b.addc(p17, "camliMember", p1, 130) // p1 has two parents
		b.addc(p17, "tag", "a", 131)
		b.addc(p17, "tag", "a", 132) // repeated value
		b.delc(p1, "tag", "b", 140)  // p1 loses tag b late
		b.dir("top", f1)
		b.chunk("opaque bytes")
		// two permanodes linked by TWO edges: the earlier one (camliPath:x) is re-pointed elsewhere, the later one
		// (camliMember) still holds; and a pair whose only edge was re-pointed away
		p18 := b.pn("18")
		b.set(p18, "camliPath:x", p2, 150)
		b.set(p18, "camliPath:x", p3, 151)
		b.addc(p18, "camliMember", p2, 152)
		b.set(p18, "title", "album", 153)
		// three permanodes created within ONE second (and modified within another): sort keys that differ below the second
		p20, p21, p22 := b.pn("20"), b.pn("21"), b.pn("22")
		b.subsec(b.addc(p20, "tag", "a", 170), 100)
		b.subsec(b.addc(p21, "tag", "a", 170), 900)
		b.subsec(b.addc(p22, "tag", "a", 170), 500)
		b.subsec(b.set(p21, "title", "hello", 180), 300)
		b.subsec(b.set(p20, "title", "hello", 180), 600)
		for k, ms := range []int{250, 750, 50, 990} { // four more in the same second: 7 keys that differ only below the second
			q := b.pn(fmt.Sprint(23 + k))
			b.subsec(b.addc(q, "tag", "a", 170), ms)
			if k%2 == 0 {
				b.subsec(b.set(q, "title", "hello", 180), 999-ms)
			}
		}
		p19 := b.pn("19")
		b.set(p19, "camliPath:x", p1, 160)
		b.set(p19, "camliPath:x", p5, 161)
		b.addc(p19, "tag", "c", 162)
	case "wf":
		// file / directory centred world
		b.key(1)
		c1 := b.chunk("some words")
		c2 := b.chunk("more words here")
		c3 := b.chunk("GIF89a-not-really")
		c4 := b.chunk("x")
		f1 := b.file("a.html", 5, c1)
		f2 := b.file("b.jpg", 6, c2)
		f3 := b.file("hello", 7, c1, c2) // two chunks
		f4 := b.file("pic", 8, c3)
		f5 := b.file("copy.html", 9, c1) // same content as f1
		f6 := b.file("e.json", 10)       // empty file
		f7 := b.file("hello2", 11, c4)
		sub := b.dir("sub", f3, f4)
		deep := b.dir("deep", f7)
		mid := b.dir("mid", deep, f6)
		top := b.dir("top", f1, f2, sub, mid)
		b.dir("other", f1, f5) // f1 has two parents
		b.dir("empty")
		b.dir("sub", f2) // a second directory called sub, not under top
		p1 := b.pn("1")
		b.set(p1, "camliContent", f1, 20)
		b.addc(p1, "tag", "a", 21)
		p2 := b.pn("2")
		b.set(p2, "camliContent", top, 30)
		p3 := b.pn("3")
		b.set(p3, "camliContent", sub, 40)
		b.addc(p3, "tag", "a", 41)
		p4 := b.pn("4")
		b.set(p4, "camliContent", f4, 50)
		b.set(p4, "camliNodeType", "foo", 51)
		b.pn("5")
		p6 := b.pn("6")
		b.set(p6, "title", "hello", 60)
		b.delete(p6, 61)
		b.add(world.Item{Kind: "bytes", Parts: []world.Part{{Kind: "blob", Ref: c2, Size: 15}}})
	default:
		return nil, fmt.Errorf("unknown fixed world %q", name)
	}
	wf, err := b.finish(name, s, nil)
	if err != nil {
		return nil, err
	}
	wf.Menu = menuFor(wf)
	return wf, nil
}

// menuFor lists the atoms the TLC legs combine logically for this world.
func menuFor(wf *WorldFile) [][]Node {
	has := func(s string) int {
		for i, v := range wf.Values {
			if v == s {
				return i + 1
			}
		}
		return 0
	}
	var m [][]Node
	add := func(n ...Node) { m = append(m, n) }
	add(Node{K: "any"})
	add(Node{K: "type", S: "permanode"})
	if v := has("foo"); v != 0 {
		add(Node{K: "pn", S: "camliNodeType", V: v})
	}
	if v := has("a"); v != 0 {
		add(Node{K: "pn", S: "tag", V: v})
	}
	if has("hello") != 0 {
		add(Node{K: "pn", S: "title", SP: 3}) // title has prefix "he"
	}
	add(Node{K: "type", S: "file"})
	switch wf.Name {
	case "ws":
		add(Node{K: "pn", Rel: "parent", RelAny: true, B: 2}, Node{K: "pn", S: "title", V: has("hello")})
		add(Node{K: "prefix", P: wf.prefixOfItem(wf.firstOf("permanode", 1), true)})
		add(Node{K: "pn", S: "camliContent", A: 2}, Node{K: "file", SP: 7})
		add(Node{K: "dir", B: 2, Rec: true}, Node{K: "file", MP: 8})
		add(Node{K: "pn", S: "camliNodeType", V: has("bar")})
		add(Node{K: "pn", HasTa: true, Ta: 33})
		add(Node{K: "anytype"})
		add(Node{K: "pn", S: "tag", Hi: 0, ZMax: true})
	case "wp":
		add(Node{K: "pn", S: "camliNodeType", V: has("bar")})
		add(Node{K: "pn", S: "title", V: has("hello2"), HasAt: true, At: 22})
		add(Node{K: "pn", Rel: "child", RelAny: true, B: 2}, Node{K: "pn", S: "tag", V: has("a")})
		add(Node{K: "pn", Rel: "parent", RelAny: false, B: 2}, Node{K: "pn", S: "title", V: has("album")})
		add(Node{K: "pn", S: "count", IP: 1})
		add(Node{K: "pn", S: "tag", Lo: 2})
		add(Node{K: "pn", S: "tag", V: has("a"), All: true})
		add(Node{K: "pn", Hid: true})
		add(Node{K: "pn", HasMtb: true, Mtb: 50})
		add(Node{K: "pn", S: "camliContent", A: 2}, Node{K: "type", S: "file"})
		add(Node{K: "prefix", P: wf.prefixOfItem(wf.firstOf("permanode", 5), true)})
		add(Node{K: "size", Lo: 600})
	case "wf":
		add(Node{K: "file", SP: 7})
		add(Node{K: "file", MP: 8})
		add(Node{K: "file", Lo: 11})
		add(Node{K: "file", Wh: 1})
		add(Node{K: "file", A: 2}, Node{K: "dir", SP: 13})
		add(Node{K: "dir", SP: 13})
		add(Node{K: "dir", Lo: 2})
		add(Node{K: "dir", B: 2}, Node{K: "file", SP: 3})
		add(Node{K: "dir", B: 2, Rec: true}, Node{K: "file", SP: 3})
		add(Node{K: "dir", B: 2, Rec: true, Lo: 3}, Node{K: "file", SP: 4})
		add(Node{K: "dir", A: 2}, Node{K: "dir", Lo: 3})
		add(Node{K: "type", S: "directory"})
		add(Node{K: "pn", S: "camliContent", A: 2}, Node{K: "dir", B: 3, Rec: true}, Node{K: "file", SP: 12})
		add(Node{K: "pn", HasTb: true, Tb: 41})
	}
	return m
}

// randWorld builds a seeded random world: permanodes with tags, titles, node types, numeric
// attributes, members and paths, contents, other-signer claims, deleted / undeleted / claim-less
// permanodes, files of several names / sizes / MIME types, nested directories, opaque blobs.
func randWorld(name string, seed int64, s *world.Signers) (*WorldFile, error) {
	rng := rand.New(rand.NewSource(seed))
	b := newWB()
	b.norep = true
	b.key(1)
	b.key(2)
	words := []string{"some words", "more words here", "x", "GIF89a-fake-image", "hello hello", ""}
	var chunks []int
	for _, w := range words {
		if w != "" {
			chunks = append(chunks, b.chunk(w))
		}
	}
	fnames := []string{"a.html", "b.jpg", "hello", "hello2", "pic", "e.json", "sub", "copy.html", "d.pdf", "x"}
	var files, dirs []int
	nf := 4 + rng.Intn(5)
	for i := 0; i < nf; i++ {
		var cs []int
		for k := rng.Intn(3); k > 0; k-- {
			cs = append(cs, chunks[rng.Intn(len(chunks))])
		}
		files = append(files, b.file(fnames[rng.Intn(len(fnames))]+fmt.Sprint(i % 2)[:i%2], 3*i+rng.Intn(3), cs...)) // distinct dates: distinct blobs
	}
	dnames := []string{"top", "sub", "mid", "deep", "hello", "other"}
	nd := 2 + rng.Intn(4)
	for i := 0; i < nd; i++ {
		var kids []int
		seen := map[int]bool{}
		for k := rng.Intn(4); k > 0; k-- {
			var c int
			if len(dirs) > 0 && rng.Intn(3) == 0 {
				c = dirs[rng.Intn(len(dirs))]
			} else {
				c = files[rng.Intn(len(files))]
			}
			if !seen[c] {
				seen[c] = true
				kids = append(kids, c)
			}
		}
		dirs = append(dirs, b.dir(dnames[rng.Intn(len(dnames))], kids...))
	}
	np := 6 + rng.Intn(8)
	var pns []int
	for i := 0; i < np; i++ {
		pns = append(pns, b.pn(fmt.Sprint(i)))
	}
	tags := []string{"a", "b", "c", "12"}
	titles := []string{"hello", "hello2", "Hello World", "album", "x"}
	ntypes := []string{"foo", "bar", "foursquare.com:venue"}
	counts := []string{"12", "7", "-3", "x1", "010"}
	date := 10
	for _, p := range pns {
		if rng.Intn(8) == 0 {
			continue // no claim at all
		}
		for k := 1 + rng.Intn(5); k > 0; k-- {
			date += rng.Intn(4) // dates of different permanodes may tie; b.claim keeps them distinct within one
			d := date
			if rng.Intn(5) == 0 {
				d = rng.Intn(date + 1) // out of creation order
			}
			signer := 1
			switch rng.Intn(12) {
			case 0, 1, 2:
				typ := "add"
				if rng.Intn(6) == 0 {
					typ = "set"
				}
				if rng.Intn(6) == 0 {
					signer = 2
				}
				b.claim(typ, p, "tag", tags[rng.Intn(len(tags))], d, signer)
			case 3, 4:
				if rng.Intn(6) == 0 {
					signer = 2
				}
				b.claim("set", p, "title", titles[rng.Intn(len(titles))], d, signer)
			case 5:
				b.subsec(b.set(p, "camliNodeType", ntypes[rng.Intn(len(ntypes))], d), rng.Intn(1000))
			case 6:
				b.claim([]string{"set", "add"}[rng.Intn(2)], p, "count", counts[rng.Intn(len(counts))], d, 1)
			case 7:
				if q := pns[rng.Intn(len(pns))]; q < p {
					b.addc(p, "camliMember", q, d)
				}
			case 8:
				if q := pns[rng.Intn(len(pns))]; q < p {
					b.set(p, "camliPath:x", q, d)
					if rng.Intn(3) == 0 { // a second edge to the same permanode, and the first one re-pointed
						b.addc(p, "camliMember", q, d+1)
						if q2 := pns[rng.Intn(len(pns))]; q2 < p {
							b.set(p, "camliPath:x", q2, d+2)
						}
					}
				}
			case 9:
				if rng.Intn(2) == 0 {
					b.set(p, "camliContent", files[rng.Intn(len(files))], d)
				} else {
					b.set(p, "camliContent", dirs[rng.Intn(len(dirs))], d)
				}
			case 10:
				a := []string{"tag", "camliMember", "camliNodeType", "title"}[rng.Intn(4)]
				if a == "tag" && rng.Intn(2) == 0 {
					b.delc(p, a, tags[rng.Intn(len(tags))], d)
				} else {
					b.delc(p, a, nil, d)
				}
			case 11:
				if rng.Intn(3) == 0 {
					b.set(p, "camliDefVis", "hide", d)
				}
			}
		}
	}
	for _, p := range pns {
		switch rng.Intn(7) {
		case 0:
			b.delete(p, date+1)
		case 1:
			d := b.delete(p, date+2)
			b.delete(d, date+3)
		}
	}
	b.chunk("opaque bytes")
	b.val("hello")
	b.val("foo")
	b.val("a")
	wf, err := b.finish(name, s, rng)
	if err != nil {
		return nil, err
	}
	wf.Menu = menuFor(wf)
	return wf, nil
}
