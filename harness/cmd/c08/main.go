//go:build verif

// c08 builds abstract worlds into real signed blobs, indexes them with the real
// index (with the in-memory corpus built incrementally as the server does, with
// the corpus scanned from the rows as after a restart, and without a corpus),
// converts constraint trees (from SearchGen.tla or from its own seeded
// generator) into real search.SearchQuery values, runs search.Handler.Query and
// logs one ndjson event per query: result item ids in order, the candidate
// source the planner picked, the error class. It computes no expected value;
// Trace_Search.tla does.
package main

import (
	"bufio"
	"context"
	"encoding/json"
	"flag"
	"fmt"
	"io"
	"log"
	"math/rand"
	"os"
	"path/filepath"
	"perkeep.org/pkg/types/camtypes"
	"strings"

	"perkeep.org/pkg/blob"
	"perkeep.org/pkg/index"
	"perkeep.org/pkg/search"

	"verif/idx"
	"verif/world"
)

func fatal(err error) {
	fmt.Fprintln(os.Stderr, "c08:", err)
	os.Exit(2)
}

func writeFile(path string, data []byte) error { return os.WriteFile(path, data, 0600) }

type Event struct {
	Ev     string `json:"ev"`
	Q      int    `json:"q"`
	W      string `json:"w"`
	Mode   string `json:"mode"`
	Tree   []Node `json:"tree"`
	Sort   string `json:"sort"`
	Limit  int    `json:"limit"`
	Res    string `json:"res"` // ok | error | panic
	Class  string `json:"class"`
	Err    string `json:"err"`
	Out    []int  `json:"out"`
	Source string `json:"source"`
}

func classifyErr(msg string) string {
	switch {
	case strings.Contains(msg, "can only sort by ctime"):
		return "sort-needs-permanodes"
	case strings.Contains(msg, "no ctime or modtime found"):
		return "sort-needs-time"
	case strings.Contains(msg, "unsupported sort+query"):
		return "sort-unsupported"
	case strings.Contains(msg, "Sorting without a corpus"):
		return "sort-needs-corpus"
	case strings.Contains(msg, "requires an in-memory corpus"), strings.Contains(msg, "not supported without a corpus"):
		return "needs-corpus"
	case strings.Contains(msg, "Invalid SearchQuery"):
		return "invalid"
	case strings.Contains(msg, "Contains constraint should have"):
		return "contains-shape"
	}
	return "other"
}

type env struct {
	mode string
	h    *search.Handler
	bt   *world.Built
}

func newEnv(wf *WorldFile, mode string) (*env, error) {
	bt := wf.built()
	e, err := idx.NewMem(mode == "build")
	if err != nil {
		return nil, err
	}
	if mode == "build" {
		// the live corpus is built in two instalments with a sorted enumeration in between: claims first (a
		// camliContent claim may arrive before its file), then - after the lazily sorted permanode lists have been
		// used once - files, directories and their parts, whose times move permanodes in those lists
		late := func(kind string) bool {
			switch kind {
			case "file", "dir", "staticset", "bytes", "chunk":
				return true
			}
			return false
		}
		for _, it := range bt.W.Items {
			if !late(it.Kind) {
				if err := e.Deliver(bt, it.ID); err != nil {
					return nil, err
				}
			}
		}
		e.Await()
		e.Ix.RLock()
		e.Corpus.EnumeratePermanodesCreated(func(camtypes.BlobMeta) bool { return true }, true)
		e.Corpus.EnumeratePermanodesLastModified(func(camtypes.BlobMeta) bool { return true })
		e.Ix.RUnlock()
		for _, it := range bt.W.Items {
			if late(it.Kind) {
				if err := e.Deliver(bt, it.ID); err != nil {
					return nil, err
				}
			}
		}
		e.Await()
	} else if err := e.DeliverAll(bt); err != nil {
		return nil, err
	}
	corpus := e.Corpus
	if mode == "scan" {
		if corpus, err = e.Ix.KeepInMemory(); err != nil {
			return nil, err
		}
	}
	owner := index.NewOwner(wf.OwnerKey, blob.MustParse(wf.OwnerRef))
	h := search.NewHandler(e.Ix, owner)
	if corpus != nil {
		h.SetCorpus(corpus)
	}
	return &env{mode: mode, h: h, bt: bt}, nil
}

func (e *env) run(wf *WorldFile, qn int, q Query) (ev Event) {
	ev = Event{Ev: "query", Q: qn, W: wf.Name, Mode: e.mode, Tree: q.Tree, Sort: q.Sort, Limit: q.Limit, Out: []int{}}
	c, err := wf.toConstraint(q.Tree, 1)
	if err != nil {
		fatal(fmt.Errorf("query %d: %v", qn, err))
	}
	st, ok := sortTypes[q.Sort]
	if !ok {
		fatal(fmt.Errorf("query %d: unknown sort %q", qn, q.Sort))
	}
	sq := &search.SearchQuery{Constraint: c, Sort: st, Limit: q.Limit}
	if q.Limit == 0 {
		sq.Limit = -1
	}
	search.VerifSetCandidateSourceHook(func(name string) { ev.Source = name })
	defer search.VerifSetCandidateSourceHook(nil)
	defer func() {
		if r := recover(); r != nil {
			ev.Res, ev.Err, ev.Class = "panic", fmt.Sprint(r), "panic"
		}
	}()
	res, err := e.h.Query(context.Background(), sq)
	if err != nil {
		ev.Res, ev.Err, ev.Class = "error", err.Error(), classifyErr(err.Error())
		return
	}
	ev.Res = "ok"
	for _, b := range res.Blobs {
		ev.Out = append(ev.Out, e.bt.ByRef[b.Blob]) // 0 = a ref that is not in the world
	}
	return
}

func main() {
	mk := flag.String("mkworld", "", "create a world: a fixed world name (ws, wp, wf) or rand:<seed>")
	name := flag.String("name", "", "name of the world to create (default: the -mkworld argument)")
	out := flag.String("out", "", "output file (world JSON or ndjson trace)")
	wpath := flag.String("world", "", "world file")
	qpath := flag.String("queries", "", "queries file (JSON lines: {tree, sort, limit})")
	modes := flag.String("modes", "build,scan,classic", "index modes")
	random := flag.Int("random", 0, "number of random queries per mode (own generator)")
	seed := flag.Int64("seed", 1, "seed")
	rows := flag.Bool("rows", false, "debug: dump index rows of the world")
	flag.Parse()
	log.SetOutput(io.Discard)
	index.SetVerboseCorpusLogging(false)

	if *mk != "" {
		repo := os.Getenv("VERIF_REPO")
		if repo == "" {
			repo = "/repo"
		}
		s, err := world.LoadSigners(filepath.Join(repo, "pkg/jsonsign/testdata/test-secring.gpg"))
		if err != nil {
			fatal(err)
		}
		var wf *WorldFile
		n := *name
		if strings.HasPrefix(*mk, "rand:") {
			var sd int64
			fmt.Sscanf(*mk, "rand:%d", &sd)
			if n == "" {
				n = fmt.Sprintf("r%d", sd)
			}
			wf, err = randWorld(n, sd, s)
		} else {
			wf, err = fixedWorld(*mk, s)
			if n != "" && err == nil {
				wf.Name = n
			}
		}
		if err != nil {
			fatal(err)
		}
		if err := wf.save(*out); err != nil {
			fatal(err)
		}
		fmt.Printf("world=%s items=%d values=%d prefixes=%d menu=%d repeats=%v\n", wf.Name, len(wf.Items), len(wf.Values), len(wf.Prefixes), len(wf.Menu), wf.Repeats)
		return
	}

	wf, err := loadWorld(*wpath)
	if err != nil {
		fatal(err)
	}
	if *rows {
		e, err := idx.NewMem(true)
		if err != nil {
			fatal(err)
		}
		if err := e.DeliverAll(wf.built()); err != nil {
			fatal(err)
		}
		for _, r := range idx.Rows(e.KV) {
			fmt.Printf("%.160s = %.100s\n", r[0], r[1])
		}
		return
	}
	var queries []Query
	if *qpath != "" {
		f, err := os.Open(*qpath)
		if err != nil {
			fatal(err)
		}
		sc := bufio.NewScanner(f)
		sc.Buffer(make([]byte, 1<<20), 1<<26)
		for sc.Scan() {
			if len(strings.TrimSpace(sc.Text())) == 0 {
				continue
			}
			var q Query
			if err := json.Unmarshal(sc.Bytes(), &q); err != nil {
				fatal(fmt.Errorf("bad query line: %v", err))
			}
			queries = append(queries, q)
		}
		f.Close()
	}
	of, err := os.Create(*out)
	if err != nil {
		fatal(err)
	}
	bw := bufio.NewWriterSize(of, 1<<20)
	enc := json.NewEncoder(bw)
	total, skipped := 0, 0
	srcs := map[string]int{}
	for mi, mode := range strings.Split(*modes, ",") {
		if mode == "classic" && wf.Repeats {
			// the describe path de-duplicates repeated attribute values (C07's subject)
			continue
		}
		e, err := newEnv(wf, mode)
		if err != nil {
			fatal(fmt.Errorf("building world %s in mode %s: %v", wf.Name, mode, err))
		}
		qs := queries
		if *random > 0 {
			g := newGen(rand.New(rand.NewSource(*seed*1000+int64(mi))), wf, mode == "classic")
			qs = nil
			for i := 0; i < *random; i++ {
				qs = append(qs, g.query())
			}
		}
		for _, q := range qs {
			if mode == "classic" && outsideClassic(q.Tree) {
				skipped++
				continue
			}
			total++
			ev := e.run(wf, total, q)
			srcs[ev.Source]++
			if err := enc.Encode(ev); err != nil {
				fatal(err)
			}
		}
	}
	if err := bw.Flush(); err != nil {
		fatal(err)
	}
	of.Close()
	sj, _ := json.Marshal(srcs)
	fmt.Printf("queries=%d skipped=%d sources=%s\n", total, skipped, sj)
}
