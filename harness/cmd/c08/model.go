//go:build verif

package main

import (
	"encoding/json"
	"fmt"
	"os"
	"strconv"
	"strings"
	"time"

	"go4.org/types"
	"perkeep.org/pkg/blob"
	"perkeep.org/pkg/schema"
	"perkeep.org/pkg/search"

	"verif/world"
)

// Node is one node of a constraint tree. Trees are sequences of uniform node
// records (index 1 = root; a, b = 1-based child indices, 0 = none) because TLC
// can neither nest nor compare records of different shapes. The same JSON is
// produced by SearchGen.tla (ToJson) and by the Go generator, and consumed by
// Trace_Search.tla and by toConstraint below.
//
//	k = any | type | anytype | prefix | size | and | or | xor | not | pn | file | dir
//	type:   s = camliType
//	prefix: p = prefix id (world.prefixes)
//	size:   lo, hi = blobSize min / max (0 = unset)
//	pn:     s = attr; v = exact value (vid); sp = valueMatches (string predicate id);
//	        ip = valueMatchesInt (int predicate id); lo/hi/zmax = numValue; all = valueAll;
//	        a = valueInSet sub-constraint; at/hasAt; mtb/mta = modTime before/after;
//	        tb/ta = time before/after; rel/edge/relAny + b = relation sub-constraint; hid = skipHidden
//	file:   sp = fileName predicate; mp = mimeType predicate; lo/hi = fileSize; wh = wholeRef class;
//	        a = parentDir (a dir node)
//	dir:    sp = fileName predicate; p = blobRefPrefix; a = parentDir (a dir node);
//	        lo/hi/zmax = topFileCount; b = contains (rec = FALSE) or recursiveContains (rec = TRUE)
type Node struct {
	K      string `json:"k"`
	A      int    `json:"a"`
	B      int    `json:"b"`
	S      string `json:"s"`
	P      int    `json:"p"`
	Lo     int    `json:"lo"`
	Hi     int    `json:"hi"`
	ZMax   bool   `json:"zmax"`
	V      int    `json:"v"`
	SP     int    `json:"sp"`
	IP     int    `json:"ip"`
	MP     int    `json:"mp"`
	All    bool   `json:"all"`
	At     int    `json:"at"`
	HasAt  bool   `json:"hasAt"`
	Mtb    int    `json:"mtb"`
	HasMtb bool   `json:"hasMtb"`
	Mta    int    `json:"mta"`
	HasMta bool   `json:"hasMta"`
	Tb     int    `json:"tb"`
	HasTb  bool   `json:"hasTb"`
	Ta     int    `json:"ta"`
	HasTa  bool   `json:"hasTa"`
	Rel    string `json:"rel"`
	Edge   string `json:"edge"`
	RelAny bool   `json:"relAny"`
	Hid    bool   `json:"hid"`
	Wh     int    `json:"wh"`
	Rec    bool   `json:"rec"`
}

type Query struct {
	Tree  []Node `json:"tree"`
	Sort  string `json:"sort"`
	Limit int    `json:"limit"` // 0 = no limit
}

// StrDef is a search.StringConstraint in the harness's own vocabulary.
type StrDef struct {
	Equals    string `json:"equals,omitempty"`
	Contains  string `json:"contains,omitempty"`
	HasPrefix string `json:"hasPrefix,omitempty"`
	HasSuffix string `json:"hasSuffix,omitempty"`
	Fold      bool   `json:"fold,omitempty"`
	LenMin    int    `json:"lenMin,omitempty"`
	LenMax    int    `json:"lenMax,omitempty"`
}

// holds is the harness's own evaluation of a string predicate (documented
// meaning of StringConstraint: every non-zero field must hold).
func (d StrDef) holds(s string) bool {
	t := s
	e, c, p, x := d.Equals, d.Contains, d.HasPrefix, d.HasSuffix
	if d.Fold {
		t, e, c, p, x = strings.ToLower(t), strings.ToLower(e), strings.ToLower(c), strings.ToLower(p), strings.ToLower(x)
	}
	if e != "" && t != e {
		return false
	}
	if c != "" && !strings.Contains(t, c) {
		return false
	}
	if p != "" && !strings.HasPrefix(t, p) {
		return false
	}
	if x != "" && !strings.HasSuffix(t, x) {
		return false
	}
	if d.LenMin != 0 && len(s) < d.LenMin {
		return false
	}
	if d.LenMax != 0 && len(s) > d.LenMax {
		return false
	}
	return true
}

func (d StrDef) real() *search.StringConstraint {
	sc := &search.StringConstraint{Equals: d.Equals, Contains: d.Contains, HasPrefix: d.HasPrefix, HasSuffix: d.HasSuffix, CaseInsensitive: d.Fold}
	if d.LenMin != 0 || d.LenMax != 0 {
		sc.ByteLength = &search.IntConstraint{Min: int64(d.LenMin), Max: int64(d.LenMax)}
	}
	return sc
}

// SPred is a string predicate with its truth tables over value ids, item names and MIME types.
type SPred struct {
	ID    int    `json:"id"`
	Def   string `json:"def"` // JSON of StrDef (a string, so that TLC sees uniform records)
	Vids  []int  `json:"vids"`
	Names []int  `json:"names"` // ids of file/dir items whose name satisfies it
	Mimes []int  `json:"mimes"` // ids of file items whose MIME type satisfies it
}

// IPred is an integer range predicate (inclusive; 0 = unset) with its truth table over value ids.
type IPred struct {
	ID   int   `json:"id"`
	Min  int   `json:"min"`
	Max  int   `json:"max"`
	Vids []int `json:"vids"`
}

func (p IPred) holds(s string) bool {
	i, err := strconv.ParseInt(s, 10, 64)
	if err != nil {
		return false
	}
	if p.Min != 0 && i < int64(p.Min) {
		return false
	}
	if p.Max != 0 && i > int64(p.Max) {
		return false
	}
	return true
}

type Prefix struct {
	ID    int    `json:"id"`
	Str   string `json:"str"`
	Ids   []int  `json:"ids"`   // items whose ref text starts with Str
	Exact bool   `json:"exact"` // Str is a complete, well-formed blobref
}

// TItem is a world item plus the harness's own facts about it.
type TItem struct {
	world.Item
	Vid   int    `json:"vid"`   // value id of this item's ref when used as an attribute value (RefVidBase + id)
	FSize int    `json:"fsize"` // file: sum of the parts
	Whole int    `json:"whole"` // file: class of its whole content (0 = not a file)
	Mime  string `json:"mime"`  // file: MIME type by design of the content / extension
	Blob  string `json:"blob"`  // the real bytes (not read by TLC)
}

const RefVidBase = 1000

// WorldFile is what both TLC (JsonDeserialize) and the driver read.
type WorldFile struct {
	Name      string   `json:"name"`
	Items     []TItem  `json:"items"`
	Values    []string `json:"values"`
	Attrs     []string `json:"attrs"`
	EdgeAttrs []string `json:"edgeattrs"` // attributes that are relation edges by default (camliMember, camliPath:*)
	SPreds    []SPred  `json:"spreds"`
	IPreds    []IPred  `json:"ipreds"`
	Prefixes  []Prefix `json:"prefixes"`
	Wholes    []string `json:"wholes"` // whole class (1-based) -> ref text
	HideVid   int      `json:"hideVid"`
	VenueVid  int      `json:"venueVid"`
	Times     []int    `json:"times"`
	Menu      [][]Node `json:"menu"`
	Repeats   bool     `json:"repeats"` // some attribute value is set / added more than once
	OwnerKey  string   `json:"ownerKey"`
	OwnerRef  string   `json:"ownerRef"`
}

func loadWorld(path string) (*WorldFile, error) {
	data, err := os.ReadFile(path)
	if err != nil {
		return nil, err
	}
	wf := &WorldFile{}
	if err := json.Unmarshal(data, wf); err != nil {
		return nil, err
	}
	return wf, nil
}

func (wf *WorldFile) built() *world.Built {
	w := &world.World{Values: wf.Values}
	b := &world.Built{W: w, Blobs: map[int][]byte{}, Refs: map[int]blob.Ref{}, ByRef: map[blob.Ref]int{}}
	for _, it := range wf.Items {
		w.Items = append(w.Items, it.Item)
		br := blob.MustParse(it.Ref)
		b.Blobs[it.ID] = []byte(it.Blob)
		b.Refs[it.ID] = br
		b.ByRef[br] = it.ID
	}
	return b
}

func (wf *WorldFile) valueString(vid int) string {
	if vid > RefVidBase {
		return wf.Items[vid-RefVidBase-1].Ref
	}
	return wf.Values[vid-1]
}

func (wf *WorldFile) strDef(id int) StrDef {
	var d StrDef
	if err := json.Unmarshal([]byte(wf.SPreds[id-1].Def), &d); err != nil {
		panic(err)
	}
	return d
}

func tm(sec int) time.Time { return world.Epoch.Add(time.Duration(sec) * time.Second) }

func timeC(hasB bool, b int, hasA bool, a int) *search.TimeConstraint {
	tc := &search.TimeConstraint{}
	if hasB {
		tc.Before = types.Time3339(tm(b))
	}
	if hasA {
		tc.After = types.Time3339(tm(a))
	}
	return tc
}

func intC(lo, hi int, zmax bool) *search.IntConstraint {
	return &search.IntConstraint{Min: int64(lo), Max: int64(hi), ZeroMax: zmax}
}

// toConstraint converts node i (1-based) of the tree into a fresh real constraint.
func (wf *WorldFile) toConstraint(tr []Node, i int) (*search.Constraint, error) {
	if i < 1 || i > len(tr) {
		return nil, fmt.Errorf("node index %d out of range", i)
	}
	n := tr[i-1]
	switch n.K {
	case "any":
		return &search.Constraint{Anything: true}, nil
	case "type":
		return &search.Constraint{CamliType: schema.CamliType(n.S)}, nil
	case "anytype":
		return &search.Constraint{AnyCamliType: true}, nil
	case "prefix":
		return &search.Constraint{BlobRefPrefix: wf.Prefixes[n.P-1].Str}, nil
	case "size":
		return &search.Constraint{BlobSize: intC(n.Lo, n.Hi, false)}, nil
	case "and", "or", "xor", "not":
		a, err := wf.toConstraint(tr, n.A)
		if err != nil {
			return nil, err
		}
		lc := &search.LogicalConstraint{Op: n.K, A: a}
		if n.K != "not" {
			if lc.B, err = wf.toConstraint(tr, n.B); err != nil {
				return nil, err
			}
		}
		return &search.Constraint{Logical: lc}, nil
	case "pn":
		pc := &search.PermanodeConstraint{Attr: n.S, SkipHidden: n.Hid, ValueAll: n.All}
		if n.V != 0 {
			pc.Value = wf.valueString(n.V)
		}
		if n.SP != 0 {
			pc.ValueMatches = wf.strDef(n.SP).real()
		}
		if n.IP != 0 {
			ip := wf.IPreds[n.IP-1]
			pc.ValueMatchesInt = &search.IntConstraint{Min: int64(ip.Min), Max: int64(ip.Max)}
		}
		if n.Lo != 0 || n.Hi != 0 || n.ZMax {
			pc.NumValue = intC(n.Lo, n.Hi, n.ZMax)
		}
		if n.A != 0 {
			sub, err := wf.toConstraint(tr, n.A)
			if err != nil {
				return nil, err
			}
			pc.ValueInSet = sub
		}
		if n.HasAt {
			pc.At = tm(n.At)
		}
		if n.HasMtb || n.HasMta {
			pc.ModTime = timeC(n.HasMtb, n.Mtb, n.HasMta, n.Mta)
		}
		if n.HasTb || n.HasTa {
			pc.Time = timeC(n.HasTb, n.Tb, n.HasTa, n.Ta)
		}
		if n.Rel != "" {
			sub, err := wf.toConstraint(tr, n.B)
			if err != nil {
				return nil, err
			}
			rc := &search.RelationConstraint{Relation: n.Rel, EdgeType: n.Edge}
			if n.RelAny {
				rc.Any = sub
			} else {
				rc.All = sub
			}
			pc.Relation = rc
		}
		return &search.Constraint{Permanode: pc}, nil
	case "file":
		fc := &search.FileConstraint{}
		if n.SP != 0 {
			fc.FileName = wf.strDef(n.SP).real()
		}
		if n.MP != 0 {
			fc.MIMEType = wf.strDef(n.MP).real()
		}
		if n.Lo != 0 || n.Hi != 0 {
			fc.FileSize = intC(n.Lo, n.Hi, false)
		}
		if n.Wh != 0 {
			fc.WholeRef = blob.MustParse(wf.Wholes[n.Wh-1])
		}
		if n.A != 0 {
			dc, err := wf.toDir(tr, n.A)
			if err != nil {
				return nil, err
			}
			fc.ParentDir = dc
		}
		return &search.Constraint{File: fc}, nil
	case "dir":
		dc, err := wf.toDir(tr, i)
		if err != nil {
			return nil, err
		}
		return &search.Constraint{Dir: dc}, nil
	}
	return nil, fmt.Errorf("unknown node kind %q", n.K)
}

func (wf *WorldFile) toDir(tr []Node, i int) (*search.DirConstraint, error) {
	if i < 1 || i > len(tr) || tr[i-1].K != "dir" {
		return nil, fmt.Errorf("node %d is not a dir node", i)
	}
	n := tr[i-1]
	dc := &search.DirConstraint{}
	if n.SP != 0 {
		dc.FileName = wf.strDef(n.SP).real()
	}
	if n.P != 0 {
		dc.BlobRefPrefix = wf.Prefixes[n.P-1].Str
	}
	if n.Lo != 0 || n.Hi != 0 || n.ZMax {
		dc.TopFileCount = intC(n.Lo, n.Hi, n.ZMax)
	}
	if n.A != 0 {
		p, err := wf.toDir(tr, n.A)
		if err != nil {
			return nil, err
		}
		dc.ParentDir = p
	}
	if n.B != 0 {
		sub, err := wf.toConstraint(tr, n.B)
		if err != nil {
			return nil, err
		}
		if n.Rec {
			dc.RecursiveContains = sub
		} else {
			dc.Contains = sub
		}
	}
	return dc, nil
}

var sortTypes = map[string]search.SortType{
	"unspecified": search.UnspecifiedSort,
	"unsorted":    search.Unsorted,
	"blobref":     search.BlobRefAsc,
	"created":     search.CreatedDesc,
	"createdAsc":  search.CreatedAsc,
	"lastmod":     search.LastModifiedDesc,
	"lastmodAsc":  search.LastModifiedAsc,
}

// outsideClassic reports whether the tree uses parts of the fragment that the handler
// does not implement, or implements with another meaning, without an in-memory corpus:
// At (panics), Time (panics), wholeRef (never matches), skipHidden (ignored), modTime
// (the describe path only looks at the owner's claims).
func outsideClassic(tr []Node) bool {
	for _, n := range tr {
		if n.HasAt || n.HasTb || n.HasTa || n.Wh != 0 || n.Hid || n.HasMtb || n.HasMta {
			return true
		}
	}
	return false
}
