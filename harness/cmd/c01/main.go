// c01 replays abstract storage histories (TLC-generated or random) on a real
// perkeep storage configuration and records the projected replies as an
// ndjson trace for Trace_BlobStore.tla.
package main

import (
	"bufio"
	"bytes"
	"context"
	"encoding/json"
	"flag"
	"fmt"
	"io"
	"log"
	"math/rand"
	"os"

	"perkeep.org/pkg/blob"
	"perkeep.org/pkg/blobserver"

	"verif/drv"
	"verif/gate"
	"verif/stores"
	"verif/univ"
)

func main() {
	cfgS := flag.String("cfg", "memory", "storage configuration")
	histF := flag.String("hist", "", "file of histories (one JSON array of ops per line)")
	out := flag.String("out", "trace.ndjson", "trace output")
	n := flag.Int("n", 4, "universe size")
	seed := flag.Int64("seed", 1, "seed")
	observe := flag.Bool("observe", false, "full observation after every mutator")
	scratch := flag.String("scratch", "", "scratch directory for on-disk stores")
	random := flag.Int("random", 0, "generate this many random histories instead of reading -hist")
	rlen := flag.Int("rlen", 40, "length of random histories")
	verbose := flag.Bool("v", false, "perkeep logs to stderr")
	univKind := flag.String("univ", "std", "universe: std | packable (the file schema blob describes a file made of the big blob: blobpacked packs them)")
	flag.Parse()
	if !*verbose {
		log.SetOutput(io.Discard)
	}
	cfg, err := stores.Parse(*cfgS)
	if err != nil {
		fatal(err)
	}
	if *scratch == "" {
		d, err := os.MkdirTemp("", "verif-c01-")
		if err != nil {
			fatal(err)
		}
		defer os.RemoveAll(d)
		*scratch = d
	}
	lg, err := gate.NewFileLog(*out)
	if err != nil {
		fatal(err)
	}
	var hists [][]drv.Op
	if *random > 0 {
		rng := rand.New(rand.NewSource(*seed))
		for i := 0; i < *random; i++ {
			hists = append(hists, randomHist(rng, *n, *rlen))
		}
	} else {
		f, err := os.Open(*histF)
		if err != nil {
			fatal(err)
		}
		sc := bufio.NewScanner(f)
		sc.Buffer(make([]byte, 1<<20), 1<<26)
		for sc.Scan() {
			var h []drv.Op
			if err := json.Unmarshal(sc.Bytes(), &h); err != nil {
				fatal(fmt.Errorf("bad history line: %v", err))
			}
			hists = append(hists, h)
		}
		f.Close()
	}
	u := univ.Standard(*n, *seed)
	if *univKind == "packable" {
		u = univ.Packable(*n, *seed)
	}
	if *univKind == "packable" && *random > 0 {
		// every history starts by storing the file (big chunk, then its schema blob: the store packs them) and a random
		// subset of the other blobs, pages through everything with small limits from every cursor, and goes on at random
		prng := rand.New(rand.NewSource(*seed + 77))
		bigRk, fileRk := 0, 0
		for _, b := range u.Blobs {
			if b.Kind == "big" {
				bigRk = b.Rank
			}
			if b.Kind == "schema" && bytes.Contains(b.Data, []byte(`"camliType": "file"`)) {
				fileRk = b.Rank
			}
		}
		for hi := range hists {
			pre := []drv.Op{{Op: "receive", B: bigRk}, {Op: "receive", B: fileRk}}
			for _, b := range u.Blobs {
				if b.Rank != bigRk && b.Rank != fileRk && prng.Intn(2) == 0 {
					pre = append(pre, drv.Op{Op: "receive", B: b.Rank})
				}
			}
			if prng.Intn(3) == 0 {
				pre[0], pre[1] = pre[1], pre[0] // schema first: nothing to pack until a later receive of the schema
			}
			for lim := 1; lim <= 3; lim++ {
				for a := 0; a <= 2*len(u.Blobs)+1; a++ {
					pre = append(pre, drv.Op{Op: "enum", After: a, Limit: lim, Form: prng.Intn(6)})
				}
			}
			hists[hi] = append(pre, hists[hi]...)
		}
	}
	for hi, h := range hists {
		if err := runHist(cfg, u, hi, h, lg, *scratch, *observe); err != nil {
			fatal(err)
		}
	}
	if err := lg.Close(); err != nil {
		fatal(err)
	}
	fmt.Printf("histories=%d events=%d\n", len(hists), lg.Len())
}

func fatal(err error) {
	fmt.Fprintln(os.Stderr, "c01:", err)
	os.Exit(2)
}

func randomHist(rng *rand.Rand, n, ln int) []drv.Op {
	var h []drv.Op
	rk := func() int { return 2 * (1 + rng.Intn(n)) }
	set := func() []int {
		var s []int
		for i := 1; i <= n; i++ {
			if rng.Intn(3) == 0 {
				s = append(s, 2*i)
			}
		}
		if len(s) == 0 {
			s = []int{rk()}
		}
		return s
	}
	for i := 0; i < ln; i++ {
		switch x := rng.Intn(10); {
		case x < 3:
			h = append(h, drv.Op{Op: "receive", B: rk(), Src: rng.Intn(3)})
		case x < 4:
			h = append(h, drv.Op{Op: "fetch", B: rk()})
		case x < 5:
			h = append(h, drv.Op{Op: "subfetch", B: rk(), Off: rng.Intn(7), Len: rng.Intn(7)})
		case x < 6:
			h = append(h, drv.Op{Op: "stat", Bs: set()})
		case x < 8:
			h = append(h, drv.Op{Op: "enum", After: rng.Intn(2*n + 3), Limit: 1 + rng.Intn(n+1), Form: rng.Intn(6)})
		default:
			h = append(h, drv.Op{Op: "remove", Bs: set()})
		}
	}
	return h
}

func runHist(cfg *stores.Cfg, u *univ.Universe, hi int, h []drv.Op, lg *gate.Log, scratch string, observe bool) error {
	dir, err := os.MkdirTemp(scratch, "h")
	if err != nil {
		return err
	}
	defer os.RemoveAll(dir)
	env := &stores.Env{P: gate.NewPlan(), L: nil, D: stores.NewDurable(dir), Rank: u.RankAny}
	sys, err := stores.Build(cfg, env)
	if err != nil {
		return fmt.Errorf("build %s: %v", cfg, err)
	}
	defer sys.Close()
	_, hasSub := sys.Sto.(blob.SubFetcher)
	sub := "no"
	if hasSub {
		sub = "yes"
		if cfg.Type == "proxycache" {
			sub = "maybe"
		}
	}
	r := &drv.Runner{U: u, Sto: sys.Sto, Caps: drv.Caps{CanRemove: sys.CanRemove, ReadOnly: sys.ReadOnly, SubFetch: sub}}
	reset := r.ResetEvent(cfg.String())
	reset["h"] = hi
	pre := []any{}
	if sys.ReadOnly {
		// read-only unions are pre-populated, with overlaps between the subsets
		i := 0
		seen := map[int]bool{}
		for _, name := range sortedGateNames(sys) {
			g := sys.Gates[name]
			for j, b := range u.Blobs {
				if (j+i)%2 == 0 || j == 0 {
					g.B.Put(b.Ref, b.Data)
				}
			}
			i++
		}
		for _, name := range sortedGateNames(sys) {
			for _, br := range sys.Gates[name].B.Refs() {
				seen[u.RankOf(br)] = true
			}
		}
		// subsets that are real stores (localdisk, ...) are filled through their own ReceiveBlob
		for k := 0; ; k++ {
			name := fmt.Sprintf("r/%d", k)
			node, ok := sys.Nodes[name]
			if !ok {
				break
			}
			if _, isGate := sys.Gates[name]; isGate {
				continue
			}
			for j, b := range u.Blobs {
				if (j+k)%2 == 0 || j == 0 {
					if _, err := blobserver.Receive(context.Background(), node, b.Ref, bytes.NewReader(b.Data)); err != nil {
						return fmt.Errorf("pre-populating %s of %s: %v", name, cfg, err)
					}
					seen[b.Rank] = true
				}
			}
		}
		for _, b := range u.Blobs {
			if seen[b.Rank] {
				pre = append(pre, b.Rank)
			}
		}
	}
	// pre=all|half: blobs already in the first child (overlay: lower layer, proxycache: origin) before
	// the history starts; hide=all: blobs put into a namespace's master behind its back (must stay invisible).
	if pp := cfg.Opt["pre"] + cfg.Opt["hide"]; pp != "" {
		node := sys.Nodes["r/0"]
		for j, b := range u.Blobs {
			if pp == "all" || j%2 == 0 {
				if _, err := blobserver.Receive(context.Background(), node, b.Ref, bytes.NewReader(b.Data)); err != nil {
					return fmt.Errorf("pre-populating %s: %v", cfg, err)
				}
				if cfg.Opt["pre"] != "" {
					pre = append(pre, b.Rank)
				}
			}
		}
	}
	reset["pre"] = pre
	lg.Emit(reset)
	emit := func(ev gate.Event) { lg.Emit(ev) }
	if sys.ReadOnly && observe {
		r.Observe(emit, hasSub)
	}
	for _, op := range h {
		ev := r.Do(op)
		emit(ev)
		if ev["res"] == "hang" || ev["res"] == "panic" {
			break
		}
		if observe && (op.Op == "receive" || op.Op == "remove") {
			r.Observe(emit, hasSub)
		}
	}
	return nil
}

func sortedGateNames(sys *stores.Sys) []string {
	var names []string
	for k := range sys.Gates {
		names = append(names, k)
	}
	for i := range names {
		for j := i + 1; j < len(names); j++ {
			if names[j] < names[i] {
				names[i], names[j] = names[j], names[i]
			}
		}
	}
	return names
}
