// c13 sweeps single lower-layer faults over storage histories: for every
// lower-layer call k of a fault-free run, the history is re-run with a fault
// injected at call k, then continued with healthy operations, observed,
// rebuilt by the store's own recovery procedure and observed again.
// Events go to Trace_BlobStoreFault.tla.
package main

import (
	"bufio"
	"encoding/json"
	"flag"
	"fmt"
	"io"
	"log"
	"math/rand"
	"os"
	"strings"

	"perkeep.org/pkg/blob"

	"verif/drv"
	"verif/gate"
	"verif/stores"
	"verif/univ"
)

func fatal(err error) {
	fmt.Fprintln(os.Stderr, "c13:", err)
	os.Exit(2)
}

type run struct {
	H     int    `json:"h"`
	K     int    `json:"k"`
	Kind  string `json:"kind"`
	Call  string `json:"call"`
	Burst []int  `json:"burst,omitempty"`
}

func main() {
	cfgS := flag.String("cfg", "memory", "storage configuration")
	histF := flag.String("hist", "", "histories (JSON lines)")
	out := flag.String("out", "trace.ndjson", "trace output")
	seed := flag.Int64("seed", 1, "seed")
	start := flag.Int("start", 0, "first run index (restart after a crash)")
	count := flag.Int("count", 0, "at most this many runs in this process (0 = all); the caller continues with -start")
	only := flag.String("only", "", "run only this JSON-encoded run {h,k,kind} (replay)")
	bursts := flag.Int("bursts", 0, "additional random multi-fault runs per history")
	scratch := flag.String("scratch", "", "scratch dir")
	progress := flag.String("progress", "", "file that receives the index of the run in progress")
	flag.Parse()
	log.SetOutput(io.Discard)
	cfg, err := stores.Parse(*cfgS)
	if err != nil {
		fatal(err)
	}
	if *scratch == "" {
		d, err := os.MkdirTemp("", "verif-c13-")
		if err != nil {
			fatal(err)
		}
		defer os.RemoveAll(d)
		*scratch = d
	}
	var hists [][]drv.Op
	f, err := os.Open(*histF)
	if err != nil {
		fatal(err)
	}
	sc := bufio.NewScanner(f)
	sc.Buffer(make([]byte, 1<<20), 1<<26)
	for sc.Scan() {
		var h []drv.Op
		if err := json.Unmarshal(sc.Bytes(), &h); err != nil {
			fatal(err)
		}
		hists = append(hists, h)
	}
	f.Close()
	u := univ.Standard(4, *seed)
	flags := os.O_CREATE | os.O_WRONLY | os.O_APPEND
	of, err := os.OpenFile(*out, flags, 0600)
	if err != nil {
		fatal(err)
	}
	w := bufio.NewWriterSize(of, 1<<20)
	emitTo := func(evs []gate.Event) {
		for _, ev := range evs {
			b, _ := json.Marshal(ev)
			w.Write(b)
			w.WriteByte('\n')
		}
		w.Flush()
	}
	// plan the runs
	var runs []run
	if *only != "" {
		var r run
		if err := json.Unmarshal([]byte(*only), &r); err != nil {
			fatal(err)
		}
		runs = []run{r}
	} else {
		rng := rand.New(rand.NewSource(*seed))
		for hi, h := range hists {
			seq, err := dryRun(cfg, u, h, *scratch)
			if err != nil {
				fatal(fmt.Errorf("dry run %s h=%d: %v", cfg, hi, err))
			}
			for k, c := range seq {
				kinds := []string{"error"}
				switch {
				case strings.HasSuffix(c, ".ReceiveBlob"):
					kinds = append(kinds, "after")
				case strings.HasSuffix(c, ".Set"), strings.HasSuffix(c, ".CommitBatch"), strings.HasSuffix(c, ".Delete"), strings.HasSuffix(c, ".RemoveBlobs"):
					kinds = append(kinds, "after")
				case strings.HasSuffix(c, ".Write"):
					kinds = append(kinds, "short")
				}
				for _, kd := range kinds {
					runs = append(runs, run{H: hi, K: k + 1, Kind: kd, Call: c})
				}
			}
			for b := 0; b < *bursts && len(seq) > 2; b++ {
				k0 := 1 + rng.Intn(len(seq))
				var burst []int
				for j := 0; j < 2+rng.Intn(3); j++ {
					burst = append(burst, k0+j+rng.Intn(2)*rng.Intn(4))
				}
				runs = append(runs, run{H: hi, K: k0, Kind: "error", Call: "burst", Burst: burst})
			}
		}
	}
	n := 0
	for ri := *start; ri < len(runs) && (*count == 0 || ri < *start+*count); ri++ {
		if *progress != "" {
			os.WriteFile(*progress, []byte(fmt.Sprintf("%d %s\n", ri, mustJSON(runs[ri]))), 0600)
		}
		evs, err := faultRun(cfg, u, hists[runs[ri].H], runs[ri], ri, *scratch)
		if err != nil {
			fatal(fmt.Errorf("run %d %+v: %v", ri, runs[ri], err))
		}
		emitTo(evs)
		n++
	}
	of.Close()
	fmt.Printf("runs=%d total=%d\n", n, len(runs))
}

func mustJSON(v any) string {
	b, _ := json.Marshal(v)
	return string(b)
}

func caps(sys *stores.Sys, cfg *stores.Cfg) drv.Caps {
	_, hasSub := sys.Sto.(blob.SubFetcher)
	sub := "no"
	if hasSub {
		sub = "yes"
		if cfg.Type == "proxycache" {
			sub = "maybe"
		}
	}
	return drv.Caps{CanRemove: sys.CanRemove, ReadOnly: sys.ReadOnly, SubFetch: sub}
}

func prepop(sys *stores.Sys, u *univ.Universe) []any {
	pre := []any{}
	if !sys.ReadOnly {
		return pre
	}
	names := []string{}
	for k := range sys.Gates {
		names = append(names, k)
	}
	for i := range names {
		for j := i + 1; j < len(names); j++ {
			if names[j] < names[i] {
				names[i], names[j] = names[j], names[i]
			}
		}
	}
	seen := map[int]bool{}
	for i, name := range names {
		for j, b := range u.Blobs {
			if (j+i)%2 == 0 || j == 0 {
				sys.Gates[name].B.Put(b.Ref, b.Data)
				seen[b.Rank] = true
			}
		}
	}
	for _, b := range u.Blobs {
		if seen[b.Rank] {
			pre = append(pre, b.Rank)
		}
	}
	return pre
}

// dryRun executes the history without faults and returns the lower-layer call sequence.
func dryRun(cfg *stores.Cfg, u *univ.Universe, h []drv.Op, scratch string) ([]string, error) {
	dir, err := os.MkdirTemp(scratch, "d")
	if err != nil {
		return nil, err
	}
	defer os.RemoveAll(dir)
	plan := gate.NewPlan()
	env := &stores.Env{P: plan, D: stores.NewDurable(dir), Rank: u.RankAny}
	sys, err := stores.Build(cfg, env)
	if err != nil {
		return nil, err
	}
	defer sys.Close()
	prepop(sys, u)
	plan.RecordSeq = true
	r := &drv.Runner{U: u, Sto: sys.Sto, Caps: caps(sys, cfg)}
	for _, op := range h {
		r.Do(op)
	}
	return plan.Seq(), nil
}

func compactObserve(r *drv.Runner, emit func(gate.Event), sub bool) {
	var all []int
	for _, b := range r.U.Blobs {
		all = append(all, b.Rank)
	}
	emit(r.Do(drv.Op{Op: "stat", Bs: all}))
	for _, b := range r.U.Blobs {
		emit(r.Do(drv.Op{Op: "fetch", B: b.Rank}))
	}
	emit(r.Do(drv.Op{Op: "enum", After: 0, Limit: len(all) + 2}))
	emit(r.Do(drv.Op{Op: "enum", After: 3, Limit: 1}))
	emit(r.Do(drv.Op{Op: "enum", After: 4, Limit: 2}))
	if sub {
		emit(r.Do(drv.Op{Op: "subfetch", B: r.U.Blobs[1].Rank, Off: 1, Len: 3}))
	}
}

func faultRun(cfg *stores.Cfg, u *univ.Universe, h []drv.Op, rn run, ri int, scratch string) ([]gate.Event, error) {
	dir, err := os.MkdirTemp(scratch, "f")
	if err != nil {
		return nil, err
	}
	defer os.RemoveAll(dir)
	plan := gate.NewPlan()
	dur := stores.NewDurable(dir)
	env := &stores.Env{P: plan, D: dur, Rank: u.RankAny}
	sys, err := stores.Build(cfg, env)
	if err != nil {
		return nil, err
	}
	pre := prepop(sys, u)
	base := plan.Calls()
	if len(rn.Burst) > 0 {
		for _, k := range rn.Burst {
			plan.Faults = append(plan.Faults, &gate.Fault{N: base + k, Kind: "error"})
		}
	} else {
		plan.Faults = []*gate.Fault{{N: base + rn.K, Kind: rn.Kind}}
	}
	cp := caps(sys, cfg)
	r := &drv.Runner{U: u, Sto: sys.Sto, Caps: cp}
	var evs []gate.Event
	reset := r.ResetEvent(cfg.String())
	reset["h"] = rn.H
	reset["run"] = ri
	reset["fault"] = map[string]any{"k": rn.K, "kind": rn.Kind, "call": rn.Call}
	reset["pre"] = pre
	evs = append(evs, reset)
	emit := func(ev gate.Event) {
		if _, ok := ev["flt"]; !ok {
			ev["flt"] = false
		}
		evs = append(evs, ev)
	}
	dead := false
	for _, op := range h {
		before := plan.HitCount()
		ev := r.Do(op)
		ev["flt"] = plan.HitCount() > before
		if ev["flt"] == true {
			hc := plan.HitCalls()
			ev["fcall"] = hc[len(hc)-1]
		}
		emit(ev)
		if ev["res"] == "hang" || ev["res"] == "panic" {
			dead = true
			break
		}
		if ev["flt"] == true {
			// while the observation runs, later faults of a burst must not fire unnoticed
			ob := plan.HitCount()
			compactObserve(r, func(e gate.Event) {
				e["flt"] = plan.HitCount() > ob
				if e["flt"] == true {
					hc := plan.HitCalls()
					e["fcall"] = hc[len(hc)-1]
				}
				ob = plan.HitCount()
				emit(e)
			}, cp.SubFetch == "yes")
		}
	}
	if dead {
		sys.Close()
		return evs, nil
	}
	plan.Faults = nil
	compactObserve(r, emit, cp.SubFetch == "yes")
	sys.Close()
	if strings.Contains(cfg.String(), "memory") {
		return evs, nil // nothing durable to recover from
	}
	// recovery: rebuild every store from its primary data
	env2 := &stores.Env{P: gate.NewPlan(), D: dur, Rank: u.RankAny, Recover: true}
	sys2, err := stores.Build(cfg, env2)
	if err != nil {
		if strings.Contains(err.Error(), "RECOVERY-FAILED") {
			emit(gate.Event{"ev": "recover", "res": "failed", "detail": err.Error()})
			return evs, nil
		}
		return nil, fmt.Errorf("rebuild: %v", err)
	}
	emit(gate.Event{"ev": "recover", "res": "ok"})
	r2 := &drv.Runner{U: u, Sto: sys2.Sto, Caps: cp}
	compactObserve(r2, emit, cp.SubFetch == "yes")
	// and it keeps working
	emit(r2.Do(drv.Op{Op: "receive", B: u.Blobs[2].Rank}))
	emit(r2.Do(drv.Op{Op: "fetch", B: u.Blobs[2].Rank}))
	sys2.Close()
	return evs, nil
}
