// c20 runs the exported functions of perkeep.org/pkg/blob on strings, abstract ref pairs and byte
// contents (TLC-generated or seeded random) and records what they answered, as an ndjson trace for
// Trace_BlobRef.tla.  It never decides what the answer should have been: characters are logged as
// byte values, answers as "t"/"f"/"p" (p = the call panicked inside perkeep; recovered per call so one
// panic does not hide the others; the site is logged in the "panic" field).
package main

import (
	"bufio"
	"bytes"
	"crypto/sha1"
	"crypto/sha256"
	"encoding/hex"
	"encoding/json"
	"flag"
	"fmt"
	"hash"
	"math/rand"
	"os"
	"reflect"
	"runtime"
	"strings"

	"perkeep.org/pkg/blob"
)

type ev map[string]any

var (
	w       *bufio.Writer
	ws      []*bufio.Writer // -split: line i of the run goes to chunk i mod len(ws)
	nev     int
	npanic  int
	nanswer int
)

func emit(e ev) {
	b, err := json.Marshal(e)
	if err != nil {
		fatal(err)
	}
	o := w
	if len(ws) > 0 {
		o = ws[nev%len(ws)]
	}
	o.Write(b)
	o.WriteByte('\n')
	nev++
	if p, ok := e["probes"].([][]int); ok {
		if e["ev"] == "str" {
			nanswer += 15 + 2*len(p)
		} else {
			nanswer += 13 + len(p)
		}
	} else {
		nanswer += 8
	}
}

func fatal(err error) {
	fmt.Fprintln(os.Stderr, "c20:", err)
	os.Exit(3)
}

func ints(s string) []int {
	r := make([]int, len(s))
	for i := 0; i < len(s); i++ {
		r[i] = int(s[i])
	}
	return r
}

func fromInts(a []int) string {
	b := make([]byte, len(a))
	for i, v := range a {
		b[i] = byte(v)
	}
	return string(b)
}

func tf(b bool) string {
	if b {
		return "t"
	}
	return "f"
}

// panicSite is the first perkeep frame of the panicking stack.
func panicSite() string {
	pcs := make([]uintptr, 40)
	n := runtime.Callers(3, pcs)
	fr := runtime.CallersFrames(pcs[:n])
	for {
		f, more := fr.Next()
		if strings.HasPrefix(f.Function, "perkeep.org/") {
			return f.Function
		}
		if !more {
			return "?"
		}
	}
}

// try runs one observation; a panic inside perkeep is the observation "p".
func try(e ev, field string, f func() string) (res string) {
	defer func() {
		if r := recover(); r != nil {
			npanic++
			if _, dup := e["panic"]; !dup {
				e["panic"] = fmt.Sprintf("%s: %v @%s", field, r, panicSite())
			}
			res = "p"
		}
	}()
	return f()
}

func alt(c byte) byte {
	if c == '0' {
		return '1'
	}
	return '0'
}

// probesFor: every prefix (all lengths when short, a spread of lengths otherwise), the same with the
// last byte altered, the text extended by one digit, the text under a different name.
func probesFor(s string) []string {
	var ks []int
	if len(s) <= 16 {
		for k := 0; k <= len(s); k++ {
			ks = append(ks, k)
		}
	} else {
		d := strings.IndexByte(s, '-')
		for _, k := range []int{0, 1, d - 1, d, d + 1, d + 2, d + 3, d + 4, (d + len(s)) / 2, (d+len(s))/2 + 1, len(s) - 2, len(s) - 1, len(s)} {
			if k >= 0 && k <= len(s) {
				ks = append(ks, k)
			}
		}
	}
	seen := map[string]bool{}
	var out []string
	add := func(p string) {
		if !seen[p] {
			seen[p] = true
			out = append(out, p)
		}
	}
	for _, k := range ks {
		add(s[:k])
	}
	for _, k := range ks {
		if k > 0 {
			add(s[:k-1] + string(alt(s[k-1])))
		}
	}
	add(s + "0")
	add("b" + s)
	if len(s) > 0 {
		add(s[1:])
	}
	return out
}

func obsString(s string) ev {
	e := ev{"ev": "str", "s": ints(s)}
	o := map[string]string{}
	var r, rk, rb blob.Ref
	var ok, okk, okb bool
	o["parse"] = try(e, "Parse", func() string { r, ok = blob.Parse(s); return tf(ok) })
	o["known"] = try(e, "ParseKnown", func() string { rk, okk = blob.ParseKnown(s); return tf(okk) })
	o["bytes"] = try(e, "ParseBytes", func() string { rb, okb = blob.ParseBytes([]byte(s)); return tf(okb) })
	o["orzero"] = try(e, "ParseOrZero", func() string { return tf(blob.ParseOrZero(s).Valid()) })
	o["valid"] = try(e, "ValidRefString", func() string { return tf(blob.ValidRefString(s)) })
	var rj blob.Ref
	o["ujson"] = try(e, "UnmarshalJSON", func() string { return tf(rj.UnmarshalJSON([]byte(`"`+s+`"`)) == nil && rj.Valid()) })
	for _, f := range []string{"str", "strb", "mjson", "ujsoneq", "bin", "parts", "sup", "eq", "knowneq"} {
		o[f] = "na"
	}
	probes := [][]int{}
	hp := []string{}
	eqp := []string{}
	if ok && r.Valid() {
		o["str"] = try(e, "String", func() string { return tf(r.String() == s) })
		if okb {
			o["strb"] = try(e, "ParseBytes==", func() string { return tf(rb == r && rb.String() == s) })
		} else {
			o["strb"] = "f"
		}
		o["mjson"] = try(e, "MarshalJSON", func() string {
			b, err := r.MarshalJSON()
			b2, err2 := json.Marshal(r)
			return tf(err == nil && err2 == nil && string(b) == `"`+s+`"` && string(b2) == string(b))
		})
		o["ujsoneq"] = try(e, "UnmarshalJSON==", func() string {
			var r2 blob.Ref
			b, _ := json.Marshal(r)
			if err := json.Unmarshal(b, &r2); err != nil {
				return "f"
			}
			return tf(r2 == r && rj == r)
		})
		o["bin"] = try(e, "MarshalBinary", func() string {
			b, err := r.MarshalBinary()
			if err != nil {
				return "f"
			}
			var r2 blob.Ref
			if err := r2.UnmarshalBinary(b); err != nil {
				return "f"
			}
			// the encoding belongs to the caller: other operations on refs (which share pooled buffers) must not
			// change it before it is decoded or stored
			keep := append([]byte(nil), b...)
			for _, other := range decoys {
				_ = other.String()
				_ = other.Digest()
				_, _ = other.MarshalBinary()
			}
			var r3 blob.Ref
			if !bytes.Equal(keep, b) || r3.UnmarshalBinary(b) != nil || r3 != r {
				return "f"
			}
			return tf(r2 == r && r2.String() == s)
		})
		o["parts"] = try(e, "HashName/Digest", func() string { return tf(r.HashName()+"-"+r.Digest() == s) })
		o["sup"] = try(e, "IsSupported", func() string { return tf(r.IsSupported()) })
		o["eq"] = try(e, "EqualString", func() string { return tf(r.EqualString(s)) })
		if okk {
			o["knowneq"] = tf(rk == r)
		}
		for _, p := range probesFor(s) {
			p := p
			probes = append(probes, ints(p))
			hp = append(hp, try(e, "HasPrefix", func() string { return tf(r.HasPrefix(p)) }))
			eqp = append(eqp, try(e, "EqualString", func() string { return tf(r.EqualString(p)) }))
		}
	} else if okk {
		o["knowneq"] = "f"
	}
	e["obs"] = o
	e["probes"] = probes
	e["hp"] = hp
	e["eqp"] = eqp
	return e
}

// ---------------------------------------------------------------- pairs

type pairCase struct {
	Ha, Hb string
	Pos    string
	Va, Vb int
	Fill   int
	Tail   string
}

var digitsOf = map[string]int{"sha1": 40, "sha224": 56, "sha256": 64}

// decoys: refs of every supported hash, used to exercise the package's shared buffers between two uses of a value
var decoys = []blob.Ref{
	blob.RefFromString("decoy-1"),
	blob.MustParse("sha1-0beec7b5ea3f0fdbc95d0dd47f3c5bc275da8a33"),
	blob.MustParse("sha256-2c26b46b68ffc68ff99b453c1d30413413422d706483bfa0f98a5e886266e7ae"),
}

const hexd = "0123456789abcdef"

func concretise(c pairCase) (string, string, int) {
	la, lb := digitsOf[c.Ha], digitsOf[c.Hb]
	l := la
	if lb < l {
		l = lb
	}
	p := 0
	switch c.Pos {
	case "first":
		p = 1
	case "second":
		p = 2
	case "third":
		p = 3
	case "midhi":
		p = l/2 + 1 - (l/2)%2 // odd position: high nibble of a byte
		if p%2 == 0 {
			p++
		}
	case "midlo":
		p = l / 2
		if p%2 == 1 {
			p++
		}
	case "beforelast":
		p = l - 1
	case "last":
		p = l
	}
	mk := func(n int, v int, tailc byte) string {
		b := make([]byte, n)
		for i := range b {
			switch {
			case p == 0 || i+1 < p:
				b[i] = hexd[c.Fill]
			case i+1 == p:
				b[i] = hexd[v]
			default:
				b[i] = tailc
			}
		}
		return string(b)
	}
	ta, tb := hexd[c.Fill], hexd[c.Fill]
	switch c.Tail {
	case "alow":
		ta, tb = '0', 'f'
	case "ahigh":
		ta, tb = 'f', '0'
	}
	return c.Ha + "-" + mk(la, c.Va, ta), c.Hb + "-" + mk(lb, c.Vb, tb), p
}

func obsPair(ta, tb string, p int) ev {
	e := ev{"ev": "pair", "ta": ints(ta), "tb": ints(tb)}
	ra, oka := blob.Parse(ta)
	rb, okb := blob.Parse(tb)
	if !oka || !okb {
		e["ev"] = "pairfail"
		return e
	}
	var sa, sb string
	try(e, "String", func() string { sa, sb = ra.String(), rb.String(); return "" })
	e["a"], e["b"] = ints(sa), ints(sb)
	e["less"] = try(e, "Less", func() string { return tf(ra.Less(rb)) })
	e["gtr"] = try(e, "Less", func() string { return tf(rb.Less(ra)) })
	e["sless"] = try(e, "SizedRef.Less", func() string {
		return tf(blob.SizedRef{Ref: ra, Size: 2}.Less(blob.SizedRef{Ref: rb, Size: 1}))
	})
	e["tless"] = tf(sa < sb)
	e["eqr"] = tf(ra == rb)
	e["eqs"] = try(e, "EqualString", func() string { return tf(ra.EqualString(tb)) })
	var smo string
	try(e, "StringMinusOne", func() string { smo = ra.StringMinusOne(); return "" })
	e["smo"] = ints(smo)
	e["smoltb"] = tf(smo < sb)
	// prefixes of b's text tested against a
	d := strings.IndexByte(tb, '-')
	P := d + p // index (0-based) of the deciding digit in the text = d + 1 + (p-1)
	ks := []int{0, d - 1, d, d + 1, d + 2, d + 3, P - 1, P, P + 1, P + 2, len(tb) - 1, len(tb)}
	seen := map[int]bool{}
	probes := [][]int{}
	hp := []string{}
	for _, k := range ks {
		if k < 0 || k > len(tb) || seen[k] {
			continue
		}
		seen[k] = true
		pr := tb[:k]
		probes = append(probes, ints(pr))
		hp = append(hp, try(e, "HasPrefix", func() string { return tf(ra.HasPrefix(pr)) }))
	}
	da := strings.IndexByte(ta, '-')
	for _, pr := range []string{tb + "0", ta[:len(ta)-1] + "g", strings.ToUpper(ta), ta[:da+1] + strings.ToUpper(ta[da+1:])} {
		pr := pr
		probes = append(probes, ints(pr))
		hp = append(hp, try(e, "HasPrefix", func() string { return tf(ra.HasPrefix(pr)) }))
	}
	e["probes"] = probes
	e["hp"] = hp
	return e
}

// ---------------------------------------------------------------- digests

func obsHash(content []byte) ev {
	e := ev{"ev": "hash", "n": len(content)}
	ref := func(field string, f func() blob.Ref) {
		e[field] = []int{}
		try(e, field, func() string { e[field] = ints(f().String()); return "" })
	}
	s224 := sha256.Sum224(content)
	s1 := sha1.Sum(content)
	s256 := sha256.Sum256(content)
	e["want224"] = ints("sha224-" + hex.EncodeToString(s224[:]))
	e["want1"] = ints("sha1-" + hex.EncodeToString(s1[:]))
	e["want256"] = ints("sha256-" + hex.EncodeToString(s256[:]))
	ref("fromstring", func() blob.Ref { return blob.RefFromString(string(content)) })
	ref("frombytes", func() blob.Ref { return blob.RefFromBytes(content) })
	via := func(h hash.Hash) func() blob.Ref {
		return func() blob.Ref { h.Write(content); return blob.RefFromHash(h) }
	}
	ref("newhash", via(blob.NewHash()))
	ref("via1", via(sha1.New()))
	ref("via224", via(sha256.New224()))
	ref("via256", via(sha256.New()))
	// Ref.Hash() gives a hash of the ref's own type; HashMatches compares digests
	e["matches"] = try(e, "HashMatches", func() string {
		all := true
		for _, t := range []string{fromInts(e["want1"].([]int)), fromInts(e["want224"].([]int)), fromInts(e["want256"].([]int))} {
			r, ok := blob.Parse(t)
			if !ok {
				return "f"
			}
			h := r.Hash()
			h.Write(content)
			all = all && r.HashMatches(h)
			h2 := r.Hash()
			h2.Write(append([]byte("x"), content...))
			all = all && !r.HashMatches(h2)
			if nh, err := blob.NewHashOfType(r.HashName()); err != nil || reflect.TypeOf(nh) != reflect.TypeOf(h) || nh.Size() != h.Size() {
				all = false
			}
		}
		return tf(all)
	})
	return e
}

// ---------------------------------------------------------------- fuzz

func randHex(rng *rand.Rand, n int) string {
	b := make([]byte, n)
	for i := range b {
		b[i] = hexd[rng.Intn(16)]
	}
	return string(b)
}

func randFrom(rng *rand.Rand, alphabet string, n int) string {
	b := make([]byte, n)
	for i := range b {
		b[i] = alphabet[rng.Intn(len(alphabet))]
	}
	return string(b)
}

func mutate(rng *rand.Rand, s string) string {
	if len(s) == 0 {
		return "-"
	}
	i := rng.Intn(len(s))
	repl := "gA- F_z/0.:\x80\xffG"
	switch rng.Intn(8) {
	case 0:
		return s[:i] + string(repl[rng.Intn(len(repl))]) + s[i+1:]
	case 1:
		return s[:i] + s[i+1:]
	case 2:
		return s[:i] + string(hexd[rng.Intn(16)]) + s[i:]
	case 3:
		return s[:len(s)-1]
	case 4:
		return s + string(hexd[rng.Intn(16)])
	case 5:
		return strings.ToUpper(s[:i]) + s[i:]
	case 6:
		return s[:i] + strings.ToUpper(s[i:])
	default:
		return s[:i] + "-" + s[i:]
	}
}

func fuzzString(rng *rand.Rand) string {
	names := []string{"sha1", "sha224", "sha256"}
	switch rng.Intn(10) {
	case 0:
		return randFrom(rng, "abcdefghijklmnopqrstuvwxyz0123456789-AG_ ./", rng.Intn(13))
	case 1, 2:
		n := names[rng.Intn(3)]
		return n + "-" + randHex(rng, digitsOf[n])
	case 3, 4:
		n := names[rng.Intn(3)]
		return mutate(rng, n+"-"+randHex(rng, digitsOf[n]))
	case 5:
		// a supported name with the digit count of another one, or off by one or two
		n := names[rng.Intn(3)]
		ls := []int{40, 56, 64, 39, 41, 55, 57, 63, 65, 0, 1, 2, 128}
		return n + "-" + randHex(rng, ls[rng.Intn(len(ls))])
	case 6:
		nm := randFrom(rng, "abcdefghijklmnopqrstuvwxyz0123456789", 1+rng.Intn(8))
		ls := []int{1, 2, 3, 4, 7, 8, 40, 41, 128, 254, 255, 256, 257, 258, 259, 300}
		return nm + "-" + randHex(rng, ls[rng.Intn(len(ls))])
	case 7:
		nm := randFrom(rng, "abcdefghijklmnopqrstuvwxyz0123456789", 1+rng.Intn(8))
		return mutate(rng, nm+"-"+randHex(rng, 1+rng.Intn(12)))
	case 8:
		tn := []string{"perma", "fakeref", "testref", "sha512", "sha3", "md5", "sha", "sha2", "sha1x", "1sha", "s"}
		s := tn[rng.Intn(len(tn))] + "-" + randHex(rng, 1+rng.Intn(10))
		if rng.Intn(3) == 0 {
			s = mutate(rng, s)
		}
		return s
	default:
		odd := []string{"", "-", "--", "a-", "-a", "a--a", "sha1-", "sha224-", "-sha1", "sha1", "sha1--" + randHex(rng, 39),
			"sha1-" + randHex(rng, 19) + "-" + randHex(rng, 20), "a-b-c", "a-0-", "0-0", "é-00", "a-0\x00"}
		return odd[rng.Intn(len(odd))]
	}
}

func fuzzRefText(rng *rand.Rand, base string) string {
	names := []string{"sha1", "sha224", "sha256"}
	k := rng.Intn(10)
	switch {
	case k < 6:
		n := names[rng.Intn(3)]
		d := randHex(rng, digitsOf[n])
		if base != "" && rng.Intn(2) == 0 {
			// share a random-length prefix of the other ref's digits
			bd := base[strings.IndexByte(base, '-')+1:]
			c := rng.Intn(len(d) + 1)
			if c > len(bd) {
				c = len(bd)
			}
			d = bd[:c] + d[c:]
		}
		return n + "-" + d
	case k < 8:
		nm := []string{"sha", "sha2", "sha22", "sha1x", "s", "foo", "sha512"}[rng.Intn(7)]
		return nm + "-" + randHex(rng, 1+rng.Intn(9))
	default:
		if base != "" {
			return base
		}
		return "sha1-" + randHex(rng, 40)
	}
}

func main() {
	strF := flag.String("strings", "", "file of strings (one JSON object with field s = byte values per line)")
	pairF := flag.String("pairs", "", "file of abstract pair cases (one JSON object per line)")
	pairT := flag.String("pairtexts", "", "file of concrete pairs {ta, tb} (byte values), for replays")
	fuzz := flag.Int("fuzz", 0, "number of seeded random strings, pairs and contents")
	seed := flag.Int64("seed", 1, "seed")
	out := flag.String("out", "trace.ndjson", "trace output")
	split := flag.Int("split", 0, "write the trace round-robin into this many files <out>.<k> instead of <out>")
	flag.Parse()
	var files []*os.File
	mk := func(path string) *bufio.Writer {
		f, err := os.Create(path)
		if err != nil {
			fatal(err)
		}
		files = append(files, f)
		return bufio.NewWriterSize(f, 1<<20)
	}
	if *split > 0 {
		for k := 0; k < *split; k++ {
			ws = append(ws, mk(fmt.Sprintf("%s.%d", *out, k)))
		}
	} else {
		w = mk(*out)
	}
	each := func(path string, fn func([]byte)) {
		in, err := os.Open(path)
		if err != nil {
			fatal(err)
		}
		sc := bufio.NewScanner(in)
		sc.Buffer(make([]byte, 1<<20), 1<<26)
		for sc.Scan() {
			fn(sc.Bytes())
		}
		in.Close()
	}
	if *strF != "" {
		each(*strF, func(line []byte) {
			var x struct{ S []int }
			if err := json.Unmarshal(line, &x); err != nil {
				fatal(err)
			}
			emit(obsString(fromInts(x.S)))
		})
	}
	if *pairF != "" {
		each(*pairF, func(line []byte) {
			var c pairCase
			if err := json.Unmarshal(line, &c); err != nil {
				fatal(err)
			}
			ta, tb, p := concretise(c)
			e := obsPair(ta, tb, p)
			e["case"] = c
			emit(e)
		})
	}
	if *pairT != "" {
		each(*pairT, func(line []byte) {
			var x struct{ Ta, Tb []int }
			if err := json.Unmarshal(line, &x); err != nil {
				fatal(err)
			}
			emit(obsPair(fromInts(x.Ta), fromInts(x.Tb), 1))
		})
	}
	if *fuzz > 0 {
		rng := rand.New(rand.NewSource(*seed))
		for i := 0; i < *fuzz; i++ {
			emit(obsString(fuzzString(rng)))
		}
		for i := 0; i < *fuzz/2; i++ {
			a := fuzzRefText(rng, "")
			b := fuzzRefText(rng, a)
			e := obsPair(a, b, 1+rng.Intn(40))
			emit(e)
		}
		for i := 0; i < *fuzz/10+4; i++ {
			n := []int{0, 1, 2, 55, 56, 63, 64, 65, 1000, 70000}[rng.Intn(10)]
			if i == 0 {
				n = 0
			}
			c := make([]byte, n)
			rng.Read(c)
			emit(obsHash(c))
		}
	}
	for _, o := range append(ws, w) {
		if o != nil {
			o.Flush()
		}
	}
	for _, f := range files {
		f.Close()
	}
	fmt.Printf("events=%d panics=%d answers=%d\n", nev, npanic, nanswer)
}
