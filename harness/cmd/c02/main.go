// c02 executes ingest offers (TLC-enumerated or seeded random) on the real
// perkeep code: blobserver.Receive, the HTTP PUT and multipart upload
// handlers, stores that re-verify by themselves, cond -> Receive; over real
// backends. For every offer it logs what happened (outcome class, response,
// after-state of the backing store, hub notifications, lower-layer receives)
// as ndjson lines for Trace_Ingest.tla. It never computes an expected value.
package main

import (
	"bufio"
	"bytes"
	"context"
	"crypto/sha1"
	"crypto/sha256"
	"encoding/json"
	"errors"
	"flag"
	"fmt"
	"hash"
	"io"
	"log"
	"math/rand"
	"mime/multipart"
	"net/http"
	"net/http/httptest"
	"net/textproto"
	"os"
	"runtime"
	"strings"
	"sync"
	"time"

	"perkeep.org/pkg/blob"
	"perkeep.org/pkg/blobserver"
	"perkeep.org/pkg/blobserver/handlers"

	"verif/gate"
	"verif/stores"
)

const maxBlob = 16 << 20

type Offer struct {
	Path       string `json:"path"`
	Backend    string `json:"backend"`
	RefKind    string `json:"refKind"`
	SizeKind   string `json:"sizeKind"`
	BytesKind  string `json:"bytesKind"`
	ReaderKind string `json:"readerKind"`
}

var errMidStream = errors.New("verif: source failed mid-stream")

// ---------------------------------------------------------------- contents

type maker struct {
	base  []byte // up to maxBlob+2 pseudo-random bytes
	small int
	seed  int64
	refs  map[string]blob.Ref
}

func newMaker(seed int64, small int) *maker {
	return &maker{small: small, seed: seed, refs: map[string]blob.Ref{}}
}

func (m *maker) ensureBase(n int) {
	if len(m.base) >= n {
		return
	}
	if n < 1<<16 {
		n = 1 << 16
	} else {
		n = maxBlob + 2
	}
	b := make([]byte, n)
	rng := rand.New(rand.NewSource(m.seed*1000003 + 17))
	rng.Read(b)
	// make sure neighbouring bytes differ where mutations are applied
	for i := 0; i+1 < len(b) && i < 8; i++ {
		if b[i] == b[i+1] {
			b[i+1] ^= 0x55
		}
	}
	m.base = b
	m.refs = map[string]blob.Ref{}
}

func trueSize(sk string, small int) int {
	switch sk {
	case "s0":
		return 0
	case "s1":
		return 1
	case "small":
		return small
	case "maxm1":
		return maxBlob - 1
	case "max", "maxp1prefix":
		return maxBlob
	case "maxp1":
		return maxBlob + 1
	}
	panic("c02: unknown sizeKind " + sk)
}

func (m *maker) ref(refKind string, n int) blob.Ref {
	key := fmt.Sprintf("%s/%d", refKind, n)
	if r, ok := m.refs[key]; ok {
		return r
	}
	var h hash.Hash
	switch refKind {
	case "sha1":
		h = sha1.New()
	case "sha256":
		h = sha256.New()
	default:
		h = sha256.New224()
	}
	h.Write(m.base[:n])
	var r blob.Ref
	if refKind == "unknown" {
		var ok bool
		r, ok = blob.Parse(fmt.Sprintf("verifhash9-%x", h.Sum(nil)))
		if !ok {
			panic("c02: cannot build a ref of an unknown hash")
		}
	} else {
		r = blob.RefFromHash(h)
	}
	m.refs[key] = r
	return r
}

// build returns the ref the offer is made under and the offered bytes.
func (m *maker) build(o Offer) (blob.Ref, []byte) {
	ts := trueSize(o.SizeKind, m.small)
	m.ensureBase(ts + 1)
	ref := m.ref(o.RefKind, ts)
	t := m.base[:ts]
	switch o.BytesKind {
	case "exact":
		return ref, t
	case "truncated":
		return ref, t[:ts-1]
	case "extended":
		return ref, m.base[:ts+1]
	case "bitflip":
		c := append([]byte(nil), t...)
		c[ts/2] ^= 0x10
		return ref, c
	case "permuted":
		c := append([]byte(nil), t...)
		c[0], c[1] = c[1], c[0]
		return ref, c
	}
	panic("c02: unknown bytesKind " + o.BytesKind)
}

// ---------------------------------------------------------------- readers

// src delivers total bytes of r in the way readerKind says.
type src struct {
	r      io.Reader
	left   int64
	kind   string
	failAt int64 // error: fail when `left` has dropped to this
	fired  bool
	tail   int64 // onebyte: one-byte reads only for the last `tail` bytes of huge bodies
}

func newSrc(r io.Reader, total int64, kind string) *src {
	s := &src{r: r, left: total, kind: kind, tail: total}
	if total > 1<<20 {
		s.tail = 4096
	}
	if kind == "error" {
		s.failAt = total - total/2
	}
	return s
}

func (s *src) Read(p []byte) (int, error) {
	if len(p) == 0 {
		return 0, nil
	}
	switch s.kind {
	case "onebyte":
		if s.left <= s.tail {
			p = p[:1]
		} else if int64(len(p)) > s.left-s.tail {
			p = p[:s.left-s.tail]
		}
	case "error":
		if s.left <= s.failAt {
			s.fired = true
			return 0, errMidStream
		}
		if int64(len(p)) > s.left-s.failAt {
			p = p[:s.left-s.failAt]
		}
	}
	if s.left == 0 {
		return 0, io.EOF
	}
	if int64(len(p)) > s.left {
		p = p[:s.left]
	}
	n, err := io.ReadFull(s.r, p)
	s.left -= int64(n)
	if err != nil {
		return n, err
	}
	if s.left == 0 && s.kind == "dataeof" {
		return n, io.EOF
	}
	return n, nil
}

// ---------------------------------------------------------------- run

type configer struct {
	blobserver.Storage
	cfg *blobserver.Config
}

func (c *configer) Config() *blobserver.Config { return c.cfg }

type runner struct {
	lg      *gate.Log
	m       *maker
	scratch string
	logBuf  *lockedBuf
}

type lockedBuf struct {
	mu sync.Mutex
	b  bytes.Buffer
}

func (l *lockedBuf) Write(p []byte) (int, error) {
	l.mu.Lock()
	defer l.mu.Unlock()
	if l.b.Len() > 1<<20 {
		l.b.Reset()
	}
	return l.b.Write(p)
}

func (l *lockedBuf) take() string {
	l.mu.Lock()
	defer l.mu.Unlock()
	s := l.b.String()
	l.b.Reset()
	return s
}

func backendCfg(b string) string {
	switch b {
	case "condgate":
		return "cond(gate,gate)"
	case "replicagate": // wrappers that read the source themselves before handing it on
		return "replica(gate,gate)"
	case "shardgate":
		return "shard(gate,gate)"
	case "nsgate":
		return "namespace(gate)"
	case "packedgate":
		return "blobpacked(gate,gate)"
	}
	return b
}

func classifyText(s string) string {
	ls := strings.ToLower(s)
	switch {
	case strings.Contains(ls, "digest") || strings.Contains(ls, "corrupt") || strings.Contains(ls, "hash mismatch"):
		return "corrupt"
	case strings.Contains(ls, "too big") || strings.Contains(ls, "over the limit") || strings.Contains(ls, "too large"):
		return "toolarge"
	case strings.Contains(ls, "hash function") || strings.Contains(ls, "unsupported"):
		return "unsupported"
	case strings.Contains(ls, errMidStream.Error()):
		return "srcerr"
	}
	return "other"
}

func classifyErr(err error) string {
	switch {
	case err == nil:
		return "ok"
	case errors.Is(err, errMidStream):
		return "srcerr"
	case errors.Is(err, blobserver.ErrCorruptBlob):
		return "corrupt"
	}
	return classifyText(err.Error())
}

func (r *runner) offer(id int, o Offer) {
	ref, data := r.m.build(o)
	gated := o.Backend == "gate" || o.Backend == "condgate"
	r.lg.Emit(gate.Event{"ev": "begin", "id": id, "path": o.Path, "backend": o.Backend, "refKind": o.RefKind, "sizeKind": o.SizeKind,
		"bytesKind": o.BytesKind, "readerKind": o.ReaderKind, "n": len(data), "gate": gated, "ref": ref.String()})
	dir, err := os.MkdirTemp(r.scratch, "o")
	if err != nil {
		fatal(err)
	}
	defer os.RemoveAll(dir)
	cfg, err := stores.Parse(backendCfg(o.Backend))
	if err != nil {
		fatal(err)
	}
	env := &stores.Env{P: gate.NewPlan(), D: stores.NewDurable(dir)}
	if gated {
		env.L = r.lg
	}
	sys, err := stores.Build(cfg, env)
	if err != nil {
		fatal(fmt.Errorf("build %s: %v", o.Backend, err))
	}
	defer sys.Close()
	for _, g := range sys.Gates {
		g.Quiet = true
	}
	sto := sys.Sto
	wrapper := &configer{Storage: sto, cfg: &blobserver.Config{Writable: true, Readable: true, CanLongPoll: true}}

	// hub observers: a synchronous receive hook (logged at once, so that its place among the lower-layer
	// events is the real one) and an asynchronous listener, on every object a path may notify
	var hookN int
	var hookMu sync.Mutex
	lch := make(chan blob.Ref, 64)
	targets := []any{sto, wrapper}
	// sub-stores of a fan-out wrapper are fed through blobserver.ReceiveNoHash and announce the blob on their OWN hubs:
	// that is internal traffic; what clients of the configured store can observe is the top-level hub
	fanout := map[string]bool{"replicagate": true, "shardgate": true, "nsgate": true, "packedgate": true}
	for _, n := range sys.Nodes {
		if n != sto && !fanout[o.Backend] {
			targets = append(targets, n)
		}
	}
	for _, t := range targets {
		h := blobserver.GetHub(t)
		h.AddReceiveHook(func(sb blob.SizedRef) error {
			if sb.Ref != ref {
				return nil // internal traffic of the backend (encrypted and meta blobs of encrypt)
			}
			hookMu.Lock()
			hookN++
			hookMu.Unlock()
			r.lg.Emit(gate.Event{"ev": "hub", "ref": sb.Ref.String(), "size": int(sb.Size)})
			return nil
		})
		h.RegisterListener(lch)
		defer h.UnregisterListener(lch)
	}

	total := int64(len(data))
	end := gate.Event{"ev": "end", "id": id, "rsize": 0, "received": false, "status": 0}
	r.logBuf.take()
	func() {
		defer func() {
			if p := recover(); p != nil {
				end["res"] = "panic"
				end["detail"] = fmt.Sprint(p)
				buf := make([]byte, 4096)
				end["stack"] = string(buf[:runtime.Stack(buf, false)])
			}
		}()
		ctx, cancel := context.WithTimeout(context.Background(), 60*time.Second)
		defer cancel()
		switch o.Path {
		case "receive", "direct", "cond":
			s := newSrc(bytes.NewReader(data), total, o.ReaderKind)
			var rd io.Reader = s
			if o.ReaderKind == "whole" {
				rd = bytes.NewReader(data)
			}
			var sb blob.SizedRef
			var err error
			if o.Path == "receive" {
				sb, err = blobserver.Receive(ctx, sto, ref, rd)
			} else {
				sb, err = sto.ReceiveBlob(ctx, ref, rd)
			}
			end["res"] = classifyErr(err)
			if err != nil {
				end["detail"] = err.Error()
			} else {
				end["rsize"] = int(sb.Size)
				end["received"] = true
				if sb.Ref != ref {
					end["res"] = "wrongref"
				}
			}
		case "put":
			s := newSrc(bytes.NewReader(data), total, o.ReaderKind)
			var body io.Reader = struct{ io.Reader }{s}
			if o.ReaderKind == "whole" {
				body = bytes.NewReader(data) // a request with a Content-Length
			}
			req, err := http.NewRequestWithContext(ctx, "PUT", "http://verif.example/bs/camli/"+ref.String(), body)
			if err != nil {
				fatal(err)
			}
			rec := httptest.NewRecorder()
			handlers.CreatePutUploadHandler(wrapper).ServeHTTP(rec, req)
			end["status"] = rec.Code
			lg := r.logBuf.take()
			switch {
			case rec.Code >= 200 && rec.Code < 300:
				end["res"] = "ok"
				end["received"] = true
			case rec.Code == 400:
				end["res"] = classifyText(lg)
				end["detail"] = strings.TrimSpace(lg)
			case s.fired:
				end["res"] = "srcerr"
			default:
				end["res"] = "other"
				end["detail"] = fmt.Sprintf("%d %s", rec.Code, strings.TrimSpace(lg))
			}
		case "multipart":
			var pre bytes.Buffer
			mw := multipart.NewWriter(&pre)
			h := textproto.MIMEHeader{}
			h.Set("Content-Disposition", fmt.Sprintf(`form-data; name="%s"; filename="blob1"`, ref))
			h.Set("Content-Type", "application/octet-stream")
			if _, err := mw.CreatePart(h); err != nil {
				fatal(err)
			}
			suffix := "\r\n--" + mw.Boundary() + "--\r\n"
			full := io.MultiReader(bytes.NewReader(pre.Bytes()), bytes.NewReader(data), strings.NewReader(suffix))
			s := newSrc(full, int64(pre.Len())+total+int64(len(suffix)), o.ReaderKind)
			if o.ReaderKind == "error" {
				s.failAt = int64(len(suffix)) + total - total/2 // fails half way through the blob's bytes
			}
			req, err := http.NewRequestWithContext(ctx, "POST", "http://verif.example/bs/camli/upload", struct{ io.Reader }{s})
			if err != nil {
				fatal(err)
			}
			req.Header.Set("Content-Type", mw.FormDataContentType())
			rec := httptest.NewRecorder()
			handlers.CreateBatchUploadHandler(wrapper).ServeHTTP(rec, req)
			end["status"] = rec.Code
			r.logBuf.take()
			if rec.Code != 200 {
				end["res"] = "other"
				end["detail"] = fmt.Sprintf("%d %s", rec.Code, rec.Body.String())
				break
			}
			var ur struct {
				Received []struct {
					BlobRef string `json:"blobRef"`
					Size    int    `json:"size"`
				} `json:"received"`
				ErrorText string `json:"errorText"`
			}
			if err := json.Unmarshal(rec.Body.Bytes(), &ur); err != nil || ur.Received == nil {
				end["res"] = "badjson"
				end["detail"] = rec.Body.String()
				break
			}
			for _, it := range ur.Received {
				if it.BlobRef == ref.String() {
					end["received"] = true
					end["rsize"] = it.Size
				}
			}
			end["nreceived"] = len(ur.Received)
			switch {
			case end["received"] == true && ur.ErrorText == "":
				end["res"] = "ok"
			case end["received"] == true:
				end["res"] = "ok+errortext"
				end["detail"] = ur.ErrorText
			case ur.ErrorText == "":
				end["res"] = "silent" // neither received nor an error
			case s.fired && classifyText(ur.ErrorText) == "other":
				end["res"] = "srcerr"
				end["detail"] = ur.ErrorText
			default:
				end["res"] = classifyText(ur.ErrorText)
				end["detail"] = ur.ErrorText
			}
		default:
			fatal(fmt.Errorf("unknown path %q", o.Path))
		}
	}()

	// after-state of the backing store
	r.observe(sto, ref, data, end)
	// notifications
	hookMu.Lock()
	hn := hookN
	hookMu.Unlock()
	listen := 0
	deadline := time.After(30 * time.Second)
	if hn == 0 {
		deadline = time.After(300 * time.Microsecond)
		runtime.Gosched()
	}
wait:
	for listen < hn || hn == 0 {
		select {
		case br := <-lch:
			if br == ref {
				listen++
			}
		case <-deadline:
			break wait
		}
	}
	// the hooks of one receive may sit on several objects (cond + child): count receives, not objects
	end["hook"] = hn
	end["listen"] = listen
	r.lg.Emit(end)
}

func (r *runner) observe(sto blobserver.Storage, ref blob.Ref, offered []byte, end gate.Event) {
	ctx, cancel := context.WithTimeout(context.Background(), 60*time.Second)
	defer cancel()
	defer func() {
		if p := recover(); p != nil {
			end["fetch"] = "panic"
			end["obsdetail"] = fmt.Sprint(p)
			for _, k := range []string{"fsize", "statn", "statsize", "others"} {
				if _, ok := end[k]; !ok {
					end[k] = 0
				}
			}
			if _, ok := end["listed"]; !ok {
				end["listed"] = false
			}
		}
	}()
	end["fsize"] = 0
	rc, size, err := sto.Fetch(ctx, ref)
	switch {
	case err == nil:
		got, rerr := io.ReadAll(rc)
		rc.Close()
		end["fsize"] = int(size)
		switch {
		case rerr != nil:
			end["fetch"] = "readerr"
		case int(size) != len(got):
			end["fetch"] = "sizemismatch"
		case bytes.Equal(got, offered):
			end["fetch"] = "ok"
		case len(got) < len(offered) && bytes.Equal(got, offered[:len(got)]):
			end["fetch"] = "prefix"
		default:
			end["fetch"] = "wrongbytes"
		}
	case errors.Is(err, os.ErrNotExist):
		end["fetch"] = "notexist"
	default:
		end["fetch"] = "error"
		end["obsdetail"] = err.Error()
	}
	statn, statsize := 0, 0
	err = sto.StatBlobs(ctx, []blob.Ref{ref}, func(sb blob.SizedRef) error {
		statn++
		statsize = int(sb.Size)
		return nil
	})
	if err != nil {
		statn = -1
		end["obsdetail"] = err.Error()
	}
	end["statn"] = statn
	end["statsize"] = statsize
	listed, others := false, 0
	err = blobserver.EnumerateAll(ctx, sto, func(sb blob.SizedRef) error {
		if sb.Ref == ref {
			listed = true
		} else {
			others++
		}
		return nil
	})
	if err != nil {
		others = -1
		end["obsdetail"] = err.Error()
	}
	end["listed"] = listed
	end["others"] = others
}

// randomOffer draws a consistent offer (the consistency rules of Ingest!Consistent; an inconsistent one
// would be reported by Trace_Ingest as a harness error, not judged).
func randomOffer(rng *rand.Rand, bigEvery int) Offer {
	pick := func(xs ...string) string { return xs[rng.Intn(len(xs))] }
	for {
		o := Offer{Path: pick("receive", "put", "multipart", "direct", "cond"),
			RefKind:    pick("sha1", "sha224", "sha224", "sha256", "unknown"),
			BytesKind:  pick("exact", "exact", "truncated", "extended", "bitflip", "permuted"),
			ReaderKind: pick("whole", "onebyte", "dataeof", "error")}
		switch o.Path {
		case "direct":
			o.Backend = pick("memory", "encrypt")
		case "cond":
			o.Backend = "condgate"
		default:
			o.Backend = pick("memory", "localdisk", "diskpacked", "gate")
		}
		if rng.Intn(bigEvery) == 0 {
			o.SizeKind = pick("maxm1", "max", "maxp1", "maxp1prefix")
		} else {
			o.SizeKind = pick("s0", "s1", "small", "small", "small")
		}
		ts := map[string]int{"s0": 0, "s1": 1}[o.SizeKind]
		if o.SizeKind != "s0" && o.SizeKind != "s1" {
			ts = 2
		}
		if (o.BytesKind == "truncated" || o.BytesKind == "bitflip") && ts < 1 {
			continue
		}
		if o.BytesKind == "permuted" && ts < 2 {
			continue
		}
		if o.SizeKind == "maxp1prefix" {
			o.BytesKind = "extended"
		}
		return o
	}
}

func fatal(err error) {
	fmt.Fprintln(os.Stderr, "c02:", err)
	os.Exit(2)
}

func main() {
	offersF := flag.String("offers", "", "file of offers (one JSON object per line)")
	out := flag.String("out", "trace.ndjson", "trace output")
	seed := flag.Int64("seed", 1, "seed (contents)")
	small := flag.Int("small", 41, "the size of sizeKind small")
	random := flag.Int("random", 0, "generate this many random consistent offers instead of reading -offers")
	bigFrac := flag.Int("bigevery", 12, "random: one offer in this many uses a size around 16 MiB")
	shard := flag.Int("shard", 0, "this shard")
	shards := flag.Int("shards", 1, "number of shards")
	flag.Parse()
	lb := &lockedBuf{}
	log.SetOutput(lb)
	log.SetFlags(0)
	var offers []Offer
	if *random > 0 {
		rng := rand.New(rand.NewSource(*seed*31 + int64(*small)))
		for len(offers) < *random {
			offers = append(offers, randomOffer(rng, *bigFrac))
		}
	} else {
		f, err := os.Open(*offersF)
		if err != nil {
			fatal(err)
		}
		sc := bufio.NewScanner(f)
		sc.Buffer(make([]byte, 1<<16), 1<<22)
		for sc.Scan() {
			var o Offer
			if err := json.Unmarshal(sc.Bytes(), &o); err != nil {
				fatal(err)
			}
			offers = append(offers, o)
		}
		f.Close()
	}
	scratch, err := os.MkdirTemp("", "verif-c02-")
	if err != nil {
		fatal(err)
	}
	defer os.RemoveAll(scratch)
	lg, err := gate.NewFileLog(*out)
	if err != nil {
		fatal(err)
	}
	r := &runner{lg: lg, m: newMaker(*seed, *small), scratch: scratch, logBuf: lb}
	n := 0
	for i, o := range offers {
		if i%*shards != *shard {
			continue
		}
		r.offer(i, o)
		n++
	}
	if err := lg.Close(); err != nil {
		fatal(err)
	}
	os.RemoveAll(scratch)
	fmt.Printf("offers=%d events=%d\n", n, lg.Len())
}
