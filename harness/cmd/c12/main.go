// c12 drives the real replica store through TLC-generated scenarios
// (configuration, outcome vector, completion order) with the gate scheduler
// and records the events Trace_Replica.tla validates.
package main

import (
	"bufio"
	"bytes"
	"context"
	"encoding/json"
	"flag"
	"fmt"
	"io"
	"log"
	"math/rand"
	"os"
	"runtime"
	"sort"
	"strings"
	"time"

	"go4.org/jsonconfig"
	"perkeep.org/pkg/blob"
	"perkeep.org/pkg/blobserver"
	_ "perkeep.org/pkg/blobserver/replica"

	"verif/drv"
	"verif/gate"
	"verif/univ"
)

type Scn struct {
	N       int      `json:"n"`
	W       []int    `json:"w"`
	Rd      []int    `json:"rd"`
	Min     int      `json:"min"`
	B       int      `json:"b"`
	Outcome []string `json:"outcome"`
	Order   []int    `json:"order"`
	Pre     [][]int  `json:"pre"`
	// Mode: "" = receive then reads; "straggler" = receive, return, remove, then the stragglers land (H26)
	Mode string `json:"mode,omitempty"`
}

type loader struct{ m map[string]blobserver.Storage }

func (l *loader) FindHandlerByType(string) (string, any, error) {
	return "", nil, blobserver.ErrHandlerTypeNotFound
}
func (l *loader) AllHandlers() (map[string]string, map[string]any) { return nil, nil }
func (l *loader) MyPrefix() string                                 { return "/replica/" }
func (l *loader) BaseURL() string                                  { return "http://localhost:1" }
func (l *loader) GetHandlerType(string) string                     { return "" }
func (l *loader) GetHandler(p string) (any, error)                 { return l.m[p], nil }
func (l *loader) GetStorage(p string) (blobserver.Storage, error) {
	if s, ok := l.m[p]; ok {
		return s, nil
	}
	return nil, fmt.Errorf("no storage %q", p)
}

func fatal(err error) {
	fmt.Fprintln(os.Stderr, "c12:", err)
	os.Exit(2)
}

func main() {
	scnF := flag.String("scn", "", "scenario file (JSON lines)")
	out := flag.String("out", "trace.ndjson", "trace output")
	seed := flag.Int64("seed", 1, "seed")
	random := flag.Int("random", 0, "random scenarios (free-running, several receives per scenario)")
	mode := flag.String("mode", "replica", "replica: Trace_Replica events; blobstore: Trace_BlobStore events (straggler scenarios for C01)")
	flag.Parse()
	log.SetOutput(io.Discard)
	lg, err := gate.NewFileLog(*out)
	if err != nil {
		fatal(err)
	}
	u := univ.Standard(4, *seed)
	n := 0
	if *random > 0 {
		rng := rand.New(rand.NewSource(*seed))
		for i := 0; i < *random; i++ {
			randomScenario(rng, u, lg)
			n++
		}
	} else {
		f, err := os.Open(*scnF)
		if err != nil {
			fatal(err)
		}
		sc := bufio.NewScanner(f)
		sc.Buffer(make([]byte, 1<<20), 1<<24)
		for sc.Scan() {
			var s Scn
			if err := json.Unmarshal(sc.Bytes(), &s); err != nil {
				fatal(err)
			}
			if *mode == "blobstore" {
				s.Mode = "straggler"
			}
			if err := runScn(&s, u, lg, n); err != nil {
				fatal(fmt.Errorf("scenario %d %s: %v", n, sc.Text(), err))
			}
			n++
		}
	}
	if err := lg.Close(); err != nil {
		fatal(err)
	}
	fmt.Printf("scenarios=%d events=%d\n", n, lg.Len())
}

type world struct {
	gates []*gate.Storage // index 1..N
	sto   blobserver.Storage
	plan  *gate.Plan
	mem   *gate.Log
}

func sameInts(a, b []int) bool {
	if len(a) != len(b) {
		return false
	}
	for i := range a {
		if a[i] != b[i] {
			return false
		}
	}
	return true
}

func build(s *Scn, u *univ.Universe, sched *gate.Scheduler) (*world, error) {
	w := &world{plan: gate.NewPlan(), mem: gate.NewLog()}
	w.plan.Sched = sched
	ld := &loader{m: map[string]blobserver.Storage{}}
	w.gates = make([]*gate.Storage, s.N+1)
	for i := 1; i <= s.N; i++ {
		g := gate.NewStorage(fmt.Sprintf("s%d", i), nil, w.plan, w.mem)
		g.Rank = u.RankAny
		w.gates[i] = g
		ld.m[fmt.Sprintf("/s%d/", i)] = g
		if i-1 < len(s.Pre) {
			for _, rk := range s.Pre[i-1] {
				b := u.ByRank(rk)
				g.B.Put(b.Ref, b.Data)
			}
		}
	}
	var back, rd []any
	for _, i := range s.W {
		back = append(back, fmt.Sprintf("/s%d/", i))
	}
	for _, i := range s.Rd {
		rd = append(rd, fmt.Sprintf("/s%d/", i))
	}
	conf := jsonconfig.Obj{"backends": back, "readBackends": rd, "minWritesForSuccess": float64(s.Min)}
	// the documented defaults must mean the same as spelling them out: minWritesForSuccess omitted (or 0) = all
	// write replicas, readBackends omitted = the write replicas. Which spelling a scenario gets depends on its shape.
	if s.Min == len(s.W) {
		switch (len(s.W) + len(s.Rd) + s.B) % 3 {
		case 0:
			delete(conf, "minWritesForSuccess")
		case 1:
			conf["minWritesForSuccess"] = float64(0)
		}
	}
	if sameInts(s.W, s.Rd) && (s.N+s.B)%2 == 0 {
		delete(conf, "readBackends")
	}
	sto, err := blobserver.CreateStorage("replica", ld, conf)
	if err != nil {
		return nil, err
	}
	w.sto = sto
	return w, nil
}

func anyInts(x []int) []any {
	o := make([]any, len(x))
	for i, v := range x {
		o[i] = v
	}
	return o
}

func preAny(p [][]int, n int) []any {
	o := make([]any, n)
	for i := 0; i < n; i++ {
		if i < len(p) {
			o[i] = anyInts(p[i])
		} else {
			o[i] = []any{}
		}
	}
	return o
}

// lastLower returns the newest gate event of layer/call in the in-memory log.
func lastLower(mem *gate.Log, layer, call string) gate.Event {
	evs := mem.Events()
	for i := len(evs) - 1; i >= 0; i-- {
		if evs[i]["layer"] == layer && evs[i]["call"] == call {
			return evs[i]
		}
	}
	return nil
}

func outcomeOf(ev gate.Event) string {
	if ev == nil {
		return "missing"
	}
	switch ev["res"] {
	case "ok":
		return "ok"
	case "wrongsize":
		return "wrongsize"
	case "injected", "injected-after", "srcerr":
		return "err"
	}
	return fmt.Sprint(ev["res"])
}

const stepWatch = 60 * time.Second

func runScn(s *Scn, u *univ.Universe, lg *gate.Log, idx int) error {
	sched := gate.NewScheduler()
	w, err := build(s, u, sched)
	if err != nil {
		return err
	}
	for _, i := range s.W {
		switch s.Outcome[i-1] {
		case "err":
			w.plan.Faults = append(w.plan.Faults, &gate.Fault{Layer: fmt.Sprintf("s%d", i), Call: "ReceiveBlob", N: 1, Kind: "error"})
		case "wrongsize":
			w.plan.Faults = append(w.plan.Faults, &gate.Fault{Layer: fmt.Sprintf("s%d", i), Call: "ReceiveBlob", N: 1, Kind: "wrongsize"})
		}
	}
	b := u.ByRank(s.B)
	bsMode := s.Mode == "straggler"
	r := &drv.Runner{U: u, Sto: w.sto, Caps: drv.Caps{CanRemove: true, SubFetch: "no"}}
	if bsMode {
		// Trace_BlobStore vocabulary: the replica as a plain store (write = read = all, as C01 configures it)
		reset := r.ResetEvent(fmt.Sprintf("replica[min=%d;n=%d]+sched", s.Min, s.N))
		reset["h"] = idx
		var pre []any
		seen := map[int]bool{}
		for _, p := range s.Pre {
			for _, rk := range p {
				if !seen[rk] {
					seen[rk] = true
					pre = append(pre, rk)
				}
			}
		}
		if pre == nil {
			pre = []any{}
		}
		reset["pre"] = pre
		lg.Emit(reset)
	} else {
		lg.Emit(gate.Event{"ev": "cfg", "n": s.N, "w": anyInts(s.W), "rd": anyInts(s.Rd), "min": s.Min,
			"pre": preAny(s.Pre, s.N), "scn": idx})
		lg.Emit(gate.Event{"ev": "start", "b": s.B})
	}
	type rres struct {
		sr  blob.SizedRef
		err error
	}
	retCh := make(chan rres, 1)
	go func() {
		sr, err := blobserver.Receive(context.Background(), w.sto, b.Ref, bytes.NewReader(b.Data))
		retCh <- rres{sr, err}
	}()
	returned := false
	logRet := func(rr rres) {
		returned = true
		if bsMode {
			ev := gate.Event{"ev": "op", "op": "receive", "b": s.B, "res": drv.Classify(rr.err), "size": 0, "list": []any{}}
			if rr.err == nil {
				ev["size"] = int(rr.sr.Size)
			}
			lg.Emit(ev)
			return
		}
		res := "ok"
		if rr.err != nil {
			res = "err"
		}
		lg.Emit(gate.Event{"ev": "ret", "res": res, "size": int(rr.sr.Size)})
	}
	// stepOrRet releases the next upload of replica layer id. Lower calls other than uploads that the code makes on
	// the way (a stat, say) are let through unscheduled. If the public call returns although the upload never
	// started, it says so (stepped = false) instead of waiting for a call that will not come.
	var retAt time.Time
	stepOrRet := func(id string) (bool, error) {
		deadline := time.Now().Add(stepWatch)
		for time.Now().Before(deadline) {
			for _, p := range sched.Parked() {
				if !strings.HasSuffix(p, ".ReceiveBlob") {
					if err := sched.Step(p, stepWatch); err != nil {
						return false, err
					}
				}
			}
			if err := sched.WaitParked(id, 2*time.Millisecond); err == nil {
				return true, sched.Step(id, stepWatch)
			}
			if !returned {
				select {
				case rr := <-retCh:
					logRet(rr)
					retAt = time.Now()
				default:
				}
			} else if retAt.IsZero() {
				retAt = time.Now()
			}
			if returned && time.Since(retAt) > 300*time.Millisecond {
				return false, nil
			}
		}
		return false, fmt.Errorf("%s never arrived and the call did not return (parked: %v)", id, sched.Parked())
	}
	var pendingOrder []int
	for k, i := range s.Order {
		if returned && bsMode {
			pendingOrder = s.Order[k:]
			break
		}
		layer := fmt.Sprintf("s%d", i)
		stepped, err := stepOrRet(layer + ".ReceiveBlob")
		if err != nil {
			return fmt.Errorf("conformance: %v", err)
		}
		if !stepped {
			// the call returned and this replica's upload was never started: nothing more to schedule; the trace
			// (a return without the uploads the model needs for it) is judged by the specification
			break
		}
		if !bsMode {
			ev := "done"
			if returned {
				ev = "bg"
			}
			lg.Emit(gate.Event{"ev": ev, "i": i, "outcome": outcomeOf(lastLower(w.mem, layer, "ReceiveBlob"))})
		}
		if !returned {
			// give the tally loop time to return if it is going to
			deadline := time.Now().Add(600 * time.Microsecond)
			if k == len(s.Order)-1 {
				deadline = time.Now().Add(stepWatch)
			}
			for !returned && time.Now().Before(deadline) {
				select {
				case rr := <-retCh:
					logRet(rr)
				default:
					runtime.Gosched()
					time.Sleep(20 * time.Microsecond)
				}
			}
		}
	}
	if !returned {
		return fmt.Errorf("conformance: ReceiveBlob did not return after all uploads completed")
	}
	if bsMode {
		// a sequential client now removes the blob while uploads of the acknowledged receive are still parked
		rmCh := make(chan error, 1)
		go func() { rmCh <- w.sto.RemoveBlobs(context.Background(), []blob.Ref{b.Ref}) }()
		for _, i := range s.W {
			if err := sched.Step(fmt.Sprintf("s%d.RemoveBlobs", i), stepWatch); err != nil {
				return fmt.Errorf("conformance: %v", err)
			}
		}
		rerr := <-rmCh
		lg.Emit(gate.Event{"ev": "op", "op": "remove", "bs": []any{s.B}, "res": drv.Classify(rerr), "size": 0, "list": []any{}})
		for _, i := range pendingOrder {
			if err := sched.Step(fmt.Sprintf("s%d.ReceiveBlob", i), stepWatch); err != nil {
				return fmt.Errorf("conformance: %v", err)
			}
		}
	}
	sched.Free()
	// reads
	emit := func(ev gate.Event) { lg.Emit(ev) }
	emit(r.Do(drv.Op{Op: "fetch", B: s.B}))
	var all []int
	for _, bl := range u.Blobs {
		all = append(all, bl.Rank)
		emit(r.Do(drv.Op{Op: "fetch", B: bl.Rank}))
	}
	emit(r.Do(drv.Op{Op: "stat", Bs: all}))
	for _, lim := range []int{1, 3} {
		for _, after := range []int{0, 3, 6} {
			emit(r.Do(drv.Op{Op: "enum", After: after, Limit: lim}))
		}
	}
	if !bsMode {
		// replica loss: every non-empty subset of the read replicas fails every Fetch with an I/O error
		if !sort.IntsAreSorted(s.Rd) {
			return fmt.Errorf("conformance: read set %v is not in index order (the model walks it in index order)", s.Rd)
		}
		for mask := 1; mask < 1<<len(s.Rd); mask++ {
			var down []any
			w.plan.Faults = nil
			for k, i := range s.Rd {
				if mask&(1<<k) != 0 {
					down = append(down, i)
					w.plan.Faults = append(w.plan.Faults, &gate.Fault{Layer: fmt.Sprintf("s%d", i), Call: "Fetch", N: 1, Kind: "error"})
				}
			}
			for _, bl := range u.Blobs {
				for _, f := range w.plan.Faults {
					f.Rearm()
				}
				ev := r.Do(drv.Op{Op: "fetch", B: bl.Rank})
				ev["op"] = "fetchf"
				ev["down"] = down
				if ev["res"] == "injected" {
					ev["res"] = "failed"
				}
				emit(ev)
			}
		}
		// ... and likewise every StatBlobs / EnumerateBlobs call of the lost replicas
		for mask := 1; mask < 1<<len(s.Rd); mask++ {
			var down []any
			w.plan.Faults = nil
			for k, i := range s.Rd {
				if mask&(1<<k) != 0 {
					down = append(down, i)
					for _, call := range []string{"StatBlobs", "EnumerateBlobs"} {
						w.plan.Faults = append(w.plan.Faults, &gate.Fault{Layer: fmt.Sprintf("s%d", i), Call: call, N: 1, Kind: "error"})
					}
				}
			}
			lossy := func(op drv.Op, name string) {
				for _, f := range w.plan.Faults {
					f.Rearm()
				}
				ev := r.Do(op)
				ev["op"] = name
				ev["down"] = down
				if ev["res"] == "injected" {
					ev["res"] = "failed"
				}
				emit(ev)
			}
			lossy(drv.Op{Op: "stat", Bs: all}, "statf")
			lossy(drv.Op{Op: "stat", Bs: []int{s.B}}, "statf")
			for _, after := range []int{0, 3} {
				lossy(drv.Op{Op: "enum", After: after, Limit: 3}, "enumf")
			}
		}
		w.plan.Faults = nil
	}
	return nil
}

// randomScenario: free-running (no scheduler), random config/faults, several
// receives and reads; the gate log supplies done/bg events in real order.
func randomScenario(rng *rand.Rand, u *univ.Universe, lg *gate.Log) {
	n := 2 + rng.Intn(3)
	s := &Scn{N: n}
	for i := 1; i <= n; i++ {
		if rng.Intn(4) > 0 {
			s.W = append(s.W, i)
		}
		if rng.Intn(4) > 0 {
			s.Rd = append(s.Rd, i)
		}
	}
	if len(s.W) == 0 {
		s.W = []int{1}
	}
	if len(s.Rd) == 0 {
		s.Rd = []int{n}
	}
	// free-running: only full quorum keeps the event order deterministic enough to log from outside
	s.Min = len(s.W)
	s.Pre = make([][]int, n)
	for i := range s.Pre {
		for _, bl := range u.Blobs {
			if rng.Intn(3) == 0 {
				s.Pre[i] = append(s.Pre[i], bl.Rank)
			}
		}
	}
	w, err := build(s, u, nil)
	if err != nil {
		fatal(err)
	}
	lg.Emit(gate.Event{"ev": "cfg", "n": s.N, "w": anyInts(s.W), "rd": anyInts(s.Rd), "min": s.Min, "pre": preAny(s.Pre, s.N), "scn": -1})
	r := &drv.Runner{U: u, Sto: w.sto, Caps: drv.Caps{CanRemove: true, SubFetch: "no"}}
	for k := 0; k < 6; k++ {
		bl := u.Blobs[rng.Intn(len(u.Blobs))]
		w.plan.Faults = nil
		for _, i := range s.W {
			switch rng.Intn(4) {
			case 0:
				w.plan.Faults = append(w.plan.Faults, &gate.Fault{Layer: fmt.Sprintf("s%d", i), Call: "ReceiveBlob", N: 1, Kind: "error"})
			case 1:
				w.plan.Faults = append(w.plan.Faults, &gate.Fault{Layer: fmt.Sprintf("s%d", i), Call: "ReceiveBlob", N: 1, Kind: "wrongsize"})
			}
		}
		w.mem.Reset()
		lg.Emit(gate.Event{"ev": "start", "b": bl.Rank})
		sr, err := blobserver.Receive(context.Background(), w.sto, bl.Ref, bytes.NewReader(bl.Data))
		for _, ev := range w.mem.Events() {
			if ev["call"] == "ReceiveBlob" {
				var i int
				fmt.Sscanf(ev["layer"].(string), "s%d", &i)
				lg.Emit(gate.Event{"ev": "done", "i": i, "outcome": outcomeOf(ev)})
			}
		}
		res := "ok"
		if err != nil {
			res = "err"
		}
		lg.Emit(gate.Event{"ev": "ret", "res": res, "size": int(sr.Size)})
		for j := 0; j < 3; j++ {
			switch rng.Intn(3) {
			case 0:
				lg.Emit(r.Do(drv.Op{Op: "fetch", B: u.Blobs[rng.Intn(len(u.Blobs))].Rank}))
			case 1:
				lg.Emit(r.Do(drv.Op{Op: "stat", Bs: []int{2, 4, 6, 8}}))
			default:
				lg.Emit(r.Do(drv.Op{Op: "enum", After: rng.Intn(9), Limit: 1 + rng.Intn(4)}))
			}
		}
	}
}
