package main

import (
	"bytes"
	"context"
	"encoding/json"
	"fmt"
	"io"
	"math/bits"
	"math/rand"

	"go4.org/rollsum"

	"perkeep.org/pkg/blob"
	"perkeep.org/pkg/schema"

	"verif/gate"
)

// WCase is one writer input: length x content class x the way the source delivers its data.
type WCase struct {
	Len   int    `json:"len"`
	Class string `json:"class"` // zeros | random | periodic | splitoften | splitnever
	Frag  string `json:"frag"`  // whole | onebyte | dataeof | half | rand | oddeof
}

// ---- contents ----

// magicBlocks are 64-byte blocks after which the rolling checksum (window 64) is on a split point,
// with different strengths; data made of runs of such blocks splits as often as the writer allows,
// with varying strengths (nested "bytes" blobs).
var magicBlocks [][]byte

func findMagic() {
	if magicBlocks != nil {
		return
	}
	rng := rand.New(rand.NewSource(20260925))
	seen := map[int]bool{}
	for tries := 0; len(magicBlocks) < 4 && tries < 4000000; tries++ {
		blk := make([]byte, 64)
		rng.Read(blk)
		rs := rollsum.New()
		for r := 0; r < 2; r++ {
			for _, c := range blk {
				rs.Roll(c)
			}
		}
		if rs.OnSplit() && !seen[rs.Bits()] {
			seen[rs.Bits()] = true
			magicBlocks = append(magicBlocks, blk)
		}
	}
	if len(magicBlocks) < 2 {
		fatal(fmt.Errorf("could not find rolling-checksum split blocks"))
	}
}

func content(c WCase, rng *rand.Rand) []byte {
	data := make([]byte, c.Len)
	switch c.Class {
	case "zeros":
	case "random":
		rng.Read(data)
	case "periodic":
		const period = 100003
		p := make([]byte, period)
		rng.Read(p)
		for i := range data {
			data[i] = p[i%period]
		}
	case "splitoften":
		findMagic()
		for i := 0; i < len(data); {
			blk := magicBlocks[rng.Intn(len(magicBlocks))]
			reps := 1 + rng.Intn(1500)
			for r := 0; r < reps && i < len(data); r++ {
				i += copy(data[i:], blk)
			}
		}
	case "splitnever":
		rs := rollsum.New()
		for i := range data {
			b := byte(rng.Intn(256))
			for {
				probe := *rs
				probe.Roll(b)
				if !probe.OnSplit() {
					break
				}
				b++
			}
			rs.Roll(b)
			data[i] = b
		}
	default:
		fatal(fmt.Errorf("unknown content class %q", c.Class))
	}
	return data
}

// ---- reader fragmentations ----

type fragReader struct {
	data []byte
	pos  int
	mode string
	rng  *rand.Rand
}

func (r *fragReader) Read(p []byte) (int, error) {
	if len(p) == 0 {
		return 0, nil
	}
	rem := len(r.data) - r.pos
	if rem == 0 {
		return 0, io.EOF
	}
	n := len(p)
	switch r.mode {
	case "onebyte":
		n = 1
	case "half":
		n = (len(p) + 1) / 2
	case "rand":
		n = 1 + r.rng.Intn(len(p))
	case "oddeof":
		n = 10007 // not aligned to any buffer size; the last read returns data and EOF together
		if n > len(p) {
			n = len(p)
		}
	}
	if n > rem {
		n = rem
	}
	copy(p, r.data[r.pos:r.pos+n])
	r.pos += n
	if (r.mode == "dataeof" || r.mode == "oddeof") && r.pos == len(r.data) {
		return n, io.EOF // the last bytes and EOF together
	}
	return n, nil
}

func source(c WCase, data []byte, rng *rand.Rand) io.Reader {
	if c.Frag == "whole" {
		return bytes.NewReader(data)
	}
	return &fragReader{data: data, mode: c.Frag, rng: rng}
}

// ---- where a chunk's bytes occur in the input (byte comparison, accelerated by a rolling hash) ----

const mersenne = (1 << 61) - 1

func mulmod(a, b uint64) uint64 {
	hi, lo := bits.Mul64(a, b)
	r := (lo & mersenne) + (lo >> 61) + hi<<3
	r = (r & mersenne) + (r >> 61)
	if r >= mersenne {
		r -= mersenne
	}
	return r
}

type matcher struct {
	data   []byte
	base   uint64
	prefix []uint64
}

func newMatcher(data []byte, rng *rand.Rand) *matcher {
	m := &matcher{data: data, base: uint64(rng.Int63())%(mersenne-1000) + 500}
	m.prefix = make([]uint64, len(data)+1)
	for i, c := range data {
		v := mulmod(m.prefix[i], m.base) + uint64(c) + 1
		if v >= mersenne {
			v -= mersenne
		}
		m.prefix[i+1] = v
	}
	return m
}

func powmod(b uint64, e int) uint64 {
	r := uint64(1)
	for e > 0 {
		if e&1 == 1 {
			r = mulmod(r, b)
		}
		b = mulmod(b, b)
		e >>= 1
	}
	return r
}

// occurrences returns every offset at which chunk occurs in the input, as arithmetic progressions
// [lo, hi, step].  Candidates are found with the hash; up to 64 per chunk are confirmed by comparing
// the bytes (all of them when there are at most 64).
func (m *matcher) occurrences(chunk []byte) [][]int {
	s := len(chunk)
	out := [][]int{}
	if s == 0 || s > len(m.data) {
		return out
	}
	var h uint64
	for _, c := range chunk {
		h = mulmod(h, m.base) + uint64(c) + 1
		if h >= mersenne {
			h -= mersenne
		}
	}
	bs := powmod(m.base, s)
	first, last := chunk[0], chunk[s-1]
	var offs []int
	for o := 0; o+s <= len(m.data); o++ {
		if m.data[o] != first || m.data[o+s-1] != last {
			continue
		}
		w := m.prefix[o+s] + mersenne - mulmod(m.prefix[o], bs)
		if w >= mersenne {
			w -= mersenne
		}
		if w == h {
			offs = append(offs, o)
		}
	}
	confirm := func(o int) {
		if !bytes.Equal(m.data[o:o+s], chunk) {
			fatal(fmt.Errorf("hash collision while locating a chunk in the input (offset %d, size %d)", o, s))
		}
	}
	if len(offs) <= 64 {
		for _, o := range offs {
			confirm(o)
		}
	} else {
		for k := 0; k < 64; k++ {
			confirm(offs[k*(len(offs)-1)/63])
		}
	}
	for i := 0; i < len(offs); {
		j := i
		step := 1
		if i+1 < len(offs) {
			step = offs[i+1] - offs[i]
			j = i + 1
			for j+1 < len(offs) && offs[j+1]-offs[j] == step {
				j++
			}
		}
		out = append(out, []int{offs[i], offs[j], step})
		i = j + 1
	}
	return out
}

// ---- one case ----

type rawPart struct {
	BlobRef  string `json:"blobRef"`
	BytesRef string `json:"bytesRef"`
	Size     int    `json:"size"`
	Offset   int    `json:"offset"`
}
type rawSchema struct {
	CamliType string    `json:"camliType"`
	Parts     []rawPart `json:"parts"`
	Members   []string  `json:"members"`
	MergeSets []string  `json:"mergeSets"`
}

func isSchema(b []byte) (*rawSchema, bool) {
	if !bytes.HasPrefix(b, []byte(`{"camliVersion"`)) {
		return nil, false
	}
	rs := new(rawSchema)
	if json.Unmarshal(b, rs) != nil || rs.CamliType == "" {
		return nil, false
	}
	return rs, true
}

func runWCase(lg *gate.Log, idx int, c WCase, seed int64) {
	ctx := context.Background()
	rng := rand.New(rand.NewSource(seed*7919 + int64(idx)*104729 + int64(c.Len)))
	data := content(c, rng)
	sto := newStore()
	lg.Emit(gate.Event{"ev": "wstart", "case": idx, "len": c.Len, "class": c.Class, "frag": c.Frag})
	var fileRef blob.Ref
	var werr error
	fileRef, werr = schema.WriteFileFromReader(ctx, sto, "c15", source(c, data, rng))

	// project the upload log: refs become small integers in order of first appearance
	idOf := map[string]int{}
	id := func(ref string) int {
		if v, ok := idOf[ref]; ok {
			return v
		}
		idOf[ref] = len(idOf) + 1
		return idOf[ref]
	}
	var mt *matcher
	nchunks, nbytes := 0, 0
	seenChunk := map[string][][]int{}
	for _, u := range sto.uploads() {
		ev := gate.Event{"ev": "upload", "id": id(u.ref.String()), "size": len(u.data), "match": [][]int{}, "parts": []any{}}
		if rs, ok := isSchema(u.data); ok && (rs.CamliType == "bytes" || rs.CamliType == "file") {
			ev["kind"] = rs.CamliType
			parts := []any{}
			for _, p := range rs.Parts {
				switch {
				case p.BlobRef != "" && p.BytesRef != "":
					parts = append(parts, map[string]any{"kind": "both", "ref": id(p.BlobRef), "off": p.Offset, "size": p.Size})
				case p.BlobRef != "":
					parts = append(parts, map[string]any{"kind": "blob", "ref": id(p.BlobRef), "off": p.Offset, "size": p.Size})
				case p.BytesRef != "":
					parts = append(parts, map[string]any{"kind": "bytes", "ref": id(p.BytesRef), "off": p.Offset, "size": p.Size})
				default:
					parts = append(parts, map[string]any{"kind": "hole", "ref": 0, "off": 0, "size": p.Size})
				}
			}
			ev["parts"] = parts
			if rs.CamliType == "bytes" {
				nbytes++
			}
		} else {
			ev["kind"] = "chunk"
			nchunks++
			occ, ok := seenChunk[u.ref.String()]
			if !ok {
				if mt == nil {
					mt = newMatcher(data, rng)
				}
				occ = mt.occurrences(u.data)
				seenChunk[u.ref.String()] = occ
			}
			ev["match"] = occ
		}
		lg.Emit(ev)
	}

	// the call's result, and the file read back through the real reader
	done := gate.Event{"ev": "wdone", "case": idx, "res": "ok", "file": 0, "readback": "none", "chunks": nchunks, "bytesblobs": nbytes}
	if werr != nil {
		done["res"] = "err"
		done["err"] = werr.Error()
	} else {
		done["file"] = id(fileRef.String())
		done["readback"] = guard("readback", func() string {
			fr, err := schema.NewFileReader(ctx, sto, fileRef)
			if err != nil {
				return "open-error"
			}
			defer fr.Close()
			if fr.Size() != int64(len(data)) {
				return fmt.Sprintf("size-%d", fr.Size())
			}
			got, err := io.ReadAll(fr)
			if err != nil {
				return "read-error"
			}
			if len(got) != len(data) {
				return fmt.Sprintf("length-%d", len(got))
			}
			if !bytes.Equal(got, data) {
				return "wrong-bytes"
			}
			// random ranges through ReadAt
			for k := 0; k < 40 && len(data) > 0; k++ {
				off := rng.Intn(len(data))
				ln := 1 + rng.Intn(1+min(len(data)-off-1, 1<<uint(rng.Intn(21))))
				buf := make([]byte, ln)
				n, err := fr.ReadAt(buf, int64(off))
				if n != ln || err != nil || !bytes.Equal(buf, data[off:off+ln]) {
					return "wrong-range"
				}
			}
			return "full"
		})
	}
	lg.Emit(done)
}

func randomWCases(seed int64, n int) []WCase {
	rng := rand.New(rand.NewSource(seed ^ 0x5eed))
	classes := []string{"zeros", "random", "periodic", "splitoften", "splitnever"}
	frags := []string{"whole", "onebyte", "dataeof", "half", "rand", "oddeof"}
	var out []WCase
	for i := 0; i < n; i++ {
		var ln int
		switch rng.Intn(6) {
		case 0:
			ln = rng.Intn(200)
		case 1:
			ln = 64<<10 + rng.Intn(64) - 32
		case 2:
			ln = 256<<10 + rng.Intn(70000) - 35000
		case 3:
			ln = 1<<20 + rng.Intn(70000) - 35000
			if rng.Intn(2) == 0 {
				ln = 256<<10 + (1+rng.Intn(2))<<20 + rng.Intn(33000) // just past a hard-cap cut of content that never splits
			}
		default:
			ln = rng.Intn(2500000)
		}
		out = append(out, WCase{ln, classes[rng.Intn(len(classes))], frags[rng.Intn(len(frags))]})
	}
	return out
}
