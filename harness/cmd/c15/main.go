// c15 drives the REAL pkg/schema code (FileReader, WriteFileFromReader, static sets / DirReader) and
// records what it returned as an ndjson trace for Trace_Schema.tla.  The driver never computes an
// expected value: it stores the inputs TLC (or a seeded generator) chose, calls the real code, and
// projects the results (byte values are ids, blobrefs are small integers, errors are classes).
//
//	c15 -mode reader -in trees.jsonl  -out trace.ndjson [-random N -seed S]
//	c15 -mode writer -in wcases.jsonl -out trace.ndjson [-random N -seed S]
//	c15 -mode dirs   -in dcases.jsonl -out trace.ndjson [-random N -seed S]
package main

import (
	"bufio"
	"encoding/json"
	"flag"
	"fmt"
	"io"
	"log"
	"os"

	"verif/gate"
)

func main() {
	mode := flag.String("mode", "reader", "reader | writer | dirs")
	in := flag.String("in", "", "input cases, one JSON value per line")
	out := flag.String("out", "trace.ndjson", "trace output")
	seed := flag.Int64("seed", 1, "seed")
	random := flag.Int("random", 0, "generate this many seeded random cases instead of reading -in")
	base := flag.Int("base", 0, "index of the first case (indices select builder/raw storage and seed per-case choices)")
	verbose := flag.Bool("v", false, "perkeep logs to stderr")
	flag.Parse()
	if !*verbose {
		log.SetOutput(io.Discard)
	}
	lg, err := gate.NewFileLog(*out)
	if err != nil {
		fatal(err)
	}
	var lines [][]byte
	if *random == 0 {
		f, err := os.Open(*in)
		if err != nil {
			fatal(err)
		}
		sc := bufio.NewScanner(f)
		sc.Buffer(make([]byte, 1<<20), 1<<26)
		for sc.Scan() {
			if len(sc.Bytes()) > 0 {
				lines = append(lines, append([]byte(nil), sc.Bytes()...))
			}
		}
		f.Close()
	}
	n := 0
	switch *mode {
	case "reader":
		var trees []*Tree
		if *random > 0 {
			trees = randomTrees(*seed, *random)
		} else {
			for _, ln := range lines {
				t := new(Tree)
				if err := json.Unmarshal(ln, t); err != nil {
					fatal(fmt.Errorf("bad tree: %v", err))
				}
				trees = append(trees, t)
			}
		}
		for i, t := range trees {
			curCase = fmt.Sprintf("tree %d", i)
			runTree(lg, *base+i, t, *seed)
		}
		n = len(trees)
	case "writer":
		var cases []WCase
		if *random > 0 {
			cases = randomWCases(*seed, *random)
		} else {
			for _, ln := range lines {
				var c WCase
				if err := json.Unmarshal(ln, &c); err != nil {
					fatal(fmt.Errorf("bad writer case: %v", err))
				}
				cases = append(cases, c)
			}
		}
		for i, c := range cases {
			curCase = fmt.Sprintf("wcase %d %+v", i, c)
			runWCase(lg, *base+i, c, *seed)
		}
		n = len(cases)
	case "dirs":
		var cases []DCase
		if *random > 0 {
			cases = randomDCases(*seed, *random)
		} else {
			for _, ln := range lines {
				var c DCase
				if err := json.Unmarshal(ln, &c); err != nil {
					fatal(fmt.Errorf("bad dir case: %v", err))
				}
				cases = append(cases, c)
			}
		}
		for i, c := range cases {
			curCase = fmt.Sprintf("dcase %d %+v", i, c)
			runDCase(lg, *base+i, c)
		}
		n = len(cases)
	default:
		fatal(fmt.Errorf("unknown mode %q", *mode))
	}
	if err := lg.Close(); err != nil {
		fatal(err)
	}
	fmt.Printf("cases=%d events=%d\n", n, lg.Len())
}

var curCase string

func fatal(err error) {
	fmt.Fprintln(os.Stderr, "c15:", err, "(at", curCase+")")
	os.Exit(2)
}
