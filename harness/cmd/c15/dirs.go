package main

import (
	"context"
	"errors"
	"fmt"
	"io"
	"math/rand"
	"strconv"
	"strings"

	"perkeep.org/pkg/blob"
	"perkeep.org/pkg/schema"

	"verif/gate"
)

// DCase is one directory: the static-set splitting threshold (0 = the real one) and the member count.
type DCase struct {
	Max int `json:"max"`
	N   int `json:"n"`
}

type shape struct {
	Members []int    `json:"members"`
	Subs    []*shape `json:"subs"`
}

func runDCase(lg *gate.Log, idx int, c DCase) {
	ctx := context.Background()
	max := c.Max
	if max > 0 {
		old := schema.VerifSetMaxStaticSetMembers(max)
		defer schema.VerifSetMaxStaticSetMembers(old)
	} else {
		max = schema.VerifSetMaxStaticSetMembers(10000)
		schema.VerifSetMaxStaticSetMembers(max)
	}
	sto := newStore()
	// members: n distinct "file" schema blobs (Readdir loads every member)
	memberID := map[blob.Ref]int{}
	var refs []blob.Ref
	for i := 1; i <= c.N; i++ {
		bb := schema.NewFileMap("m" + strconv.Itoa(i))
		if err := bb.PopulateParts(0, nil); err != nil {
			fatal(err)
		}
		br := sto.put([]byte(bb.Blob().JSON()))
		memberID[br] = i
		refs = append(refs, br)
	}
	// the directory, with the schema package's own API (as pkg/schema's TestReadDirs does)
	res := "ok"
	var dirRef, topRef blob.Ref
	res = guard("SetStaticSetMembers", func() string {
		ss := schema.NewStaticSet()
		subsets := ss.SetStaticSetMembers(refs)
		for _, sb := range subsets {
			sto.put([]byte(sb.JSON()))
		}
		top := ss.Blob()
		topRef = sto.put([]byte(top.JSON()))
		dir := schema.NewDirMap("c15dir").PopulateDirectoryMap(top.BlobRef())
		dirRef = sto.put([]byte(dir.Blob().JSON()))
		return "ok"
	})
	// the static-set blobs as they were stored, parsed by the harness
	var walk func(br blob.Ref, depth int) *shape
	walk = func(br blob.Ref, depth int) *shape {
		sh := &shape{Members: []int{}, Subs: []*shape{}}
		b, ok := sto.get(br)
		if !ok || depth > 12 {
			res = "missing-subset"
			return sh
		}
		rs, ok := isSchema(b)
		if !ok || rs.CamliType != "static-set" {
			res = "not-a-static-set"
			return sh
		}
		for _, m := range rs.Members {
			id, ok := memberID[blob.ParseOrZero(m)]
			if !ok {
				id = -1
			}
			sh.Members = append(sh.Members, id)
		}
		for _, m := range rs.MergeSets {
			sh.Subs = append(sh.Subs, walk(blob.ParseOrZero(m), depth+1))
		}
		return sh
	}
	sh := &shape{Members: []int{}, Subs: []*shape{}}
	if res == "ok" {
		sh = walk(topRef, 0)
	}
	lg.Emit(gate.Event{"ev": "dir", "case": idx, "max": max, "n": c.N, "res": res, "shape": sh})
	if res != "ok" {
		return
	}

	nameID := func(name string) int {
		v, err := strconv.Atoi(strings.TrimPrefix(name, "m"))
		if err != nil || !strings.HasPrefix(name, "m") {
			return -1
		}
		return v
	}
	// DirReader.StaticSet
	{
		list := []int{}
		r := guard("StaticSet", func() string {
			dr, err := schema.NewDirReader(ctx, sto, dirRef)
			if err != nil {
				return "open-error"
			}
			ms, err := dr.StaticSet(ctx)
			if err != nil {
				return "err"
			}
			for _, m := range ms {
				id, ok := memberID[m]
				if !ok {
					id = -1
				}
				list = append(list, id)
			}
			return "ok"
		})
		lg.Emit(gate.Event{"ev": "members", "case": idx, "via": "StaticSet", "res": r, "ids": list})
	}
	// DirReader.Readdir(-1): everything at once
	{
		list := []int{}
		r := guard("Readdir", func() string {
			dr, err := schema.NewDirReader(ctx, sto, dirRef)
			if err != nil {
				return "open-error"
			}
			ents, err := dr.Readdir(ctx, -1)
			if err != nil {
				return "err"
			}
			for _, e := range ents {
				list = append(list, nameID(e.FileName()))
			}
			return "ok"
		})
		lg.Emit(gate.Event{"ev": "members", "case": idx, "via": "Readdir-all", "res": r, "ids": list})
	}
	// DirReader.Readdir(k) until exhausted
	for _, k := range []int{1, max, max + 1, 7} {
		if c.N > 3000 && k < 1000 {
			continue
		}
		pages := [][]int{}
		r := guard("Readdir", func() string {
			dr, err := schema.NewDirReader(ctx, sto, dirRef)
			if err != nil {
				return "open-error"
			}
			total := 0
			for total <= c.N {
				ents, err := dr.Readdir(ctx, k)
				if len(ents) == 0 && (err == nil || errors.Is(err, io.EOF)) {
					return "ok" // the end of the directory (the Directory interface documents io.EOF here)
				}
				if err != nil {
					return "err"
				}
				pg := []int{}
				for _, e := range ents {
					pg = append(pg, nameID(e.FileName()))
				}
				pages = append(pages, pg)
				total += len(ents)
			}
			// more entries than the directory has members and still not at the end
			return "endless"
		})
		lg.Emit(gate.Event{"ev": "readdir", "case": idx, "k": k, "res": r, "pages": pages})
	}
}

func randomDCases(seed int64, n int) []DCase {
	rng := rand.New(rand.NewSource(seed ^ 0xd1d1))
	var out []DCase
	for i := 0; i < n; i++ {
		max := 3 + rng.Intn(6)
		out = append(out, DCase{max, rng.Intn(max*max*max + 2*max)})
	}
	return out
}

var _ = fmt.Sprint
