package main

import (
	"bytes"
	"context"
	"fmt"
	"io"
	"sync"

	"perkeep.org/pkg/blob"
	"perkeep.org/pkg/blobserver"
	"perkeep.org/pkg/blobserver/memory"
)

// recStore is perkeep's memory storage plus a log of every ReceiveBlob in COMPLETION order (the
// entry is appended after the underlying store has accepted the blob, before the call returns).
type recStore struct {
	*memory.Storage
	mu  sync.Mutex
	rec []recUpload
}

type recUpload struct {
	ref  blob.Ref
	data []byte
}

func newStore() *recStore { return &recStore{Storage: &memory.Storage{}} }

func (s *recStore) String() string { return "c15-recording-store" }

func (s *recStore) ReceiveBlob(ctx context.Context, br blob.Ref, src io.Reader) (blob.SizedRef, error) {
	all, err := io.ReadAll(src)
	if err != nil {
		return blob.SizedRef{}, err
	}
	sb, err := s.Storage.ReceiveBlob(ctx, br, bytes.NewReader(all))
	if err != nil {
		return sb, err
	}
	s.mu.Lock()
	s.rec = append(s.rec, recUpload{br, all})
	s.mu.Unlock()
	return sb, nil
}

func (s *recStore) uploads() []recUpload {
	s.mu.Lock()
	defer s.mu.Unlock()
	return append([]recUpload(nil), s.rec...)
}

func (s *recStore) put(data []byte) blob.Ref {
	br := blob.RefFromBytes(data)
	if _, err := blobserver.Receive(context.Background(), s.Storage, br, bytes.NewReader(data)); err != nil {
		fatal(fmt.Errorf("storing a harness blob: %v", err))
	}
	return br
}

func (s *recStore) get(br blob.Ref) ([]byte, bool) {
	rc, _, err := s.Storage.Fetch(context.Background(), br)
	if err != nil {
		return nil, false
	}
	defer rc.Close()
	b, err := io.ReadAll(rc)
	return b, err == nil
}

var _ blobserver.StatReceiver = (*recStore)(nil)
var _ blob.Fetcher = (*recStore)(nil)
