package main

import (
	"context"
	"encoding/json"
	"errors"
	"fmt"
	"io"
	"math/rand"
	"os"
	"strings"

	"perkeep.org/pkg/blob"
	"perkeep.org/pkg/schema"

	"verif/gate"
)

// A Tree is a part tree as TLC (SchemaGen) or the seeded generator chose it: data blobs are lists of
// byte ids (blob k, position j has the value 16k+j; 0 is a hole byte), schema nodes have ids > 100
// and reference data blobs (kind "blob"), higher-numbered nodes (kind "bytes") or nothing ("hole").
type Part struct {
	Kind string `json:"kind"`
	Ref  int    `json:"ref"`
	Off  int    `json:"off"`
	Size int    `json:"size"`
}
type TNode struct {
	ID    int    `json:"id"`
	Kind  string `json:"kind"`
	Parts []Part `json:"parts"`
}
type Tree struct {
	Blobs [][]int `json:"blobs"`
	Nodes []TNode `json:"nodes"`
	Root  int     `json:"root"`
}

func ids(b []byte) []int {
	out := make([]int, len(b))
	for i, c := range b {
		out[i] = int(c)
	}
	return out
}

func errClass(err error) string {
	switch {
	case err == nil:
		return "ok"
	case errors.Is(err, io.EOF), errors.Is(err, io.ErrUnexpectedEOF):
		return "eof"
	}
	return "err"
}

// guard runs f; a panic inside perkeep code is an observation ("panic"), reported on stderr.
func guard(what string, f func() string) (res string) {
	defer func() {
		if r := recover(); r != nil {
			fmt.Fprintf(os.Stderr, "c15: recovered panic in %s (%s): %v\n", what, curCase, r)
			res = "panic"
		}
	}()
	return f()
}

// storeTree stores the tree with the schema package's builder where it can express the node (a "file"
// root without holes) and as raw JSON otherwise; returns the root ref and the ref -> id map.
func storeTree(sto *recStore, idx int, t *Tree) (blob.Ref, map[blob.Ref]int) {
	refs := map[int]blob.Ref{}
	back := map[blob.Ref]int{}
	for i, b := range t.Blobs {
		data := make([]byte, len(b))
		for j, v := range b {
			data[j] = byte(v)
		}
		refs[i+1] = sto.put(data)
		back[refs[i+1]] = i + 1
	}
	nodes := append([]TNode(nil), t.Nodes...)
	// children (higher ids) first
	for i := range nodes {
		for j := i + 1; j < len(nodes); j++ {
			if nodes[j].ID > nodes[i].ID {
				nodes[i], nodes[j] = nodes[j], nodes[i]
			}
		}
	}
	for _, n := range nodes {
		kind := n.Kind
		if n.ID == t.Root && idx%3 == 2 {
			kind = "bytes" // NewFileReader accepts a "bytes" root as well
		}
		hasHole := false
		var bps []schema.BytesPart
		var raw []map[string]any
		total := 0
		for _, p := range n.Parts {
			m := map[string]any{"size": p.Size}
			bp := schema.BytesPart{Size: uint64(p.Size), Offset: uint64(p.Off)}
			switch p.Kind {
			case "blob":
				m["blobRef"] = refs[p.Ref].String()
				bp.BlobRef = refs[p.Ref]
			case "bytes":
				r, ok := refs[p.Ref]
				if !ok {
					fatal(fmt.Errorf("tree %d: node %d references node %d which is not below it", idx, n.ID, p.Ref))
				}
				m["bytesRef"] = r.String()
				bp.BytesRef = r
			default:
				hasHole = true
			}
			if p.Off != 0 {
				m["offset"] = p.Off
			}
			raw = append(raw, m)
			bps = append(bps, bp)
			total += p.Size
		}
		var js string
		if kind == "file" && !hasHole && idx%2 == 0 {
			bb := schema.NewFileMap(fmt.Sprintf("t%d", idx))
			if err := bb.PopulateParts(int64(total), bps); err != nil {
				fatal(fmt.Errorf("tree %d: PopulateParts: %v", idx, err))
			}
			js = bb.Blob().JSON()
		} else {
			if raw == nil {
				raw = []map[string]any{}
			}
			body, _ := json.Marshal(map[string]any{"camliType": kind, "parts": raw})
			js = `{"camliVersion": 1,` + "\n" + strings.TrimPrefix(string(body), "{")
		}
		refs[n.ID] = sto.put([]byte(js))
		back[refs[n.ID]] = n.ID
	}
	return refs[t.Root], back
}

func runTree(lg *gate.Log, idx int, t *Tree, seed int64) {
	ctx := context.Background()
	sto := newStore()
	root, back := storeTree(sto, idx, t)
	open := func() (*schema.FileReader, string) {
		var fr *schema.FileReader
		res := guard("NewFileReader", func() string {
			var err error
			fr, err = schema.NewFileReader(ctx, sto, root)
			if err != nil {
				return "err"
			}
			return "ok"
		})
		return fr, res
	}
	fr, res := open()
	size := -1
	if fr != nil {
		size = int(fr.Size())
	}
	lg.Emit(gate.Event{"ev": "tree", "t": idx, "blobs": t.Blobs, "nodes": t.Nodes, "root": t.Root, "size": size, "open": res})
	if fr == nil || size < 0 || size > 4096 {
		return
	}

	// ReadAt for every (offset, length), including the two offsets at and past the end and lengths
	// reaching one byte past the end
	rs := [][]any{}
	for off := 0; off <= size+1; off++ {
		maxLen := size - off + 1
		if maxLen < 1 {
			maxLen = 1
		}
		for ln := 0; ln <= maxLen; ln++ {
			buf := make([]byte, ln)
			for i := range buf {
				buf[i] = 0xEE
			}
			n := 0
			res := guard("ReadAt", func() string {
				var err error
				n, err = fr.ReadAt(buf, int64(off))
				return errClass(err)
			})
			if n < 0 || n > ln {
				res = fmt.Sprintf("badcount:%d", n)
				n = 0
			}
			rs = append(rs, []any{off, ln, res, ids(buf[:n])})
		}
	}
	lg.Emit(gate.Event{"ev": "readat", "t": idx, "rs": rs})

	// sequential Read with several buffer sizes, each on a fresh reader: runs = [[buf, [[res, ids]...]]...]
	runs := [][]any{}
	for _, b := range []int{1, 2, 3, 5, size + 1} {
		fr2, res := open()
		if fr2 == nil {
			runs = append(runs, []any{b, [][]any{{res, []int{}}}})
			continue
		}
		chunks := [][]any{}
		for it := 0; it < size+4; it++ {
			buf := make([]byte, b)
			n := 0
			res := guard("Read", func() string {
				var err error
				n, err = fr2.Read(buf)
				return errClass(err)
			})
			if n < 0 || n > b {
				res = fmt.Sprintf("badcount:%d", n)
				n = 0
			}
			chunks = append(chunks, []any{res, ids(buf[:n])})
			if res != "ok" {
				break
			}
		}
		fr2.Close()
		runs = append(runs, []any{b, chunks})
	}
	lg.Emit(gate.Event{"ev": "seqread", "t": idx, "runs": runs})

	// one reader object driven through a seeded script of Seek and Read
	rng := rand.New(rand.NewSource(seed*1000003 + int64(idx)))
	fr3, _ := open()
	if fr3 != nil {
		lg.Emit(gate.Event{"ev": "rop", "t": idx, "op": "new"})
		for k := 0; k < 7; k++ {
			if rng.Intn(5) < 2 {
				whence := rng.Intn(3)
				var off int
				switch whence {
				case io.SeekStart:
					off = rng.Intn(size+3) - 1
				case io.SeekCurrent:
					off = rng.Intn(7) - 3
				default:
					off = 1 - rng.Intn(size+3)
				}
				var pos int64
				res := guard("Seek", func() string {
					var err error
					pos, err = fr3.Seek(int64(off), whence)
					if err != nil {
						return "err"
					}
					return "ok"
				})
				lg.Emit(gate.Event{"ev": "rop", "t": idx, "op": "seek", "whence": whence, "off": off, "res": res, "pos": pos})
			} else {
				n := rng.Intn(5)
				buf := make([]byte, n)
				got := 0
				res := guard("Read", func() string {
					var err error
					got, err = fr3.Read(buf)
					return errClass(err)
				})
				if got < 0 || got > n {
					res = fmt.Sprintf("badcount:%d", got)
					got = 0
				}
				lg.Emit(gate.Event{"ev": "rop", "t": idx, "op": "read", "n": n, "res": res, "ids": ids(buf[:got])})
			}
		}
		fr3.Close()
	}

	// ForeachChunk
	fr4, _ := open()
	if fr4 != nil {
		parts := [][]any{}
		res := guard("ForeachChunk", func() string {
			err := fr4.ForeachChunk(ctx, func(_ []blob.Ref, p schema.BytesPart) error {
				switch {
				case p.BlobRef.Valid():
					id, ok := back[p.BlobRef]
					if !ok {
						id = -1
					}
					parts = append(parts, []any{"blob", id, int(p.Offset), int(p.Size)})
				case p.BytesRef.Valid():
					parts = append(parts, []any{"bytes", back[p.BytesRef], int(p.Offset), int(p.Size)})
				default:
					parts = append(parts, []any{"hole", 0, int(p.Offset), int(p.Size)})
				}
				return nil
			})
			if err != nil {
				return "err"
			}
			return "ok"
		})
		lg.Emit(gate.Event{"ev": "chunks", "t": idx, "res": res, "parts": parts})
	}
	fr.Close()
}

// randomTrees: seeded well-formed trees over up to 4 blobs of up to 16 bytes and up to 3 schema
// nodes of up to 4 parts (deeper and wider than the TLC families).
func randomTrees(seed int64, n int) []*Tree {
	rng := rand.New(rand.NewSource(seed))
	var out []*Tree
	for len(out) < n {
		t := &Tree{Root: 101}
		nb := 1 + rng.Intn(4)
		blen := make([]int, nb+1)
		for k := 1; k <= nb; k++ {
			ln := 1 + rng.Intn(16)
			b := make([]int, ln)
			for j := range b {
				b[j] = 16*k + j
			}
			blen[k] = ln
			t.Blobs = append(t.Blobs, b)
		}
		nn := 1 + rng.Intn(3)
		size := map[int]int{}
		window := func(L int) (int, int) {
			off := 0
			if rng.Intn(3) > 0 {
				off = rng.Intn(L)
			}
			sz := L - off
			if rng.Intn(3) > 0 {
				sz = 1 + rng.Intn(L-off)
			}
			return off, sz
		}
		nodes := make([]TNode, nn)
		for id := 100 + nn; id >= 101; id-- {
			kind := "bytes"
			if id == 101 {
				kind = "file"
			}
			np := 1 + rng.Intn(4)
			if id == 101 && rng.Intn(40) == 0 {
				np = 0
			}
			var parts []Part
			total := 0
			for p := 0; p < np; p++ {
				x := rng.Intn(10)
				switch {
				case x < 2:
					sz := 1 + rng.Intn(3)
					parts = append(parts, Part{"hole", 0, 0, sz})
					total += sz
				case x < 6 || id == 100+nn:
					k := 1 + rng.Intn(nb)
					off, sz := window(blen[k])
					parts = append(parts, Part{"blob", k, off, sz})
					total += sz
				default:
					ref := id + 1 + rng.Intn(100+nn-id)
					if size[ref] == 0 {
						continue
					}
					off, sz := window(size[ref])
					parts = append(parts, Part{"bytes", ref, off, sz})
					total += sz
				}
			}
			if parts == nil {
				parts = []Part{}
			}
			if total == 0 && id != 101 {
				parts = []Part{{"blob", 1, 0, 1}}
				total = 1
			}
			size[id] = total
			nodes[id-101] = TNode{id, kind, parts}
		}
		if size[101] > 40 {
			continue
		}
		t.Nodes = nodes
		out = append(out, t)
	}
	return out
}
