//go:build verif

// c19 drives the real sync handler (pkg/server/sync.go, created through
// blobserver.CreateHandler("sync", ...) exactly as the server creates it) over
// harness gates: a gate source whose receives go through blobserver.Receive
// (which notifies the blob hub the handler hooked), a gate destination (a
// memory gate store, or a real index.Index over a gate KV) and a shared
// persistent queue KV.  Scenarios (upload history, destination / source
// failure patterns per attempt, crash points, restarts; burst family: up to
// 100 distinct blobs pending at once behind a destination that is down or a
// stalled pass) come from SyncGen.tla or from a seeded random generator.  Every handler incarnation has its own
// gate.Plan over the same durable backing; a crash freezes the incarnation's
// plan for good (every later lower-layer call fails without effect) and a
// restart creates a new handler over the same queue.
//
// The driver never decides what is right: it records the lower-layer events
// and its own observations; Trace_Sync.tla validates them against Sync.tla.
package main

import (
	"bufio"
	"bytes"
	"context"
	"encoding/json"
	"flag"
	"fmt"
	"io"
	"log"
	"math/rand"
	"os"
	"sync"
	"sync/atomic"
	"time"

	"go4.org/jsonconfig"
	"perkeep.org/pkg/blob"
	"perkeep.org/pkg/blobserver"
	"perkeep.org/pkg/index"
	_ "perkeep.org/pkg/server"
	"perkeep.org/pkg/sorted"

	"verif/gate"
	"verif/world"
)

// ---------------------------------------------------------------- scenarios

// Phase is the life of one handler incarnation.
type Phase struct {
	Ups []int    `json:"ups"` // blob ids uploaded, in order
	Par bool     `json:"par"` // upload them concurrently (distinct blobs only)
	Dst []string `json:"dst"` // outcome of the k-th destination write of this incarnation: ok | error | wrongsize | after
	Src []string `json:"src"` // outcome of the k-th source read of the copier: ok | corrupt | missing | error | sizemis
	// Crash: "none" (last phase), "quiet" (freeze after the phase settled), "sweep" (the driver expands the
	// scenario into one run per lower-layer call k of this phase: FreezeAt = k), "at" (Freeze = k, expanded form)
	Crash  string `json:"crash"`
	Freeze int    `json:"freeze"`
	// Burst family.  Hold: outcome of every destination write beyond Dst until the heal mark ("" = ok): the
	// destination is down for the whole incarnation, so everything uploaded stays pending (an incarnation that is
	// not the last one is killed as soon as its uploads returned: there is nothing to wait for).  Stall: the first
	// destination write of the incarnation does not return before the uploads of the incarnation have: a pass is
	// in progress while the rest becomes pending, and the next pass finds all of it at once (an incarnation that
	// is not the last one is killed while the write is still stalled).
	Hold  string `json:"hold,omitempty"`
	Stall bool   `json:"stall,omitempty"`
}

type Scn struct {
	Cfg    string  `json:"cfg"` // "mem" | "index"
	N      int     `json:"n"`   // scenario blobs are 1..n
	Pool   int     `json:"pool"`
	Phases []Phase `json:"phases"`
	ID     int     `json:"id"`
	Seed   int64   `json:"seed"`
	NoPerm bool    `json:"noperm,omitempty"`
	// Pre: scenario blobs the source already holds when the first incarnation starts (stored before the sync
	// handler was attached: no hook ran, no queue row exists, the destination does not have them).  An upload of
	// such a blob is a receive like any other: it must be enqueued and delivered.
	Pre []int `json:"pre,omitempty"`
}

const (
	nWorld   = 4   // ids 1..4: scenario blobs (index configuration: key, permanode, two claims)
	stdBlob  = 40  // ids 5..40: wake-up blobs of the scenarios with at most nWorld blobs (Trace_Sync: Blobs = 1..40)
	maxBlob  = 120 // burst scenarios (n > nWorld): ids 1..n scenario blobs, n+1..120 wake-up blobs (Blobs = 1..120)
	maxBurst = 100 // largest n: at least 20 wake-up blobs are left
	watchdog = 3 * time.Second
)

// ---------------------------------------------------------------- wrappers

// flight counts lower-layer calls in progress, so that the driver can place
// its own marks (crash, heal, final) after every call that started earlier has
// logged its effect.
type flight struct{ n atomic.Int64 }

func (f *flight) in()  { f.n.Add(1) }
func (f *flight) out() { f.n.Add(-1) }
func (f *flight) drain() {
	dl := time.Now().Add(60 * time.Second)
	for f.n.Load() != 0 {
		if time.Now().After(dl) {
			fatal(fmt.Errorf("lower-layer calls still in flight after 60 s"))
		}
		time.Sleep(20 * time.Microsecond)
	}
}

// srcSto is the gate source.  Its Fetch serves the copier: the outcome of the
// k-th read follows the scenario's source pattern and is logged as served.
type srcSto struct {
	*gate.Storage
	fl     *flight
	lg     *gate.Log
	id     func(blob.Ref) int
	mu     sync.Mutex
	nFetch int
	pat    []string
	healed bool
}

func (s *srcSto) ReceiveBlob(ctx context.Context, br blob.Ref, r io.Reader) (blob.SizedRef, error) {
	s.fl.in()
	defer s.fl.out()
	return s.Storage.ReceiveBlob(ctx, br, r)
}

func (s *srcSto) Fetch(ctx context.Context, br blob.Ref) (io.ReadCloser, uint32, error) {
	s.fl.in()
	defer s.fl.out()
	rc, size, err := s.Storage.Fetch(ctx, br)
	if err == gate.ErrFrozen {
		return nil, 0, err
	}
	s.mu.Lock()
	defer s.mu.Unlock()
	o := "ok"
	if !s.healed && s.nFetch < len(s.pat) {
		o = s.pat[s.nFetch]
	}
	s.nFetch++
	if err != nil {
		s.lg.Emit(gate.Event{"ev": "fetch", "b": s.id(br), "res": "missing"})
		return nil, 0, err
	}
	switch o {
	case "corrupt":
		data, _ := io.ReadAll(rc)
		rc.Close()
		if len(data) == 0 {
			o = "missing"
			break
		}
		bad := append([]byte(nil), data...)
		bad[len(bad)/2] ^= 0x20
		s.lg.Emit(gate.Event{"ev": "fetch", "b": s.id(br), "res": "corrupt"})
		return io.NopCloser(bytes.NewReader(bad)), size, nil
	case "sizemis":
		s.lg.Emit(gate.Event{"ev": "fetch", "b": s.id(br), "res": "sizemis"})
		return rc, size + 1, nil
	case "error":
		rc.Close()
		s.lg.Emit(gate.Event{"ev": "fetch", "b": s.id(br), "res": "error"})
		return nil, 0, gate.ErrInjected
	}
	if o == "missing" {
		rc.Close()
		s.lg.Emit(gate.Event{"ev": "fetch", "b": s.id(br), "res": "missing"})
		return nil, 0, os.ErrNotExist
	}
	s.lg.Emit(gate.Event{"ev": "fetch", "b": s.id(br), "res": "ok"})
	return rc, size, nil
}

func (s *srcSto) fetches() int {
	s.mu.Lock()
	defer s.mu.Unlock()
	return s.nFetch
}

func (s *srcSto) consumed() bool {
	s.mu.Lock()
	defer s.mu.Unlock()
	return s.healed || s.nFetch >= len(s.pat)
}

// dstSto is the destination as the handler sees it: a gate store over the destination MemStore ("mem"
// configuration) or a real index.Index over a gate KV ("index" configuration) behind a recording wrapper.
// The destination failures of the scenario are failures of the destination as a blob receiver: "error" = the
// call fails and nothing is stored, "after" = the blob is stored but the reply is an error, "wrongsize" = it is
// stored and size+1 is reported.  The outcome of the k-th receive of the incarnation follows the scenario's
// pattern until the heal mark, and every receive is logged as it was reported.  If the process died inside
// the destination (index: between two of its row writes), the durable state tells whether the blob got
// recorded all the same (logged as "after": stored, reply lost).
type dstSto struct {
	blobserver.Storage
	fl     *flight
	lg     *gate.Log
	id     func(blob.Ref) int
	plan   *gate.Plan
	stored func(blob.Ref) bool
	ix     *index.Index // index configuration only
	mu     sync.Mutex
	n      int
	pat    []string
	hold   string        // outcome beyond pat until healed ("" = ok)
	stall  chan struct{} // non-nil: the first receive waits until it is closed (or the process died)
	healed bool
}

func (d *dstSto) consumed() bool {
	d.mu.Lock()
	defer d.mu.Unlock()
	return d.healed || d.n >= len(d.pat)
}

func (d *dstSto) ReceiveBlob(ctx context.Context, br blob.Ref, r io.Reader) (blob.SizedRef, error) {
	d.fl.in()
	defer d.fl.out()
	if d.plan.Frozen() {
		return blob.SizedRef{}, gate.ErrFrozen
	}
	d.mu.Lock()
	o := "ok"
	if !d.healed && d.n < len(d.pat) {
		o = d.pat[d.n]
	} else if !d.healed && d.hold != "" {
		o = d.hold
	}
	first := d.n == 0
	d.n++
	d.mu.Unlock()
	if first && d.stall != nil {
		for stalled := true; stalled && !d.plan.Frozen(); {
			select {
			case <-d.stall:
				stalled = false
			case <-time.After(50 * time.Microsecond):
			}
		}
	}
	if o == "error" {
		io.Copy(io.Discard, r)
		d.lg.Emit(gate.Event{"ev": "recv", "b": d.id(br), "res": "error"})
		return blob.SizedRef{}, gate.ErrInjected
	}
	sb, err := d.Storage.ReceiveBlob(ctx, br, r)
	if err != nil {
		if d.plan.Frozen() {
			// died inside the destination: whatever reached the durable state stays, the reply is lost
			if d.stored(br) {
				d.lg.Emit(gate.Event{"ev": "recv", "b": d.id(br), "res": "after"})
			}
			return blob.SizedRef{}, gate.ErrFrozen
		}
		// the destination itself refused the blob: an observation like any other
		res := "error"
		if d.stored(br) {
			res = "after"
		}
		d.lg.Emit(gate.Event{"ev": "recv", "b": d.id(br), "res": res})
		return sb, err
	}
	switch o {
	case "after":
		d.lg.Emit(gate.Event{"ev": "recv", "b": d.id(br), "res": "after"})
		return blob.SizedRef{}, gate.ErrInjected
	case "wrongsize":
		d.lg.Emit(gate.Event{"ev": "recv", "b": d.id(br), "res": "wrongsize"})
		sb.Size++
		return sb, nil
	}
	d.lg.Emit(gate.Event{"ev": "recv", "b": d.id(br), "res": "ok"})
	return sb, nil
}

// qKV is the queue gate.  The uploader's Set and the copier's Delete of the same row may run concurrently
// (the handler notes the blob in memory before it writes the row); the gate performs a call's effect and
// then logs it, so the mutex makes the order of the log lines the order of the effects.
type qKV struct {
	*gate.KV
	fl *flight
	mu *sync.Mutex
}

func (q *qKV) Set(k, v string) error {
	q.fl.in()
	defer q.fl.out()
	q.mu.Lock()
	defer q.mu.Unlock()
	return q.KV.Set(k, v)
}
func (q *qKV) Delete(k string) error {
	q.fl.in()
	defer q.fl.out()
	q.mu.Lock()
	defer q.mu.Unlock()
	return q.KV.Delete(k)
}
func (q *qKV) Find(s, e string) sorted.Iterator {
	q.fl.in()
	defer q.fl.out()
	q.mu.Lock()
	defer q.mu.Unlock()
	return q.KV.Find(s, e)
}

type loader struct{ m map[string]blobserver.Storage }

func (l *loader) FindHandlerByType(string) (string, any, error) {
	return "", nil, blobserver.ErrHandlerTypeNotFound
}
func (l *loader) AllHandlers() (map[string]string, map[string]any) { return nil, nil }
func (l *loader) MyPrefix() string                                 { return "/sync/" }
func (l *loader) BaseURL() string                                  { return "http://localhost:1" }
func (l *loader) GetHandlerType(string) string                     { return "" }
func (l *loader) GetHandler(p string) (any, error)                 { return l.m[p], nil }
func (l *loader) GetStorage(p string) (blobserver.Storage, error) {
	if s, ok := l.m[p]; ok {
		return s, nil
	}
	return nil, fmt.Errorf("no storage %q", p)
}

// ---------------------------------------------------------------- universe

type universe struct {
	refs [maxBlob + 1]blob.Ref
	data [maxBlob + 1][]byte
	byID map[blob.Ref]int
}

var (
	uniMem, uniIx *universe
)

func mkUniverse(seed int64, built *world.Built) *universe {
	u := &universe{byID: map[blob.Ref]int{}}
	chunk := make([]byte, 70000)
	for i := range chunk {
		chunk[i] = byte((int64(i)*7 + seed) % 251)
	}
	for i := 1; i <= maxBlob; i++ {
		var d []byte
		switch {
		case built != nil && i <= nWorld:
			d = built.Blobs[i]
		case i == 1:
			d = []byte{byte('a' + seed%20)}
		case i == 2:
			d = []byte(fmt.Sprintf("small-blob-%d", seed))
		case i == 3:
			d = chunk
		case i == 4:
			d = []byte(fmt.Sprintf(`{"camliVersion": 1, "camliType": "bytes", "parts": [], "x": %d}`, seed))
		default:
			d = []byte(fmt.Sprintf("wake-%d-%d", i, seed))
		}
		u.data[i] = d
		if built != nil && i <= nWorld {
			u.refs[i] = built.Refs[i]
		} else {
			u.refs[i] = blob.RefFromBytes(d)
		}
		u.byID[u.refs[i]] = i
	}
	return u
}

func (u *universe) id(br blob.Ref) int { return u.byID[br] }

// ---------------------------------------------------------------- one run

type incarnation struct {
	once sync.Once // crash mark written
	plan *gate.Plan
	src  *srcSto
	dst  *dstSto
}

type run struct {
	scn    *Scn
	u      *universe
	lg     *gate.Log
	fl     *flight
	srcMem *gate.MemStore
	dstMem *gate.MemStore
	qBack  sorted.KeyValue
	ixBack sorted.KeyValue
	cur    *incarnation
	acked  map[int]bool
	tried  map[int]bool
	nextWk int
	lastWk int
	qmu    sync.Mutex
	calls  []int // lower-layer calls of each phase (dry run)
	wakes  int
}

var kvSeq atomic.Int64

func (r *run) mark(ev string) { r.lg.Emit(gate.Event{"ev": ev, "b": 0, "res": ""}) }

// start creates a handler incarnation. It returns false if the incarnation died while starting.
func (r *run) start(ph *Phase) bool {
	r.mark("start")
	inc := &incarnation{plan: gate.NewPlan()}
	if ph.Freeze > 0 {
		inc.plan.FreezeAt = ph.Freeze
	}
	r.cur = inc
	sg := gate.NewStorage("src", r.srcMem, inc.plan, r.lg)
	sg.Quiet = true
	sg.Rank = func(br blob.Ref) any { return r.u.id(br) }
	inc.src = &srcSto{Storage: sg, fl: r.fl, lg: r.lg, id: r.u.id, pat: ph.Src}
	q := gate.NewKV("queue", r.qBack, inc.plan, r.lg)
	q.Quiet = false
	q.KeyFn = func(k string) any {
		if br, ok := blob.Parse(k); ok {
			return r.u.id(br)
		}
		return k
	}
	qname := fmt.Sprintf("c19q%d", kvSeq.Add(1))
	gate.RegisterNamedKV(qname, &qKV{KV: q, fl: r.fl, mu: &r.qmu})
	ld := &loader{m: map[string]blobserver.Storage{"/src/": inc.src}}
	died := func(err error) bool {
		if inc.plan.Frozen() {
			r.noteCrash(inc)
			return false
		}
		fatal(fmt.Errorf("run %d: starting an incarnation failed although nothing was frozen: %v", r.scn.ID, err))
		return false
	}
	inc.dst = &dstSto{fl: r.fl, lg: r.lg, id: r.u.id, plan: inc.plan, pat: ph.Dst, hold: ph.Hold}
	if ph.Stall {
		inc.dst.stall = make(chan struct{})
	}
	if r.scn.Cfg == "index" {
		kv := gate.NewKV("ixkv", r.ixBack, inc.plan, nil)
		ix, err := newIndex(kv, inc.plan)
		if err != nil {
			return died(err)
		}
		ix.InitBlobSource(sg)
		inc.dst.Storage, inc.dst.ix = ix, ix
		inc.dst.stored = func(br blob.Ref) bool { _, err := r.ixBack.Get("have:" + br.String()); return err == nil }
	} else {
		inc.dst.Storage = gate.NewStorage("dst", r.dstMem, inc.plan, nil)
		inc.dst.stored = r.dstMem.Has
	}
	ld.m["/dst/"] = inc.dst
	pool := r.scn.Pool
	if pool <= 0 {
		pool = 5
	}
	h, err := blobserver.CreateHandler("sync", ld, jsonconfig.Obj{
		"from": "/src/", "to": "/dst/", "copierPoolSize": float64(pool),
		"queue": map[string]any{"type": "verifkv", "name": qname}})
	if err != nil {
		return died(err)
	}
	if hi, ok := h.(blobserver.HandlerIniter); ok {
		if err := hi.InitHandler(ld); err != nil {
			fatal(err)
		}
	}
	return true
}

// newIndex opens the index; index.New panics when its first row read fails, which is what a process dying
// at that call amounts to.
func newIndex(kv sorted.KeyValue, plan *gate.Plan) (ix *index.Index, err error) {
	defer func() {
		if p := recover(); p != nil {
			if !plan.Frozen() {
				panic(p)
			}
			err = fmt.Errorf("index.New: %v", p)
		}
	}()
	return index.New(kv)
}

// noteCrash writes the crash mark of an incarnation whose plan froze: once, and after every lower-layer
// call that started before the freeze has logged its effect.
func (r *run) noteCrash(inc *incarnation) {
	inc.once.Do(func() {
		r.fl.drain()
		r.mark("crash")
	})
}

func (r *run) crashed() bool {
	inc := r.cur
	if inc == nil {
		return true
	}
	if !inc.plan.Frozen() {
		return false
	}
	r.noteCrash(inc)
	r.cur = nil
	return true
}

func (r *run) kill() {
	if r.cur == nil {
		return
	}
	r.cur.plan.Freeze()
	r.crashed()
}

// upload sends one blob the way the server's upload handler does.
func (r *run) upload(inc *incarnation, id int) bool {
	_, err := blobserver.Receive(context.Background(), inc.src, r.u.refs[id], bytes.NewReader(r.u.data[id]))
	res := "ok"
	if err != nil {
		res = "err"
		if !inc.plan.Frozen() {
			fatal(fmt.Errorf("run %d: upload of %d failed although nothing was injected on the upload path: %v", r.scn.ID, id, err))
		}
	}
	if inc.plan.Frozen() {
		r.noteCrash(inc) // the process died during (or right after) this upload: the client learns the outcome later
	}
	r.lg.Emit(gate.Event{"ev": "ack", "b": id, "res": res})
	return err == nil
}

func (r *run) delivered(id int) string {
	br := r.u.refs[id]
	if r.scn.Cfg == "index" {
		v, err := r.ixBack.Get("have:" + br.String())
		if err != nil {
			return "undelivered"
		}
		if v == fmt.Sprintf("%d|indexed", len(r.u.data[id])) {
			return "delivered"
		}
		if v == fmt.Sprintf("%d", len(r.u.data[id])) {
			return "undelivered" // accepted, waiting for a dependency: not indexed yet
		}
		return "corrupt"
	}
	b, ok := r.dstMem.Get(br)
	if !ok {
		return "undelivered"
	}
	if bytes.Equal(b, r.u.data[id]) {
		return "delivered"
	}
	return "corrupt"
}

// handled: the destination has taken the blob.  For the index that includes a blob it accepted but cannot
// index before a dependency arrives (it keeps a missing|blob|dependency row and indexes it later by itself).
func (r *run) handled(id int) bool {
	if r.delivered(id) == "delivered" {
		return true
	}
	if r.scn.Cfg != "index" {
		return false
	}
	br := r.u.refs[id].String()
	if _, err := r.ixBack.Get("have:" + br); err == nil {
		return true
	}
	it := r.ixBack.Find("missing|"+br+"|", "missing|"+br+"}")
	defer it.Close()
	return it.Next()
}

func (r *run) allDelivered() bool {
	for id := range r.ackedSnapshot() {
		if !r.handled(id) {
			return false
		}
	}
	return true
}

func (r *run) allIndexed() bool {
	for id := range r.ackedSnapshot() {
		if r.delivered(id) != "delivered" {
			return false
		}
	}
	return true
}

var ackMu sync.Mutex

func (r *run) ackedSnapshot() map[int]bool {
	ackMu.Lock()
	defer ackMu.Unlock()
	m := map[int]bool{}
	for k := range r.acked {
		m[k] = true
	}
	return m
}

func (r *run) undelivered() bool { return !r.allDelivered() }

func (r *run) queueEmpty() bool { return len(gate.Dump(r.qBack)) == 0 }

// settled: every acknowledged blob is at the destination and the queue is empty - or has stayed as it is
// while nothing happened at the gates for a while (a row written after its blob was delivered stays until
// the next restart; whether the rows that are left are legitimate is for the specification to say).
func (r *run) settled() func() bool {
	var since time.Time
	last := int64(-1)
	return func() bool {
		if !r.allDelivered() {
			since = time.Time{}
			return false
		}
		if r.queueEmpty() {
			return true
		}
		if n := r.lg.Len(); n != last || since.IsZero() {
			last, since = n, time.Now()
			return false
		}
		return time.Since(since) > 25*time.Millisecond && r.fl.n.Load() == 0
	}
}

// expired counts bounded waits that ran out.  On a healthy tree none does; once many have (a broken tree),
// the remaining runs use a shorter horizon so that the check still ends in reasonable time.
var expired atomic.Int64

// await polls cond; while nothing happens at the gates (and needWork says something is still owed) it wakes
// the copy loop the only way the handler offers: by enqueueing a blob it has not seen (the loop otherwise
// sleeps for the 5 s queueSyncInterval after a round in which every copy failed; a wake-up that arrives while
// the loop is not yet sleeping is lost, so wake-ups are repeated with growing pauses).  The wake-up blobs are
// ordinary uploads and are validated like all others.  Returns false on expiry or when the incarnation froze.
func (r *run) await(cond func() bool, wd time.Duration, needWork func() bool) bool {
	inc := r.cur
	if n := expired.Load(); n > 300 {
		wd = wd / 8
	} else if n > 60 {
		wd = wd / 3
	}
	// The horizon is measured in effective time: a poll counts for at most 1 ms, so that a process starved of
	// CPU (the machine is shared) does not run out of patience while the handler had no chance to work; and
	// while work is owed, patience only ends after several wake-ups in a row went unanswered by the copier.
	var eff, idleEff time.Duration
	hard := time.Now().Add(45 * time.Second)
	prev := time.Now()
	last := r.lg.Len()
	idle := 4 * time.Millisecond
	unanswered := 0
	fetches := inc.src.fetches()
	for {
		if inc.plan.Frozen() {
			return false
		}
		if cond() {
			return true
		}
		now := time.Now()
		d := now.Sub(prev)
		prev = now
		if d > time.Millisecond {
			d = time.Millisecond
		}
		eff += d
		if f := inc.src.fetches(); f != fetches {
			fetches, unanswered, idle = f, 0, 4*time.Millisecond
		}
		if (eff > wd && (unanswered >= 6 || !needWork())) || now.After(hard) {
			expired.Add(1)
			return false
		}
		if n := r.lg.Len(); n != last {
			last, idleEff = n, 0
		} else if idleEff += d; idleEff > idle && needWork() {
			if r.nextWk <= r.lastWk {
				id := r.nextWk
				r.nextWk++
				r.wakes++
				r.tried[id] = true
				r.uploadNote(inc, id)
			}
			unanswered++
			if idle = idle * 3 / 2; idle > 150*time.Millisecond {
				idle = 150 * time.Millisecond
			}
			last, idleEff, prev = r.lg.Len(), 0, time.Now()
		}
		time.Sleep(100 * time.Microsecond)
	}
}

// quiesce waits (bounded) until nothing has happened at the gates for a while.
func (r *run) quiesce(inc *incarnation) {
	dl := time.Now().Add(2 * time.Second)
	last, since := r.lg.Len(), time.Now()
	for time.Now().Before(dl) && !inc.plan.Frozen() {
		if n := r.lg.Len(); n != last || r.fl.n.Load() != 0 {
			last, since = n, time.Now()
		} else if time.Since(since) > 3*time.Millisecond {
			return
		}
		time.Sleep(100 * time.Microsecond)
	}
}

func (r *run) uploadNote(inc *incarnation, id int) {
	if r.upload(inc, id) {
		ackMu.Lock()
		r.acked[id] = true
		ackMu.Unlock()
	}
}

func (r *run) exec() {
	scn := r.scn
	var carry []int
	for pi := range scn.Phases {
		ph := &scn.Phases[pi]
		last := pi == len(scn.Phases)-1
		ups := append([]int(nil), carry...)
		for _, j := range ph.Ups {
			if scn.Cfg == "index" && !scn.NoPerm && j >= 1 && j <= nWorld {
				j = ixPerms[scn.ID%len(ixPerms)][j-1]
			}
			ups = append(ups, j)
		}
		carry = nil
		if last && scn.Cfg == "index" {
			// the world is completed so that every dependency can be resolved
			for id := 1; id <= nWorld; id++ {
				seen := false
				for _, x := range ups {
					seen = seen || x == id
				}
				if !seen && !r.acked[id] {
					ups = append(ups, id)
				}
			}
		}
		ok := r.start(ph)
		for !ok && last {
			// the last incarnation must come up: start again without a crash point
			ph.Freeze = 0
			ok = r.start(ph)
		}
		if !ok {
			carry = ups
			r.calls = append(r.calls, 1)
			continue
		}
		inc := r.cur
		distinct := map[int]bool{}
		for _, id := range ups {
			distinct[id] = true
		}
		if ph.Par && len(distinct) == len(ups) && len(ups) > 1 {
			var wg sync.WaitGroup
			for _, id := range ups {
				r.tried[id] = true
				wg.Add(1)
				go func(id int) { defer wg.Done(); r.uploadNote(inc, id) }(id)
			}
			wg.Wait()
		} else {
			for i, id := range ups {
				if inc.plan.Frozen() {
					carry = append(carry, ups[i:]...) // the client retries after the restart
					break
				}
				r.tried[id] = true
				r.uploadNote(inc, id)
			}
		}
		if inc.dst.stall != nil && last {
			close(inc.dst.stall)
		}
		if !last {
			// let the incarnation work until it dies at its crash point, or has nothing left to do (it never
			// has while its destination is down or its first write is stalled: it is then killed at once,
			// with everything pending)
			if ph.Hold == "" && !ph.Stall {
				r.await(r.settled(), watchdog/2, r.undelivered)
			}
			r.calls = append(r.calls, inc.plan.Calls())
			if !r.crashed() {
				r.kill()
			}
			// uploads that were not acknowledged are retried by the client after the restart
			for _, id := range ups {
				if !r.acked[id] {
					dup := false
					for _, c := range carry {
						dup = dup || c == id
					}
					if !dup {
						carry = append(carry, id)
					}
				}
			}
			continue
		}
		// last phase: let the armed faults be used up (best effort), heal, wait (bounded) for delivery
		r.await(func() bool { return inc.src.consumed() && inc.dst.consumed() }, watchdog, func() bool { return true })
		if ph.Hold != "" {
			r.quiesce(inc) // the copy loop has tried what is pending and sleeps: the heal finds all of it pending
		}
		inc.src.mu.Lock()
		inc.src.healed = true
		inc.src.mu.Unlock()
		inc.dst.mu.Lock()
		inc.dst.healed = true
		inc.dst.mu.Unlock()
		r.fl.drain() // calls that chose their outcome before the switch have logged it
		r.mark("heal")
		r.await(r.settled(), watchdog, r.undelivered)
		if inc.dst.ix != nil && !inc.plan.Frozen() {
			done := make(chan bool, 1)
			go func() { inc.dst.ix.VerifAwaitAsyncIndexing(); done <- true }()
			select {
			case <-done:
			case <-time.After(watchdog):
			}
			r.await(r.allIndexed, watchdog/4, func() bool { return false })
		}
		r.calls = append(r.calls, inc.plan.Calls())
		// stop the world, then observe
		inc.plan.Freeze()
		r.fl.drain()
	}
	if os.Getenv("C19_DEBUG") != "" && r.scn.Cfg == "index" {
		for k, v := range gate.Dump(r.ixBack) {
			for id := 1; id <= nWorld; id++ {
				if bytes.Contains([]byte(k), []byte(r.u.refs[id].String())) && (k[:4] == "have" || k[:4] == "miss") {
					fmt.Fprintf(os.Stderr, "run freeze=%v ixrow %s = %s   (blob %d is %s)\n", r.scn.Phases[0].Freeze, k, v, id, r.u.refs[id])
				}
			}
		}
	}
	rows := gate.Dump(r.qBack)
	seen := map[int]bool{}
	for id := 1; id <= maxBlob; id++ {
		_, row := rows[r.u.refs[id].String()]
		if r.tried[id] || row {
			seen[id] = true
			r.lg.Emit(gate.Event{"ev": "final", "b": id, "res": r.delivered(id), "row": row})
		}
	}
	for k := range rows {
		br, ok := blob.Parse(k)
		if !ok || r.u.id(br) == 0 {
			r.lg.Emit(gate.Event{"ev": "final", "b": 0, "res": "foreign-row:" + k, "row": true})
		}
	}
}

// project turns the common log into the lines of Trace_Sync.
func project(evs []gate.Event) []gate.Event {
	var out []gate.Event
	for _, e := range evs {
		if e["ev"] != "lower" {
			out = append(out, e)
			continue
		}
		layer, call, res := e["layer"], e["call"], fmt.Sprint(e["res"])
		b := e["b"]
		if b == nil {
			b = e["k"]
		}
		if b == nil {
			b = 0
		}
		line := gate.Event{"b": b, "res": res, "seq": e["seq"]}
		switch {
		case layer == "src" && call == "ReceiveBlob" && res == "ok":
			line["ev"] = "up"
		case layer == "queue" && call == "Set":
			line["ev"] = "set"
		case layer == "queue" && call == "Delete":
			line["ev"] = "del"
		case layer == "queue" && call == "Find":
			line["ev"] = "find"
		default:
			line["ev"] = fmt.Sprintf("other:%v.%v", layer, call)
		}
		out = append(out, line)
	}
	return out
}

var (
	outMu sync.Mutex
	outW  *bufio.Writer
	nRuns atomic.Int64
	nEv   atomic.Int64
	nWake atomic.Int64
)

func emitRun(scn *Scn, evs []gate.Event) {
	outMu.Lock()
	defer outMu.Unlock()
	hdr := gate.Event{"ev": "reset", "b": 0, "res": scn.Cfg, "scn": scn}
	sg := nRuns.Load() + 1
	for _, e := range append([]gate.Event{hdr}, evs...) {
		e["sg"] = sg
		b, err := json.Marshal(e)
		if err != nil {
			fatal(err)
		}
		outW.Write(b)
		outW.WriteByte('\n')
		nEv.Add(1)
	}
	nRuns.Add(1)
}

// ixPerms: in the index configuration scenario blob j is world item ixPerms[id%4][j-1], so that claims and
// permanodes also reach the index before the key / permanode they depend on.
var ixPerms = [][]int{{1, 2, 3, 4}, {2, 1, 3, 4}, {3, 1, 2, 4}, {4, 2, 1, 3}}

func norm(scn *Scn) {
	for i := range scn.Phases {
		ph := &scn.Phases[i]
		if ph.Ups == nil {
			ph.Ups = []int{}
		}
		if ph.Dst == nil {
			ph.Dst = []string{}
		}
		if ph.Src == nil {
			ph.Src = []string{}
		}
	}
}

func runOne(scn *Scn) []int {
	norm(scn)
	u := uniMem
	if scn.Cfg == "index" {
		u = uniIx
	}
	if scn.N > maxBurst {
		fatal(fmt.Errorf("scenario %d: n = %d > %d", scn.ID, scn.N, maxBurst))
	}
	r := &run{scn: scn, u: u, lg: gate.NewLog(), fl: &flight{}, srcMem: gate.NewMemStore(), dstMem: gate.NewMemStore(),
		qBack: sorted.NewMemoryKeyValue(), ixBack: sorted.NewMemoryKeyValue(), acked: map[int]bool{}, tried: map[int]bool{},
		nextWk: nWorld + 1, lastWk: stdBlob}
	if scn.N > nWorld {
		r.nextWk, r.lastWk = scn.N+1, maxBlob
	}
	for _, j := range scn.Pre {
		if scn.Cfg == "index" && !scn.NoPerm && j >= 1 && j <= nWorld {
			j = ixPerms[scn.ID%len(ixPerms)][j-1]
		}
		r.srcMem.Put(u.refs[j], u.data[j])
		r.lg.Emit(gate.Event{"ev": "pre", "b": j, "res": ""})
	}
	r.exec()
	nWake.Add(int64(r.wakes))
	emitRun(scn, project(r.lg.Events()))
	return r.calls
}

func fatal(err error) {
	fmt.Fprintln(os.Stderr, "c19:", err)
	os.Exit(2)
}

// ---------------------------------------------------------------- random scenarios

func randomScn(rng *rand.Rand, id int) *Scn {
	s := &Scn{Cfg: "mem", N: 2 + rng.Intn(3), Pool: []int{1, 2, 5}[rng.Intn(3)], ID: id}
	if rng.Intn(4) == 0 {
		s.Cfg = "index"
	}
	if rng.Intn(4) == 0 {
		// some blobs are at the source before the handler is attached
		for b := 1; b <= s.N; b++ {
			if rng.Intn(2) == 0 {
				s.Pre = append(s.Pre, b)
			}
		}
	}
	np := 1 + rng.Intn(3)
	dk := []string{"ok", "error", "wrongsize", "after"}
	sk := []string{"ok", "corrupt", "missing", "error", "sizemis"}
	for p := 0; p < np; p++ {
		ph := Phase{Crash: "quiet", Par: rng.Intn(3) == 0}
		for i, n := 0, rng.Intn(4); i < n; i++ {
			ph.Ups = append(ph.Ups, 1+rng.Intn(s.N))
		}
		for i, n := 0, rng.Intn(4); i < n; i++ {
			ph.Dst = append(ph.Dst, dk[rng.Intn(len(dk))])
		}
		for i, n := 0, rng.Intn(3); i < n; i++ {
			ph.Src = append(ph.Src, sk[rng.Intn(len(sk))])
		}
		if p == np-1 {
			ph.Crash = "none"
		} else if rng.Intn(2) == 0 {
			ph.Crash = "at"
			ph.Freeze = 1 + rng.Intn(14)
		}
		s.Phases = append(s.Phases, ph)
	}
	if len(s.Phases[0].Ups) == 0 {
		s.Phases[0].Ups = []int{1, 2}
	}
	return s
}

// randomBurst: a seeded random member of the burst family (SyncGen.tla, BInit) with sizes, cuts and crash
// points the enumerated family does not have.
func randomBurst(rng *rand.Rand, id int) *Scn {
	sizes := []int{9, 10, 11, 12, 13, 14, 17, 18, 19, 20, 21, 22, 25, 30, 40, 60, 80, maxBurst}
	n := sizes[rng.Intn(len(sizes))]
	if rng.Intn(3) == 0 {
		n = 5 + rng.Intn(maxBurst-4)
	}
	s := &Scn{Cfg: "mem", N: n, Pool: []int{1, 2, 5}[rng.Intn(3)], ID: id}
	holds := []string{"error", "error", "after", "wrongsize"}
	ups := func(a, b int) []int {
		u := []int{}
		for i := a; i <= b; i++ {
			u = append(u, i)
		}
		rng.Shuffle(len(u), func(i, j int) { u[i], u[j] = u[j], u[i] })
		return u
	}
	np := 1 + rng.Intn(3)
	cut := 0
	for p := 0; p < np; p++ {
		ph := Phase{Crash: "quiet", Par: rng.Intn(2) == 0}
		to := n
		if p < np-1 && rng.Intn(2) == 0 {
			to = cut + rng.Intn(n-cut+1)
		}
		ph.Ups = ups(cut+1, to)
		cut = to
		switch rng.Intn(4) {
		case 0:
			ph.Hold = holds[rng.Intn(len(holds))]
		case 1:
			ph.Stall = true
		case 2:
			ph.Hold, ph.Stall = holds[rng.Intn(len(holds))], true
		}
		if p == np-1 {
			ph.Crash = "none"
		} else if rng.Intn(2) == 0 {
			ph.Crash, ph.Freeze = "at", 1+rng.Intn(5*len(ph.Ups)+10)
		}
		s.Phases = append(s.Phases, ph)
	}
	return s
}

func main() {
	burst := flag.Bool("burst", false, "with -random: random members of the burst family")
	scnF := flag.String("scn", "", "scenarios (JSON lines) from SyncGen")
	only := flag.String("only", "", "one expanded scenario (JSON)")
	out := flag.String("out", "trace.ndjson", "trace output")
	seed := flag.Int64("seed", 1, "seed")
	random := flag.Int("random", 0, "number of random scenarios")
	par := flag.Int("par", 12, "scenarios run concurrently")
	secring := flag.String("secring", "", "test secret key ring (index configuration)")
	cfgs := flag.String("cfgs", "mem", "configurations to run the scenarios on: mem | index | both")
	flag.Parse()
	log.SetOutput(io.Discard)
	f, err := os.Create(*out)
	if err != nil {
		fatal(err)
	}
	outW = bufio.NewWriterSize(f, 1<<20)
	uniMem = mkUniverse(*seed, nil)
	if *secring != "" {
		sg, err := world.LoadSigners(*secring)
		if err != nil {
			fatal(err)
		}
		w := &world.World{Values: []string{"A", "t"}, Items: []world.Item{
			{ID: 1, Kind: "key", Signer: 1},
			{ID: 2, Kind: "permanode", Signer: 1, Data: fmt.Sprintf("p%d", *seed)},
			{ID: 3, Kind: "claim", Claim: "set", PN: 2, Attr: "title", Val: 1, Date: 10, Signer: 1},
			{ID: 4, Kind: "claim", Claim: "add", PN: 2, Attr: "tag", Val: 2, Date: 20, Signer: 1},
		}}
		built, err := world.Build(w, sg)
		if err != nil {
			fatal(err)
		}
		uniIx = mkUniverse(*seed, built)
	}
	var scns []*Scn
	if *only != "" {
		var s Scn
		if err := json.Unmarshal([]byte(*only), &s); err != nil {
			fatal(err)
		}
		scns = append(scns, &s)
	} else if *random > 0 {
		rng := rand.New(rand.NewSource(*seed))
		for i := 0; i < *random; i++ {
			var s *Scn
			if *burst {
				s = randomBurst(rng, i)
			} else {
				s = randomScn(rng, i)
			}
			if s.Cfg == "index" && uniIx == nil {
				s.Cfg = "mem"
			}
			scns = append(scns, s)
		}
	} else {
		sf, err := os.Open(*scnF)
		if err != nil {
			fatal(err)
		}
		sc := bufio.NewScanner(sf)
		sc.Buffer(make([]byte, 1<<20), 1<<24)
		for sc.Scan() {
			var s Scn
			if err := json.Unmarshal(sc.Bytes(), &s); err != nil {
				fatal(fmt.Errorf("%v: %s", err, sc.Text()))
			}
			for _, c := range []string{"mem", "index"} {
				if *cfgs == c || *cfgs == "both" || (s.Cfg == c && *cfgs == "asis") {
					if c == "index" && uniIx == nil {
						fatal(fmt.Errorf("index configuration needs -secring"))
					}
					t := s
					t.Cfg = c
					if *cfgs != "asis" {
						t.ID = len(scns) // the replay of a recorded run keeps its id (it selects the index permutation)
					}
					scns = append(scns, &t)
				}
			}
		}
	}
	sem := make(chan struct{}, *par)
	var wg sync.WaitGroup
	for _, s := range scns {
		s.Seed = *seed
		wg.Add(1)
		sem <- struct{}{}
		go func(s *Scn) {
			defer wg.Done()
			expandHolding(s, sem, &wg)
		}(s)
	}
	wg.Wait()
	outW.Flush()
	f.Close()
	fmt.Printf("scenarios=%d runs=%d events=%d wakes=%d expired=%d\n", len(scns), nRuns.Load(), nEv.Load(), nWake.Load(), expired.Load())
}

// expandHolding runs the base scenario while holding a slot and releases it before spawning the sweep.
func expandHolding(s *Scn, sem chan struct{}, wg *sync.WaitGroup) {
	released := false
	defer func() {
		if !released {
			<-sem
		}
	}()
	base := *s
	base.Phases = append([]Phase(nil), s.Phases...)
	for i := range base.Phases {
		if base.Phases[i].Crash != "at" {
			base.Phases[i].Freeze = 0
		}
	}
	calls := runOne(&base)
	<-sem
	released = true
	for i := range s.Phases {
		if s.Phases[i].Crash != "sweep" || i >= len(calls) {
			continue
		}
		for k := 1; k <= calls[i]; k++ {
			c := *s
			c.Phases = append([]Phase(nil), s.Phases...)
			for j := range c.Phases {
				if c.Phases[j].Crash != "at" {
					c.Phases[j].Freeze = 0
				}
			}
			c.Phases[i].Freeze = k
			c.Phases[i].Crash = "at"
			wg.Add(1)
			sem <- struct{}{}
			go func(c Scn) {
				defer wg.Done()
				defer func() { <-sem }()
				runOne(&c)
			}(c)
		}
	}
}
