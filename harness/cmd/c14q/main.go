//go:build verif

// c14q (C14, family index+reads): W writer goroutines feed a REAL index.Index (+ corpus) with the blobs of a small
// world in a TLC-generated arrival order while R reader goroutines keep asking a small family of read calls, each
// under Index.RLock exactly as pkg/search and pkg/server do.  Every delivery and every read is logged as two events
// (before the call / after its return) stamped by ONE global atomic counter, so the log order is a sound
// approximation of the real-time order (ret(A) < call(B) in the log implies A returned before B was called).
// The driver never computes an expected answer: replies are projected to item ids, value ids and classes;
// Trace_IndexLin.tla decides whether each reply is the reply of SOME index state between the read's call and return.
package main

import (
	"bufio"
	"context"
	"encoding/json"
	"errors"
	"flag"
	"fmt"
	"hash/fnv"
	"io"
	"log"
	"math/rand"
	"os"
	"runtime"
	"sort"
	"strings"
	"sync"
	"sync/atomic"
	"time"

	"perkeep.org/pkg/blob"
	"perkeep.org/pkg/blobserver"
	"perkeep.org/pkg/index"
	"perkeep.org/pkg/search"
	"perkeep.org/pkg/sorted"
	"perkeep.org/pkg/types/camtypes"

	"verif/gate"
	"verif/idx"
	"verif/world"
)

func fatal(err error) {
	fmt.Fprintln(os.Stderr, "c14q: machinery:", err)
	os.Exit(3)
}

// ---------------------------------------------------------------- shapes (copied from cmd/c05: same numbering)

type shape struct {
	Name string
	W    *world.World
	B    *world.Built
}

func shapes() []*shape {
	mk := func(name string, vals []string, items ...world.Item) *shape {
		for i := range items {
			items[i].ID = i + 1
		}
		w := &world.World{Items: items, Values: vals}
		w.Normalize()
		return &shape{Name: name, W: w}
	}
	return []*shape{
		mk("KPCD", []string{"A"},
			world.Item{Kind: "key", Signer: 1},
			world.Item{Kind: "permanode", Signer: 1, Data: "p"},
			world.Item{Kind: "claim", Claim: "set", PN: 2, Attr: "title", Val: 1, Date: 10, Signer: 1},
			world.Item{Kind: "delete", Target: 2, Date: 20, Signer: 1}),
		mk("undelete", []string{"A", "B"},
			world.Item{Kind: "key", Signer: 1},
			world.Item{Kind: "permanode", Signer: 1, Data: "p"},
			world.Item{Kind: "claim", Claim: "add", PN: 2, Attr: "tag", Val: 1, Date: 10, Signer: 1},
			world.Item{Kind: "delete", Target: 3, Date: 20, Signer: 1},
			world.Item{Kind: "delete", Target: 4, Date: 30, Signer: 1}),
		mk("filetree", nil,
			world.Item{Kind: "chunk", Data: "hello "},
			world.Item{Kind: "chunk", Data: "world, this is chunk two"},
			world.Item{Kind: "bytes", Parts: []world.Part{{Kind: "blob", Ref: 2, Size: 24}}},
			world.Item{Kind: "file", Name: "f.txt", Parts: []world.Part{{Kind: "blob", Ref: 1, Size: 6}, {Kind: "bytes", Ref: 3, Size: 24}}},
			world.Item{Kind: "staticset", Children: []int{4}},
			world.Item{Kind: "dir", Name: "d", Children: []int{5}}),
		mk("twosigners", []string{"x"},
			world.Item{Kind: "key", Signer: 1},
			world.Item{Kind: "key", Signer: 2},
			world.Item{Kind: "permanode", Signer: 1, Data: "p"},
			world.Item{Kind: "claim", Claim: "add", PN: 3, Attr: "tag", Val: 1, Date: 10, Signer: 2},
			world.Item{Kind: "share", Target: 3, Transitive: true, Date: 30, Signer: 1}),
		mk("members", []string{"t"},
			world.Item{Kind: "key", Signer: 1},
			world.Item{Kind: "permanode", Signer: 1, Data: "parent"},
			world.Item{Kind: "permanode", Signer: 1, Data: "child"},
			world.Item{Kind: "claim", Claim: "add", PN: 2, Attr: "camliMember", ValRef: 3, Date: 10, Signer: 1},
			world.Item{Kind: "claim", Claim: "set", PN: 3, Attr: "title", Val: 1, Date: 5, Signer: 1},
			world.Item{Kind: "delete", Target: 4, Date: 20, Signer: 1}),
		mk("late-delete", []string{"one", "two"},
			world.Item{Kind: "key", Signer: 1},
			world.Item{Kind: "permanode", Signer: 1, Data: "p"},
			world.Item{Kind: "claim", Claim: "set", PN: 2, Attr: "title", Val: 1, Date: 10, Signer: 1},
			world.Item{Kind: "delete", Target: 2, Date: 15, Signer: 1},
			world.Item{Kind: "claim", Claim: "set", PN: 2, Attr: "title", Val: 2, Date: 20, Signer: 1},
			world.Item{Kind: "claim", Claim: "add", PN: 2, Attr: "tag", Val: 1, Date: 12, Signer: 1}),
		mk("content-time", []string{"t"},
			world.Item{Kind: "key", Signer: 1},
			world.Item{Kind: "permanode", Signer: 1, Data: "p1"},
			world.Item{Kind: "claim", Claim: "set", PN: 2, Attr: "title", Val: 1, Date: 20, Signer: 1},
			world.Item{Kind: "permanode", Signer: 1, Data: "p2"},
			world.Item{Kind: "file", Name: "old.txt", Date: 5},
			world.Item{Kind: "claim", Claim: "set", PN: 4, Attr: "camliContent", ValRef: 5, Date: 30, Signer: 1}),
		mk("double-delete-a", []string{"t"}, doubleDelete("dd-a")...),
		mk("double-delete-b", []string{"t"}, doubleDelete("dd-b")...),
		mk("double-delete-c", []string{"t"}, doubleDelete("dd-c")...),
		mk("same-date-deletes", []string{"t"},
			world.Item{Kind: "key", Signer: 1},
			world.Item{Kind: "permanode", Signer: 1, Data: "sdd"},
			world.Item{Kind: "claim", Claim: "set", PN: 2, Attr: "title", Val: 1, Date: 10, Signer: 1},
			world.Item{Kind: "delete", Target: 2, Date: 20, Signer: 1},
			world.Item{Kind: "delete", Target: 2, Date: 20, Signer: 1},
			world.Item{Kind: "delete", Target: 4, Date: 40, Signer: 1}),
		mk("delpn-attrs", []string{"a", "b"},
			world.Item{Kind: "key", Signer: 1},
			world.Item{Kind: "permanode", Signer: 1, Data: "p"},
			world.Item{Kind: "claim", Claim: "set", PN: 2, Attr: "title", Val: 1, Date: 10, Signer: 1},
			world.Item{Kind: "claim", Claim: "set", PN: 2, Attr: "title", Val: 2, Date: 12, Signer: 1},
			world.Item{Kind: "delete", Target: 2, Date: 20, Signer: 1},
			world.Item{Kind: "delete", Target: 5, Date: 30, Signer: 1}),
	}
}

func doubleDelete(nonce string) []world.Item {
	return []world.Item{
		{Kind: "key", Signer: 1},
		{Kind: "permanode", Signer: 1, Data: nonce},
		{Kind: "claim", Claim: "set", PN: 2, Attr: "title", Val: 1, Date: 10, Signer: 1},
		{Kind: "delete", Target: 2, Date: 20, Signer: 1},
		{Kind: "delete", Target: 2, Date: 30, Signer: 1},
		{Kind: "delete", Target: 5, Date: 40, Signer: 1},
	}
}

// fdeps / idep: the dependency model handed to TLC (read from pkg/index/receive.go: verifySignature fetches the
// signer's key blob; populateFile reads the whole file; populateDir reads the static set; populateDeleteClaim needs
// the target's meta row).
func fdeps(w *world.World, it *world.Item) []int {
	keyOf := func(signer int) int {
		for _, k := range w.Items {
			if k.Kind == "key" && k.Signer == signer {
				return k.ID
			}
		}
		return 0
	}
	var d []int
	switch it.Kind {
	case "permanode", "claim", "delete", "share":
		if k := keyOf(it.Signer); k != 0 {
			d = append(d, k)
		}
	case "file":
		var walk func(ps []world.Part)
		walk = func(ps []world.Part) {
			for _, p := range ps {
				d = append(d, p.Ref)
				if p.Kind == "bytes" {
					for _, x := range w.Items {
						if x.ID == p.Ref {
							walk(x.Parts)
						}
					}
				}
			}
		}
		walk(it.Parts)
	case "dir":
		d = append(d, it.Children...)
	}
	sort.Ints(d)
	return d
}

func idep(it *world.Item) int {
	if it.Kind == "delete" {
		return it.Target
	}
	return 0
}

// ---------------------------------------------------------------- jitter at the lower-layer boundaries

// Seeded, but free of shared mutable state (no atomics, no locks: they would add happens-before edges between the
// goroutines under test and hide races from the detector): the decision is a hash of (seed, segment, key).
var jitSeed uint64

func jitterAt(key string) {
	h := fnv.New64a()
	io.WriteString(h, key)
	v := (h.Sum64() ^ jitSeed) * 0x9E3779B97F4A7C15
	switch (v >> 33) % 8 {
	case 0, 1:
		runtime.Gosched()
	case 2:
		time.Sleep(time.Duration(20+(v>>40)%80) * time.Microsecond)
	}
}

type jitSrc struct{ blobserver.Storage }

func (s jitSrc) Fetch(ctx context.Context, br blob.Ref) (io.ReadCloser, uint32, error) {
	jitterAt("fetch:" + br.String())
	rc, n, err := s.Storage.Fetch(ctx, br)
	jitterAt("fetched:" + br.String())
	return rc, n, err
}

// jitKV adds jitter and, with failPermille > 0, makes some commits of DELIVERIES fail without effect (the error
// ReceiveBlob then returns is logged as res = "injected" and the writer delivers the blob again).  Commits are issued
// under Index.Lock only, so the plain counter is ordered by that lock.  The asynchronous re-indexing goroutine is
// spared: what a failed commit does to IT is C13's subject (transient failures), not C14's.
type jitKV struct {
	sorted.KeyValue
	st *kvState
}

type kvState struct {
	failPermille uint64
	commits      uint64
}

var errInjected = errors.New("verif: injected commit failure")

func (k jitKV) Get(key string) (string, error) {
	jitterAt("get:" + key)
	return k.KeyValue.Get(key)
}

func asyncReindexCaller() bool {
	var pcs [32]uintptr
	n := runtime.Callers(2, pcs[:])
	fr := runtime.CallersFrames(pcs[:n])
	for {
		f, more := fr.Next()
		if strings.HasSuffix(f.Function, ".indexReadyBlobs") {
			return true
		}
		if !more {
			return false
		}
	}
}

func (k jitKV) CommitBatch(b sorted.BatchMutation) error {
	jitterAt("commit")
	if k.st.failPermille > 0 {
		k.st.commits++
		v := (k.st.commits*0x9E3779B97F4A7C15 ^ jitSeed) * 0xD6E8FEB86659FD93
		if (v>>32)%1000 < k.st.failPermille && !asyncReindexCaller() {
			return errInjected
		}
	}
	err := k.KeyValue.CommitBatch(b)
	jitterAt("committed")
	return err
}

// ---------------------------------------------------------------- events

type Ev = gate.Event

type stamped struct {
	seq int64
	ev  Ev
}

var clock int64 // the only clock: one global atomic counter

func tick() int64 { return atomic.AddInt64(&clock, 1) }

type replay struct {
	Shape   int   `json:"shape"`
	Order   []int `json:"order"`
	Writers int   `json:"w"`
	Readers int   `json:"r"`
	SSeed   int64 `json:"sseed"`
}

func ints(x []int) []any {
	o := make([]any, len(x))
	for i, v := range x {
		o[i] = v
	}
	return o
}

// ---------------------------------------------------------------- one segment

type runner struct {
	s     *shape
	e     *idx.Env
	h     *search.Handler
	pns   []int
	attrs map[int][]string
	times []int
	dels  []int // items that can be asked "deleted?"
	files []int
}

func (r *runner) valID(v string) int {
	if v == "" {
		return 0
	}
	for i, s := range r.s.W.Values {
		if s == v {
			return i + 1
		}
	}
	if br, ok := blob.Parse(v); ok {
		if id, ok := r.s.B.ByRef[br]; ok {
			return 1000 + id
		}
	}
	return -1
}

func (r *runner) itemID(br blob.Ref) int { return r.s.B.ByRef[br] } // 0 = not of this world

func pick(rng *rand.Rand, xs []int) int { return xs[rng.Intn(len(xs))] }

// read performs one read call (one Index.RLock section, as one handler request does) and returns the call
// arguments and the projected reply.
func (r *runner) read(rng *rand.Rand, g int, id int, buf *[]stamped) {
	b := r.s.B
	ctx := context.Background()
	ops := []string{"meta", "meta", "enum"}
	if len(r.dels) > 0 {
		ops = append(ops, "deleted", "deleted")
	}
	if len(r.pns) > 0 {
		ops = append(ops, "attr", "attr", "modtime", "claims", "search")
	}
	if len(r.files) > 0 {
		ops = append(ops, "file", "file")
	}
	op := ops[rng.Intn(len(ops))]
	args := Ev{"id": id, "g": g, "op": op, "b": 0, "pn": 0, "attr": "", "t": 0, "signer": 0}
	res := Ev{}
	ix, c := r.e.Ix, r.e.Corpus
	var call func()
	switch op {
	case "meta":
		it := pick(rng, allIDs(r.s.W))
		args["b"] = it
		br := b.Refs[it]
		call = func() {
			ix.RLock()
			defer ix.RUnlock()
			m, err := ix.GetBlobMeta(ctx, br)
			res["found"] = err == nil
			res["ctype"] = string(m.CamliType)
			hv, herr := ix.Storage().Get("have:" + br.String())
			switch {
			case herr != nil:
				res["have"] = "none"
			case strings.HasSuffix(hv, "|indexed"):
				res["have"] = "indexed"
			default:
				res["have"] = "partial"
			}
			_, merr := ix.Storage().Get("meta:" + br.String())
			res["metarow"] = merr == nil
		}
	case "deleted":
		it := pick(rng, r.dels)
		args["b"] = it
		br := b.Refs[it]
		call = func() {
			ix.RLock()
			defer ix.RUnlock()
			res["ix"] = ix.IsDeleted(br)
			res["c"] = c.IsDeleted(br)
		}
	case "attr":
		pn := pick(rng, r.pns)
		attr := r.attrs[pn][rng.Intn(len(r.attrs[pn]))]
		t := pick(rng, r.times)
		signer := rng.Intn(3)
		args["pn"], args["attr"], args["t"], args["signer"] = pn, attr, t, signer
		br := b.Refs[pn]
		var at time.Time
		if t != 0 {
			at = world.Epoch.Add(time.Duration(t) * time.Second)
		}
		filter := ""
		if signer != 0 {
			filter = b.S.KeyID[signer]
		}
		call = func() {
			ix.RLock()
			defer ix.RUnlock()
			first := c.PermanodeAttrValue(br, attr, at, filter)
			list := c.AppendPermanodeAttrValues(nil, br, attr, at, filter)
			fv := []any{}
			if first != "" {
				fv = append(fv, r.valID(first))
			}
			lv := []any{}
			for _, v := range list {
				lv = append(lv, r.valID(v))
			}
			res["first"], res["list"] = fv, lv
		}
	case "modtime":
		pn := pick(rng, r.pns)
		args["pn"] = pn
		br := b.Refs[pn]
		call = func() {
			ix.RLock()
			defer ix.RUnlock()
			t, ok := c.PermanodeModtime(br)
			res["ok"], res["sec"], res["nano"] = ok, 0, 0
			if ok {
				d := t.Sub(world.Epoch)
				sec := int(d / time.Second)
				if d < 0 && d%time.Second != 0 {
					sec--
				}
				res["sec"], res["nano"] = sec, int(d-time.Duration(sec)*time.Second)
			}
		}
	case "claims":
		pn := pick(rng, r.pns)
		args["pn"] = pn
		br := b.Refs[pn]
		call = func() {
			ix.RLock()
			defer ix.RUnlock()
			cls, err := ix.AppendClaims(ctx, nil, br, "", "")
			ids := []any{}
			for _, cl := range cls {
				ids = append(ids, r.itemID(cl.BlobRef))
			}
			res["ids"], res["err"] = ids, err != nil
		}
	case "file":
		it := pick(rng, r.files)
		args["b"] = it
		br := b.Refs[it]
		call = func() {
			ix.RLock()
			defer ix.RUnlock()
			fi, err := ix.GetFileInfo(ctx, br)
			res["found"] = err == nil
			res["name"] = fi.FileName
		}
	case "enum":
		call = func() {
			ix.RLock()
			defer ix.RUnlock()
			ids := []any{}
			c.EnumerateBlobMeta(func(m camtypes.BlobMeta) bool { ids = append(ids, r.itemID(m.Ref)); return true })
			res["ids"] = ids
		}
	case "search":
		// search.Handler.Query takes Index.RLock itself
		sq := &search.SearchQuery{Constraint: &search.Constraint{Permanode: &search.PermanodeConstraint{}}, Sort: search.CreatedDesc, Limit: -1}
		call = func() {
			sr, err := r.h.Query(ctx, sq)
			ids := []any{}
			if err == nil {
				for _, sb := range sr.Blobs {
					ids = append(ids, r.itemID(sb.Blob))
				}
			}
			res["ids"], res["err"] = ids, err != nil
		}
	}
	ce := Ev{"ev": "call"}
	for k, v := range args {
		ce[k] = v
	}
	sc := tick()
	call()
	sr := tick()
	re := Ev{"ev": "ret"}
	for k, v := range args {
		re[k] = v
	}
	for k, v := range res {
		re[k] = v
	}
	*buf = append(*buf, stamped{sc, ce}, stamped{sr, re})
}

func allIDs(w *world.World) []int {
	ids := make([]int, len(w.Items))
	for i := range w.Items {
		ids[i] = w.Items[i].ID
	}
	return ids
}

func pause(rng *rand.Rand, maxUS int) {
	switch rng.Intn(4) {
	case 0:
	case 1:
		runtime.Gosched()
	default:
		if maxUS > 0 {
			time.Sleep(time.Duration(1+rng.Intn(maxUS)) * time.Microsecond)
		}
	}
}

func runSegment(out *bufio.Writer, s *shape, rp *replay, seg int, wsleep, rsleep, post, failPermille int) error {
	jitSeed = uint64(rp.SSeed)*0x100000001B3 + uint64(seg)
	g := gate.NewStorage("src", nil, nil, nil)
	g.Quiet = true
	e, err := idx.New(jitKV{sorted.NewMemoryKeyValue(), &kvState{failPermille: uint64(failPermille)}}, jitSrc{g}, true)
	if err != nil {
		return err
	}
	b := s.B
	r := &runner{s: s, e: e, attrs: map[int][]string{}}
	owner := index.NewOwner(b.S.KeyID[1], b.S.PubRef[1])
	r.h = search.NewHandler(e.Ix, owner)
	r.h.SetCorpus(e.Corpus)
	tset := map[int]bool{0: true}
	for i := range s.W.Items {
		it := &s.W.Items[i]
		switch it.Kind {
		case "permanode":
			r.pns = append(r.pns, it.ID)
			r.dels = append(r.dels, it.ID)
		case "claim":
			seen := false
			for _, a := range r.attrs[it.PN] {
				seen = seen || a == it.Attr
			}
			if !seen {
				r.attrs[it.PN] = append(r.attrs[it.PN], it.Attr)
			}
			tset[it.Date], tset[it.Date+1] = true, true
			if it.Date > 1 {
				tset[it.Date-1] = true
			}
			r.dels = append(r.dels, it.ID)
		case "delete":
			r.dels = append(r.dels, it.ID)
		case "file", "dir":
			r.files = append(r.files, it.ID)
		}
	}
	for _, pn := range r.pns {
		if len(r.attrs[pn]) == 0 {
			r.attrs[pn] = []string{"title"}
		}
	}
	for t := range tset {
		r.times = append(r.times, t)
	}
	sort.Ints(r.times)

	// ---- header: the world (fields of Claims.tla; a blobref value v of item j is the value id 1000+j), dependencies
	var deps, items []any
	for i := range s.W.Items {
		it := &s.W.Items[i]
		deps = append(deps, map[string]any{"id": it.ID, "f": ints(fdeps(s.W, it)), "i": idep(it), "kind": it.Kind})
		val := it.Val
		if it.ValRef != 0 {
			val = 1000 + it.ValRef
		}
		items = append(items, map[string]any{"id": it.ID, "kind": it.Kind, "claim": it.Claim, "pn": it.PN, "attr": it.Attr, "val": val,
			"date": it.Date, "nano": it.Nano, "signer": it.Signer, "target": it.Target})
	}
	W, R := rp.Writers, rp.Readers
	atomic.StoreInt64(&clock, 0)
	bufs := make([][]stamped, W+R+1)
	var quiet int32
	var wg, rg sync.WaitGroup
	for w := 0; w < W; w++ {
		wg.Add(1)
		go func(w int) {
			defer wg.Done()
			rng := rand.New(rand.NewSource(rp.SSeed*1000 + int64(seg)*10 + int64(w)))
			k := 0
			for i := w; i < len(rp.Order); i += W {
				it := rp.Order[i]
				for attempt := 0; ; attempt++ {
					pause(rng, wsleep)
					k++
					id := (w+1)*100000 + k
					sc := tick()
					res := "ok"
					detail := ""
					if err := e.Store(b, it); err != nil {
						res, detail = "err", "store: "+err.Error()
					} else {
						pause(rng, wsleep/4)
						if err := e.Index(b, it); err != nil {
							res, detail = "err", err.Error()
							if errors.Is(err, errInjected) && attempt < 20 {
								res = "injected"
							}
						}
					}
					sr := tick()
					bufs[w] = append(bufs[w], stamped{sc, Ev{"ev": "deliver", "id": id, "g": w, "item": it}},
						stamped{sr, Ev{"ev": "delivered", "id": id, "g": w, "item": it, "res": res, "detail": detail}})
					if res != "injected" {
						break
					}
				}
			}
		}(w)
	}
	for rd := 0; rd < R; rd++ {
		rg.Add(1)
		go func(rd int) {
			defer rg.Done()
			g := W + rd
			rng := rand.New(rand.NewSource(rp.SSeed*1000 + int64(seg)*10 + 5 + int64(rd)))
			k, after := 0, 0
			for after < post {
				if atomic.LoadInt32(&quiet) != 0 {
					after++
				}
				k++
				r.read(rng, g, (g+1)*100000+k, &bufs[g])
				pause(rng, rsleep)
			}
		}(rd)
	}
	wg.Wait()
	e.Await()
	bufs[W+R] = append(bufs[W+R], stamped{tick(), Ev{"ev": "quiesce"}})
	atomic.StoreInt32(&quiet, 1)
	rg.Wait()

	// ---- merge by the global counter and write the segment
	var all []stamped
	for _, bf := range bufs {
		all = append(all, bf...)
	}
	sort.Slice(all, func(i, j int) bool { return all[i].seq < all[j].seq })
	emit := func(ev Ev) error {
		bs, err := json.Marshal(ev)
		if err != nil {
			return err
		}
		out.Write(bs)
		return out.WriteByte('\n')
	}
	if err := emit(Ev{"ev": "reset", "seg": seg, "shape": s.Name, "shapeno": rp.Shape, "n": len(s.W.Items), "deps": deps, "items": items,
		"order": ints(rp.Order), "w": W, "r": R, "sseed": rp.SSeed, "failcommit": failPermille}); err != nil {
		return err
	}
	for _, st := range all {
		st.ev["seq"] = st.seq
		st.ev["seg"] = seg
		if err := emit(st.ev); err != nil {
			return err
		}
	}
	// ---- final out-of-order state, as the index+conc leg logs it (Trace_IndexOOO's predicate)
	st, err := project(s, e, rp.Order)
	if err != nil {
		return err
	}
	st["seg"] = seg
	return emit(st)
}

func project(s *shape, e *idx.Env, order []int) (Ev, error) {
	b := s.B
	rows := idx.Rows(e.KV)
	have := map[int]string{}
	missing := [][]int{}
	for _, kv := range rows {
		k, v := kv[0], kv[1]
		switch {
		case strings.HasPrefix(k, "have:"):
			if br, ok := blob.Parse(k[5:]); ok {
				st := "partial"
				if strings.HasSuffix(v, "|indexed") {
					st = "indexed"
				}
				have[b.ByRef[br]] = st
			}
		case strings.HasPrefix(k, "missing|"):
			f := strings.Split(k, "|")
			if len(f) == 3 {
				h, _ := blob.Parse(f[1])
				m, _ := blob.Parse(f[2])
				missing = append(missing, []int{b.ByRef[h], b.ByRef[m]})
			}
		}
	}
	needs, _, ready := e.Ix.VerifOutOfOrderState()
	need := [][]int{}
	for k, vs := range needs {
		kb, _ := blob.Parse(k)
		for _, v := range vs {
			vb, _ := blob.Parse(v)
			need = append(need, []int{b.ByRef[kb], b.ByRef[vb]})
		}
	}
	var hv []any
	for i := range s.W.Items {
		st := have[s.W.Items[i].ID]
		if st == "" {
			st = "none"
		}
		hv = append(hv, st)
	}
	dm := map[int]bool{}
	for _, id := range order {
		dm[id] = true
	}
	var dl []int
	for id := range dm {
		dl = append(dl, id)
	}
	sort.Ints(dl)
	return Ev{"ev": "state", "delivered": ints(dl), "have": hv, "missing": pairs(missing), "need": pairs(need), "ready": len(ready), "nrows": len(rows)}, nil
}

func pairs(x [][]int) []any {
	sort.Slice(x, func(i, j int) bool {
		if x[i][0] != x[j][0] {
			return x[i][0] < x[j][0]
		}
		return x[i][1] < x[j][1]
	})
	o := make([]any, len(x))
	for i, v := range x {
		o[i] = []any{v[0], v[1]}
	}
	return o
}

func main() {
	repF := flag.String("replays", "", "scenarios (JSON lines): {shape, order, w, r, sseed}")
	outF := flag.String("out", "c14q.ndjson", "trace")
	secring := flag.String("secring", "", "test secret key ring")
	listShapes := flag.Bool("shapes", false, "print the shape names as JSON and exit")
	wsleep := flag.Int("wsleep", 300, "writers: maximal pause before a delivery (microseconds)")
	rsleep := flag.Int("rsleep", 250, "readers: maximal pause between two reads (microseconds)")
	post := flag.Int("post", 3, "reads per reader after quiescence")
	failCommit := flag.Int("failcommit", 0, "per mille of the deliveries' KV commits that fail without effect (the writer then delivers again)")
	verbose := flag.Bool("v", false, "perkeep logs to stderr")
	flag.Parse()
	if !*verbose {
		log.SetOutput(io.Discard)
	}
	index.SetVerboseCorpusLogging(false)
	shs := shapes()
	if *listShapes {
		var names []string
		for _, s := range shs {
			names = append(names, s.Name)
		}
		bs, _ := json.Marshal(names)
		fmt.Println(string(bs))
		return
	}
	sg, err := world.LoadSigners(*secring)
	if err != nil {
		fatal(err)
	}
	for _, s := range shs {
		b, err := world.Build(s.W, sg)
		if err != nil {
			fatal(err)
		}
		s.B = b
	}
	f, err := os.Create(*outF)
	if err != nil {
		fatal(err)
	}
	out := bufio.NewWriterSize(f, 1<<20)
	rf, err := os.Open(*repF)
	if err != nil {
		fatal(err)
	}
	sc := bufio.NewScanner(rf)
	sc.Buffer(make([]byte, 1<<20), 1<<24)
	n := 0
	for sc.Scan() {
		var r replay
		if err := json.Unmarshal(sc.Bytes(), &r); err != nil {
			fatal(err)
		}
		if r.Shape < 1 || r.Shape > len(shs) || r.Writers < 1 || r.Readers < 1 || len(r.Order) == 0 {
			fatal(fmt.Errorf("bad scenario %s", sc.Text()))
		}
		if err := runSegment(out, shs[r.Shape-1], &r, n, *wsleep, *rsleep, *post, *failCommit); err != nil {
			fatal(fmt.Errorf("scenario %d %s: %v", n, sc.Text(), err))
		}
		// a complete segment is on disk before the next one starts (a death inside perkeep loses only the current one)
		out.Flush()
		n++
	}
	out.Flush()
	f.Close()
	fmt.Printf("segments=%d\n", n)
}
