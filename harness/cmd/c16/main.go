// c16 builds real schema documents from TLC's shape vectors (or seeded random ones), signs them with
// jsonsign.SignRequest and the repository's test key rings, applies the scenario, concretises every
// (region, kind) mutation class at the byte positions of its region, runs NewVerificationRequest(..).Verify
// on each and logs verdict + whether the exposed payload equals the original, as an ndjson trace for
// Trace_JsonSign.tla.  It never decides what the verdict should have been; regions are not even named in the
// log (only offsets and lengths).  A panic inside perkeep is the observation "panic" (recovered per call).
package main

import (
	"bufio"
	"context"
	"encoding/json"
	"flag"
	"fmt"
	"io"
	"log"
	"math/rand"
	"os"
	"path/filepath"
	"reflect"
	"runtime"
	"strings"
	"time"
	"unicode"

	"golang.org/x/crypto/openpgp"
	"golang.org/x/crypto/openpgp/packet"

	"perkeep.org/pkg/blob"
	"perkeep.org/pkg/jsonsign"
)

const sep = `,"camliSig":"`
const tail = "\"}\n"

var ctxbg = context.Background()

type ev map[string]any

var (
	w      *bufio.Writer
	nev    int
	npanic int
)

func emit(e ev) {
	b, err := json.Marshal(e)
	if err != nil {
		fatal(err)
	}
	w.Write(b)
	w.WriteByte('\n')
	nev++
}

func fatal(a ...any) {
	fmt.Fprintln(os.Stderr, append([]any{"c16:"}, a...)...)
	os.Exit(3)
}

func tf(b bool) string {
	if b {
		return "t"
	}
	return "f"
}

// ---------------------------------------------------------------- keys and fetchers

type memFetcher map[blob.Ref]string

func (m memFetcher) Fetch(ctx context.Context, br blob.Ref) (io.ReadCloser, uint32, error) {
	s, ok := m[br]
	if !ok {
		return nil, 0, os.ErrNotExist
	}
	return io.NopCloser(strings.NewReader(s)), uint32(len(s)), nil
}

type fixedEntity struct{ e *openpgp.Entity }

func (f fixedEntity) FetchEntity(string) (*openpgp.Entity, error) { return f.e, nil }

type key struct {
	ent   *openpgp.Entity
	ring  string // secret ring file
	pub   string
	ref   blob.Ref
	keyID string
}

func loadKey(ring, id string) *key {
	if id == "" {
		var err error
		if id, err = jsonsign.KeyIdFromRing(ring); err != nil {
			fatal(err)
		}
	}
	e, err := jsonsign.EntityFromSecring(id, ring)
	if err != nil {
		fatal(err)
	}
	pub, err := jsonsign.ArmoredPublicKey(e)
	if err != nil {
		fatal(err)
	}
	return &key{ent: e, ring: ring, pub: pub, ref: blob.RefFromString(pub), keyID: e.PrimaryKey.KeyIdString()}
}

type world struct {
	k1, k2, fresh *key
	// zero: a generated key whose 64-bit key id begins with a zero hex digit (its 16-digit form has a leading zero)
	zero *key
}

func copyFile(dst, src string) {
	b, err := os.ReadFile(src)
	if err != nil {
		fatal(err)
	}
	if err := os.WriteFile(dst, b, 0600); err != nil {
		fatal(err)
	}
}

func newWorld(repo, scratch string) *world {
	td := filepath.Join(repo, "pkg", "jsonsign", "testdata")
	r1, r2, r3 := filepath.Join(scratch, "test-secring.gpg"), filepath.Join(scratch, "test-secring2.gpg"), filepath.Join(scratch, "fresh-secring.gpg")
	copyFile(r1, filepath.Join(td, "test-secring.gpg"))
	copyFile(r2, filepath.Join(td, "test-secring2.gpg"))
	// a freshly generated identity, written and read back through perkeep's own key ring code
	// ... with a key size other than the 2048 bits of the test rings: the length of the signature packet (and with
	// it the padding of its base64 armor) depends on it (3072 bits: "==", 4096 bits: no padding)
	bits := []int{3072, 4096, 4096}[((freshBits%3)+3)%3]
	ent, err := openpgp.NewEntity("verif", "fresh key", "verif@example.invalid", &packet.Config{RSABits: bits})
	if err != nil {
		fatal(err)
	}
	f3, err := os.OpenFile(r3, os.O_CREATE|os.O_WRONLY|os.O_TRUNC, 0600)
	if err != nil {
		fatal(err)
	}
	if err := jsonsign.WriteKeyRing(f3, openpgp.EntityList{ent}); err != nil {
		fatal(err)
	}
	if err := f3.Close(); err != nil {
		fatal(err)
	}
	r4 := filepath.Join(scratch, "zero-secring.gpg")
	var zent *openpgp.Entity
	for {
		if zent, err = openpgp.NewEntity("verif", "zero key", "zero@example.invalid", &packet.Config{RSABits: 2048}); err != nil {
			fatal(err)
		}
		if zent.PrimaryKey.KeyId>>60 == 0 {
			break
		}
	}
	f4, err := os.OpenFile(r4, os.O_CREATE|os.O_WRONLY|os.O_TRUNC, 0600)
	if err != nil {
		fatal(err)
	}
	if err := jsonsign.WriteKeyRing(f4, openpgp.EntityList{zent}); err != nil {
		fatal(err)
	}
	if err := f4.Close(); err != nil {
		fatal(err)
	}
	wd := &world{k1: loadKey(r1, "26F5ABDA"), k2: loadKey(r2, ""), fresh: loadKey(r3, ""), zero: loadKey(r4, "")}
	foldDecoy = wd.k2.ref
	return wd
}

// ---------------------------------------------------------------- documents

// freshBits selects the size of the generated key (set from the seed by main)
var freshBits int

// foldDecoy: the ref of ANOTHER key the signer also holds (set by main), used by the "signerfold" look-alikes
var foldDecoy blob.Ref

type shape struct {
	Extra   int
	Unicode bool
	Nest    bool
	Ws      int
	Look    string
	Time    int
}

type member struct{ k, v string } // v is raw JSON

func sigTime(i int) time.Time {
	switch i {
	case 0:
		return time.Time{} // SignRequest documents "if zero, time.Now() is used"
	case 1:
		return time.Unix(1, 0)
	case 2:
		return time.Date(2011, 11, 27, 1, 23, 45, 0, time.UTC)
	default:
		return time.Date(2200, 1, 1, 0, 0, 0, 0, time.UTC) // beyond the 32-bit creation time
	}
}

func layout(ms []member, ws int) string {
	var b strings.Builder
	switch ws {
	case 0:
		b.WriteByte('{')
		for i, m := range ms {
			if i > 0 {
				b.WriteByte(',')
			}
			fmt.Fprintf(&b, "%q:%s", m.k, m.v)
		}
		b.WriteByte('}')
	case 1:
		b.WriteString("{")
		for i, m := range ms {
			if i > 0 {
				b.WriteString(", ")
			}
			fmt.Fprintf(&b, "%q: %s", m.k, m.v)
		}
		b.WriteString(" }\n")
	default:
		b.WriteString("{\r\n")
		for i, m := range ms {
			if i > 0 {
				b.WriteString(" ,\n")
			}
			fmt.Fprintf(&b, "\t%q\t:  %s", m.k, m.v)
		}
		b.WriteString("\n\n}  \t\n\n")
	}
	return b.String()
}

func buildDoc(s shape, signer blob.Ref) string {
	ms := []member{{"camliVersion", "1"}}
	sg := member{"camliSigner", fmt.Sprintf("%q", signer.String())}
	if s.Extra == 0 {
		ms = append(ms, sg)
	}
	if s.Extra >= 1 {
		ms = append(ms, member{"camliType", `"claim"`}, member{"claimDate", `"2011-11-27T01:23:45.000000123Z"`})
	}
	if s.Extra >= 2 {
		ms = append(ms, member{"n", "-1.5e3"}, member{"big", "12345678901234567890"}, member{"b", "true"}, member{"z", "null"},
			member{"arr", `[1,"two",[3,{"four":4}],[]]`}, member{"", `"empty key"`}, member{"e", `""`})
	}
	if s.Unicode {
		ms = append(ms, member{"title", `"héllo wörld ☃ é 😀 😀 \u0000 \" \\ \/ \n"`}, member{"ключ", `"значение"`})
	}
	if s.Nest {
		ms = append(ms, member{"obj", `{"a":{"b":[{"c":"d"}]},"camliSigner":"sha224-00","camliVersion":2}`})
	}
	switch s.Look {
	case "top":
		ms = append(ms, member{"camliSig", `"wsBcBAABCAAQBQJO0Yc3decoy=AAAA"`})
	case "nested":
		ms = append(ms, member{"o2", `{"x":1,"camliSig":"inner","y":{"z":2,"camliSig":"deeper"}}`})
	case "escaped":
		ms = append(ms, member{"note", `",\"camliSig\":\"not really"`}, member{"k,\"camliSig", `"v"`})
	}
	if s.Extra != 0 {
		ms = append(ms, sg) // the signer reference last: right before the separator
	}
	if s.Look == "signerfold" {
		// members whose keys differ from "camliSigner" only by case (ASCII and the Unicode fold of s), placed AFTER the
		// real one and naming another available key / no key at all: they are ordinary payload, not the signer
		ms = append(ms, member{"CAMLISIGNER", fmt.Sprintf("%q", foldDecoy.String())}, member{"camlisigner", fmt.Sprintf("%q", foldDecoy.String())},
			member{"camli\u017figner", fmt.Sprintf("%q", foldDecoy.String())})
	}
	return layout(ms, s.Ws)
}

// ---------------------------------------------------------------- sign, scenario, verify

type subject struct {
	sid      int
	shape    any
	scen     string
	doc      string // the document under test
	fetcher  blob.Fetcher
	plen     int
	siglen   int
	origMap  map[string]any
	origSig  blob.Ref
	keyID    string
	unsigned string
	signErr  string // Sign refused the document
	logged   bool
}

func (wd *world) fetcherAll() memFetcher {
	return memFetcher{wd.k1.ref: wd.k1.pub, wd.k2.ref: wd.k2.pub, wd.fresh.ref: wd.fresh.pub, wd.zero.ref: wd.zero.pub}
}

// makeSubject signs the document for the scenario with the real SignRequest and prepares the verifier's world.
func (wd *world) makeSubject(sid int, shp any, unsigned func(blob.Ref) string, scen string, st time.Time, useKey int) *subject {
	k1, k2 := wd.k1, wd.k2
	switch useKey {
	case 1:
		k1, k2 = wd.fresh, wd.k1
	case 2:
		k1, k2 = wd.zero, wd.k1
	}
	all := wd.fetcherAll()
	un := unsigned(k1.ref)
	sr := &jsonsign.SignRequest{UnsignedJSON: un, Fetcher: all, ServerMode: true, SecretKeyringPath: k1.ring, SignatureTime: st}
	if scen == "resigned" {
		sr.EntityFetcher = fixedEntity{k2.ent} // key 2 signs a payload that names key 1
	}
	signed, err := sr.Sign(ctxbg)
	if err != nil {
		// a refusal to sign a well-formed document with an available key is an observation, not a harness problem:
		// the subject is logged once (base line: nothing verifies) and is not mutated further
		return &subject{sid: sid, shape: shp, scen: scen, doc: un, fetcher: all, keyID: k1.keyID, unsigned: un, signErr: err.Error(), plen: len(un)}
	}
	su := &subject{sid: sid, shape: shp, scen: scen, doc: signed, fetcher: all, keyID: k1.keyID, unsigned: un}
	switch scen {
	case "otherkey":
		su.doc = strings.Replace(signed, fmt.Sprintf("%q", k1.ref.String()), fmt.Sprintf("%q", k2.ref.String()), 1)
		if su.doc == signed {
			fatal("otherkey: signer reference not found")
		}
	case "missing":
		f := wd.fetcherAll()
		delete(f, k1.ref)
		su.fetcher = f
	case "notakey":
		f := wd.fetcherAll()
		f[k1.ref] = "-----BEGIN PGP MESSAGE-----\n\nnot a key\n-----END PGP MESSAGE-----\n"
		su.fetcher = f
	}
	trimmed := strings.TrimRightFunc(un, unicode.IsSpace)
	su.plen = len(trimmed) - 1
	su.siglen = len(su.doc) - su.plen - len(sep) - len(tail)
	// the fields the signer was given (the harness's own unsigned document; what Sign made of it is judged by the
	// base line: valid JSON, fields exposed, verifies)
	if err := json.Unmarshal([]byte(trimmed), &su.origMap); err != nil {
		fatal("the unsigned document of the harness is not JSON:", err)
	}
	sg, _ := su.origMap["camliSigner"].(string)
	su.origSig, _ = blob.Parse(sg)
	return su
}

func panicSite() string {
	pcs := make([]uintptr, 50)
	n := runtime.Callers(3, pcs)
	fr := runtime.CallersFrames(pcs[:n])
	for {
		f, more := fr.Next()
		if strings.HasPrefix(f.Function, "perkeep.org/") {
			return f.Function
		}
		if !more {
			return "?"
		}
	}
}

type outcome struct {
	verdict, psame, keyid, err, panic string
}

func (su *subject) verify(doc string) (o outcome) {
	defer func() {
		if r := recover(); r != nil {
			npanic++
			o = outcome{verdict: "panic", psame: "na", keyid: "na", panic: fmt.Sprintf("%v @%s", r, panicSite())}
		}
	}()
	vr := jsonsign.NewVerificationRequest(doc, su.fetcher)
	_, err := vr.Verify(ctxbg)
	if err != nil {
		msg := err.Error()
		if vr.Err != nil {
			msg = vr.Err.Error()
		}
		if len(msg) > 80 {
			msg = msg[:80]
		}
		return outcome{verdict: "reject", psame: "na", keyid: "na", err: msg}
	}
	same := reflect.DeepEqual(vr.PayloadMap, su.origMap) && vr.CamliSigner == su.origSig && vr.CamliSigner.Valid()
	return outcome{verdict: "accept", psame: tf(same), keyid: tf(vr.SignerKeyId == su.keyID)}
}

func (su *subject) lengths(e ev) {
	e["plen"], e["siglen"], e["tlen"], e["total"] = su.plen, su.siglen, len(tail), len(su.doc)
}

func (su *subject) base() {
	d := su.doc
	e := ev{"ev": "base", "sid": su.sid, "shape": su.shape, "scen": su.scen, "kind": "none"}
	su.lengths(e)
	if su.signErr != "" {
		if su.logged {
			return
		}
		su.logged = true
		e["verdict"], e["psame"], e["keyid"], e["err"] = "reject", "na", "na", "Sign: "+su.signErr
		e["validjson"], e["keys"], e["lastsep"] = "f", "f", "f"
		emit(e)
		return
	}
	o := su.verify(d)
	e["verdict"], e["psame"], e["keyid"] = o.verdict, o.psame, o.keyid
	if o.err != "" {
		e["err"] = o.err
	}
	if o.panic != "" {
		e["panic"] = o.panic
	}
	// still valid JSON in its entirety, with every original field
	var whole, orig map[string]any
	okj := json.Valid([]byte(d)) && json.Unmarshal([]byte(d), &whole) == nil
	e["validjson"] = tf(okj)
	keys := okj && json.Unmarshal([]byte(su.unsigned), &orig) == nil
	if keys {
		if _, isStr := whole["camliSig"].(string); !isStr {
			keys = false
		}
		for k, v := range orig {
			if k == "camliSig" || (k == "camliSigner" && su.scen == "otherkey") {
				continue
			}
			if !reflect.DeepEqual(whole[k], v) {
				keys = false
			}
		}
	}
	e["keys"] = tf(keys)
	// the driver's idea of where the regions are, checked on the real bytes
	e["lastsep"] = tf(su.siglen > 0 && strings.LastIndex(d, sep) == su.plen && strings.HasSuffix(d, tail))
	emit(e)
}

func (su *subject) mutate(kind string, off int, nb int) {
	if su.signErr != "" {
		return
	}
	d := su.doc
	ob, nx := -1, -1
	if off < len(d) {
		ob = int(d[off])
	}
	if off+1 < len(d) {
		nx = int(d[off+1])
	}
	var m string
	switch kind {
	case "sub":
		if nb == ob {
			return
		}
		m = d[:off] + string([]byte{byte(nb)}) + d[off+1:]
	case "ins":
		if nb == ob {
			return
		}
		m = d[:off] + string([]byte{byte(nb)}) + d[off:]
	case "del":
		if ob == nx {
			return // same document as deleting the next byte
		}
		nb = -1
		m = d[:off] + d[off+1:]
	}
	o := su.verify(m)
	e := ev{"ev": "mut", "sid": su.sid, "scen": su.scen, "kind": kind, "off": off, "nb": nb, "ob": ob, "nx": nx,
		"verdict": o.verdict, "psame": o.psame}
	su.lengths(e)
	if o.panic != "" {
		e["panic"] = o.panic
	}
	if o.verdict == "accept" {
		e["keyid"] = o.keyid
	}
	emit(e)
}

var subVals = []int{' ', '"', '}', ',', '\\', 0x00, 0x80, ':', '=', 'A', '{', '0', '\n'}
var insVals = []int{' ', '"', ',', '}', 'A', '=', '\n', 0x80, '0', ':', '\\', '{'}

func (su *subject) sweep(rng *rand.Rand, region, kind, density string, stride, nvals int) {
	if su.signErr != "" {
		return
	}
	total := len(su.doc)
	var lo, hi int // [lo, hi)
	switch region {
	case "payload":
		lo, hi = 0, su.plen
	case "sep":
		lo, hi = su.plen, su.plen+len(sep)
	case "sig":
		lo, hi = su.plen+len(sep), su.plen+len(sep)+su.siglen
	default:
		lo, hi = su.plen+len(sep)+su.siglen, total
		if kind == "ins" {
			hi = total + 1 // appending
		}
	}
	var offs []int
	switch {
	case density == "sparse":
		offs = []int{lo, hi - 1}
		for i := 0; i < 3 && hi-lo > 2; i++ {
			offs = append(offs, lo+rng.Intn(hi-lo))
		}
	case stride <= 1 || region == "sep" || region == "tail":
		for o := lo; o < hi; o++ {
			offs = append(offs, o)
		}
	default:
		for o := lo + rng.Intn(stride); o < hi; o += stride {
			offs = append(offs, o)
		}
		offs = append(offs, lo, lo+1, hi-2, hi-1)
	}
	seen := map[int]bool{}
	for _, off := range offs {
		if off < lo || off >= hi || seen[off] {
			continue
		}
		seen[off] = true
		switch kind {
		case "del":
			su.mutate(kind, off, -1)
		default:
			vals := subVals
			if kind == "ins" {
				vals = insVals
			}
			var pick []int
			if off < total && kind == "sub" {
				pick = append(pick, int(su.doc[off])^1) // single bit flip
				if nvals <= 0 || region == "sep" {
					pick = append(pick, int(su.doc[off])^0x20)
				}
			}
			if nvals <= 0 || region == "sep" {
				pick = append(pick, vals...)
			} else {
				for i := 0; i < nvals; i++ {
					pick = append(pick, vals[rng.Intn(len(vals))])
				}
			}
			done := map[int]bool{}
			for _, v := range pick {
				if !done[v] {
					done[v] = true
					su.mutate(kind, off, v)
				}
			}
		}
	}
}

// ---------------------------------------------------------------- random documents

func randString(rng *rand.Rand) string {
	pool := []string{"a", "b", "camliSig", "camliSigner", ",", "\"", ":", "\\", "é", "☃", "😀", " ", "\n", "\t", "}", "{", "sha224-", "0", "=", "/"}
	var sb strings.Builder
	for i := rng.Intn(6); i > 0; i-- {
		sb.WriteString(pool[rng.Intn(len(pool))])
	}
	b, _ := json.Marshal(sb.String())
	return string(b)
}

func randValue(rng *rand.Rand, depth int) string {
	switch k := rng.Intn(9); {
	case k < 3:
		return randString(rng)
	case k == 3:
		return fmt.Sprint(rng.Intn(2000) - 1000)
	case k == 4:
		return []string{"true", "false", "null", "1e9", "-0.5"}[rng.Intn(5)]
	case k < 7 && depth < 3:
		n := rng.Intn(4)
		parts := make([]string, n)
		for i := range parts {
			parts[i] = randValue(rng, depth+1)
		}
		return "[" + strings.Join(parts, ",") + "]"
	case depth < 3:
		n := rng.Intn(4)
		parts := make([]string, n)
		for i := range parts {
			parts[i] = randString(rng) + ":" + randValue(rng, depth+1)
		}
		return "{" + strings.Join(parts, ",") + "}"
	}
	return `"leaf"`
}

func randDoc(rng *rand.Rand) func(blob.Ref) string {
	n := rng.Intn(6)
	ms := []member{}
	for i := 0; i < n; i++ {
		k := randString(rng)
		var ks string
		json.Unmarshal([]byte(k), &ks)
		if ks == "camliSigner" || ks == "camliVersion" {
			ks += "x"
		}
		ms = append(ms, member{ks, randValue(rng, 0)})
	}
	ws := rng.Intn(3)
	pv, ps := rng.Intn(len(ms)+1), rng.Intn(len(ms)+2)
	return func(signer blob.Ref) string {
		all := append([]member{}, ms[:pv]...)
		all = append(all, member{"camliVersion", "1"})
		all = append(all, ms[pv:]...)
		out := append([]member{}, all[:ps]...)
		out = append(out, member{"camliSigner", fmt.Sprintf("%q", signer.String())})
		out = append(out, all[ps:]...)
		return layout(out, ws)
	}
}

// ---------------------------------------------------------------- main

type gcase struct {
	Shape   shape
	Scen    string
	Region  string
	Kind    string
	Density string
}

func main() {
	casesF := flag.String("cases", "", "file of TLC cases (one JSON object per line)")
	oneF := flag.String("one", "", "file with single mutations to replay: {shape, scen, kind, off, nb} per line")
	random := flag.Int("random", 0, "number of seeded random documents")
	rmut := flag.Int("rmut", 60, "random mutations per random document")
	seed := flag.Int64("seed", 1, "seed")
	stride := flag.Int("stride", 1, "byte stride in payload and signature regions for density=every (1 = every byte)")
	nvals := flag.Int("nvals", 0, "replacement/inserted byte values per position (0 = all)")
	repo := flag.String("repo", "/repo", "perkeep checkout (for the test key rings)")
	out := flag.String("out", "trace.ndjson", "trace output")
	verbose := flag.Bool("v", false, "perkeep logs to stderr")
	flag.Parse()
	if !*verbose {
		log.SetOutput(io.Discard)
	}
	scratch, err := os.MkdirTemp("", "verif-c16-")
	if err != nil {
		fatal(err)
	}
	defer os.RemoveAll(scratch)
	freshBits = int(*seed)
	wd := newWorld(*repo, scratch)
	f, err := os.Create(*out)
	if err != nil {
		fatal(err)
	}
	w = bufio.NewWriterSize(f, 1<<20)
	rng := rand.New(rand.NewSource(*seed))
	subjects := map[string]*subject{}
	nsid := 0
	if *casesF != "" {
		in, err := os.Open(*casesF)
		if err != nil {
			fatal(err)
		}
		sc := bufio.NewScanner(in)
		sc.Buffer(make([]byte, 1<<20), 1<<26)
		for sc.Scan() {
			var c gcase
			if err := json.Unmarshal(sc.Bytes(), &c); err != nil {
				fatal(err)
			}
			key := fmt.Sprintf("%+v/%s", c.Shape, c.Scen)
			su := subjects[key]
			if su == nil {
				nsid++
				shp := c.Shape
				su = wd.makeSubject(nsid, shp, func(r blob.Ref) string { return buildDoc(shp, r) }, c.Scen, sigTime(shp.Time), map[int]int{3: 1, 2: 2}[shp.Time])
				subjects[key] = su
				if c.Kind != "none" {
					su.base() // every swept subject is first verified unmutated (also names its shape in the trace)
				}
			}
			if c.Kind == "none" {
				su.base()
			} else {
				su.sweep(rng, c.Region, c.Kind, c.Density, *stride, *nvals)
			}
		}
		in.Close()
	}
	if *oneF != "" {
		in, err := os.Open(*oneF)
		if err != nil {
			fatal(err)
		}
		sc := bufio.NewScanner(in)
		for sc.Scan() {
			var c struct {
				gcase
				Off, Nb int
			}
			if err := json.Unmarshal(sc.Bytes(), &c); err != nil {
				fatal(err)
			}
			nsid++
			shp := c.Shape
			su := wd.makeSubject(nsid, shp, func(r blob.Ref) string { return buildDoc(shp, r) }, c.Scen, sigTime(shp.Time), map[int]int{3: 1, 2: 2}[shp.Time])
			if c.Kind == "none" {
				su.base()
			} else {
				su.mutate(c.Kind, c.Off, c.Nb)
			}
		}
		in.Close()
	}
	scens := []string{"right", "right", "right", "otherkey", "missing", "resigned", "notakey"}
	for i := 0; i < *random; i++ {
		nsid++
		mk := randDoc(rng)
		st := time.Unix(rng.Int63n(1<<33)-(1<<31), 0)
		su := wd.makeSubject(nsid, map[string]any{"random": i}, mk, scens[rng.Intn(len(scens))], st, []int{1, 2, 0, 0}[rng.Intn(4)])
		su.base()
		for j := 0; j < *rmut; j++ {
			kind := []string{"sub", "ins", "del"}[rng.Intn(3)]
			off := rng.Intn(len(su.doc) + 1)
			if rng.Intn(3) == 0 { // concentrate on the separator and its neighbourhood
				off = su.plen - 3 + rng.Intn(len(sep)+6)
			}
			if kind != "ins" && off >= len(su.doc) {
				off = len(su.doc) - 1
			}
			nb := rng.Intn(256)
			if rng.Intn(2) == 0 {
				nb = subVals[rng.Intn(len(subVals))]
			}
			su.mutate(kind, off, nb)
		}
	}
	w.Flush()
	f.Close()
	fmt.Printf("events=%d subjects=%d panics=%d\n", nev, nsid, npanic)
}
