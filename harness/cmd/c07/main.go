//go:build verif

// c07 builds abstract claim worlds (TLC-generated or seeded random) into real
// signed blobs, delivers them in arrival order to the real index / corpus /
// search handler and asks every attribute and deletion query path. It never
// computes an expected answer: replies are projected to value ids / item ids
// and logged as ndjson for Trace_Claims.tla.
package main

import (
	"bufio"
	"context"
	"encoding/json"
	"flag"
	"fmt"
	"io"
	"log"
	"math/rand"
	"os"
	"sort"
	"time"

	"go4.org/types"
	"perkeep.org/pkg/blob"
	"perkeep.org/pkg/index"
	"perkeep.org/pkg/search"
	"perkeep.org/pkg/types/camtypes"

	"verif/idx"
	"verif/world"
)

// Values: value id i is Values[i-1]. Value 2 needs URL-escaping in index rows.
var Values = []string{"A", "a|b c%&", "B", "é=\"q\"+1"}

// Gen is one generated case: a world (items in ARRIVAL order) and the query grid.
type Gen struct {
	Items   []world.Item `json:"items"`
	PNs     []int        `json:"pns"`
	PN      int          `json:"pn"`
	Attrs   []string     `json:"attrs"`
	Times   []int        `json:"times"`
	Signers []int        `json:"signers"`
	Vals    []int        `json:"vals"`
}

type Ev map[string]any

var (
	enc     *json.Encoder
	nEvents int
)

func emit(e Ev) {
	nEvents++
	if err := enc.Encode(e); err != nil {
		fatal(err)
	}
}

func fatal(err error) {
	fmt.Fprintln(os.Stderr, "c07: machinery:", err)
	os.Exit(3)
}

func main() {
	worldsF := flag.String("worlds", "", "file of generated cases, one JSON object per line")
	out := flag.String("out", "trace.ndjson", "trace output")
	secring := flag.String("secring", "/repo/pkg/jsonsign/testdata/test-secring.gpg", "signer 1 key ring")
	random := flag.Int("random", 0, "generate this many random worlds instead of reading -worlds")
	seed := flag.Int64("seed", 1, "seed for -random")
	shard := flag.Int("shard", 0, "process only cases with index % nshards == shard")
	nshards := flag.Int("nshards", 1, "number of shards")
	dump := flag.String("dump", "", "with -random: write the generated cases here and exit")
	verbose := flag.Bool("v", false, "perkeep logs to stderr")
	flag.Parse()
	if !*verbose {
		log.SetOutput(io.Discard)
	}
	index.SetVerboseCorpusLogging(false)
	s, err := world.LoadSigners(*secring)
	if err != nil {
		fatal(err)
	}
	var gens []Gen
	if *random > 0 {
		rng := rand.New(rand.NewSource(*seed))
		for i := 0; i < *random; i++ {
			gens = append(gens, randomGen(rng))
		}
		if *dump != "" {
			f, err := os.Create(*dump)
			if err != nil {
				fatal(err)
			}
			e := json.NewEncoder(f)
			for _, g := range gens {
				e.Encode(g)
			}
			f.Close()
			fmt.Printf("generated=%d\n", len(gens))
			return
		}
	} else {
		f, err := os.Open(*worldsF)
		if err != nil {
			fatal(err)
		}
		sc := bufio.NewScanner(f)
		sc.Buffer(make([]byte, 1<<20), 1<<26)
		for sc.Scan() {
			var g Gen
			if err := json.Unmarshal(sc.Bytes(), &g); err != nil {
				fatal(fmt.Errorf("bad case line: %v", err))
			}
			gens = append(gens, g)
		}
		f.Close()
	}
	of, err := os.Create(*out)
	if err != nil {
		fatal(err)
	}
	bw := bufio.NewWriterSize(of, 1<<20)
	enc = json.NewEncoder(bw)
	n := 0
	for i, g := range gens {
		if i%*nshards != *shard {
			continue
		}
		if err := runWorld(s, i, &g); err != nil {
			fatal(fmt.Errorf("case %d: %v", i, err))
		}
		n++
	}
	bw.Flush()
	of.Close()
	fmt.Printf("worlds=%d events=%d\n", n, nEvents)
}

type paths struct {
	s     *world.Signers
	b     *world.Built
	g     *Gen
	w     int
	valID map[string]int
	owner *index.Owner
}

func (p *paths) ids(vals []string) []int {
	out := make([]int, 0, len(vals))
	for _, v := range vals {
		id, ok := p.valID[v]
		if !ok {
			id = 99 // a string that is no value of the world
		}
		out = append(out, id)
	}
	return out
}

func (p *paths) at(t int) time.Time {
	if t == 0 {
		return time.Time{}
	}
	return world.Epoch.Add(time.Duration(t) * time.Second)
}

func (p *paths) keyID(signer int) string {
	if signer == 0 {
		return ""
	}
	return p.s.KeyID[signer]
}

func (p *paths) pns() []int {
	if len(p.g.PNs) > 0 {
		return p.g.PNs
	}
	return []int{p.g.PN}
}

func deletable(it *world.Item) bool {
	return it.Kind == "permanode" || it.Kind == "claim" || it.Kind == "delete"
}

// corpusQueries asks the corpus every attribute, deletion and modtime question for the first n items.
func (p *paths) corpusQueries(path string, e *idx.Env, n int) {
	c := e.Corpus
	e.Ix.RLock()
	defer e.Ix.RUnlock()
	var del []int
	for i := range p.b.W.Items {
		it := &p.b.W.Items[i]
		if it.ID <= n && deletable(it) && c.IsDeleted(p.b.Refs[it.ID]) {
			del = append(del, it.ID)
		}
	}
	emit(Ev{"ev": "deleted", "w": p.w, "n": n, "path": path, "ids": nn(del)})
	for _, pn := range p.pns() {
		if pn > n {
			continue
		}
		pnRef := p.b.Refs[pn]
		mt, ok := c.PermanodeModtime(pnRef)
		sec, nano := 0, 0
		if ok {
			d := mt.Sub(world.Epoch)
			sec = int(d / time.Second)
			nano = int(d % time.Second)
			if nano < 0 {
				sec--
				nano += 1e9
			}
		}
		emit(Ev{"ev": "mod", "w": p.w, "n": n, "path": path, "pn": pn, "ok": ok, "sec": sec, "nano": nano})
		for _, attr := range p.g.Attrs {
			for _, t := range p.g.Times {
				at := p.at(t)
				for _, sg := range p.g.Signers {
					kid := p.keyID(sg)
					first := c.PermanodeAttrValue(pnRef, attr, at, kid)
					var fl []string
					if first != "" {
						fl = []string{first}
					}
					list := c.AppendPermanodeAttrValues(nil, pnRef, attr, at, kid)
					apis := []string{"first", "list"}
					var has []int
					if sg == 0 {
						apis = append(apis, "has")
						for _, v := range p.g.Vals {
							if c.PermanodeHasAttrValue(pnRef, at, attr, Values[v-1]) {
								has = append(has, v)
							}
						}
					}
					emit(Ev{"ev": "q", "w": p.w, "n": n, "path": path, "pn": pn, "attr": attr, "t": t, "signer": sg,
						"apis": apis, "first": p.ids(fl), "list": p.ids(list), "has": nn(has)})
				}
			}
		}
	}
}

// indexQueries asks the index (sorted rows, no corpus) about deletions and live claims.
func (p *paths) indexQueries(path string, e *idx.Env, n int) error {
	ctx := context.Background()
	var del []int
	for i := range p.b.W.Items {
		it := &p.b.W.Items[i]
		if it.ID <= n && deletable(it) && e.Ix.IsDeleted(p.b.Refs[it.ID]) {
			del = append(del, it.ID)
		}
	}
	emit(Ev{"ev": "deleted", "w": p.w, "n": n, "path": path, "ids": nn(del)})
	for _, pn := range p.pns() {
		for _, attr := range append([]string{""}, p.g.Attrs...) {
			for _, sg := range p.g.Signers {
				cls, err := e.Ix.AppendClaims(ctx, nil, p.b.Refs[pn], p.keyID(sg), attr)
				if err != nil {
					return fmt.Errorf("AppendClaims: %v", err)
				}
				emit(Ev{"ev": "claims", "w": p.w, "n": n, "path": path, "pn": pn, "attr": attr, "signer": sg,
					"ids": p.claimIDs(cls), "dated": datesSorted(cls)})
			}
		}
	}
	// look-up BY VALUE over the signerattrvalue rows: which permanodes hold attr = v for this signer as of T
	for _, attr := range p.g.Attrs {
		if !index.IsIndexedAttribute(attr) {
			continue
		}
		for _, v := range p.g.Vals {
			for _, t := range p.g.Times {
				for _, sg := range p.g.Signers {
					if sg == 0 {
						continue
					}
					dest := make(chan blob.Ref, 64)
					errc := make(chan error, 1)
					go func() {
						errc <- e.Ix.SearchPermanodesWithAttr(ctx, dest, &camtypes.PermanodeByAttrRequest{
							Signer: p.s.PubRef[sg], Attribute: attr, Query: Values[v-1], At: p.at(t), MaxResults: 1000})
					}()
					var got []int
					for br := range dest {
						id, ok := p.b.ByRef[br]
						if !ok || id > n {
							id = -1
						}
						got = append(got, id)
					}
					if err := <-errc; err != nil {
						return fmt.Errorf("SearchPermanodesWithAttr: %v", err)
					}
					sort.Ints(got)
					emit(Ev{"ev": "withattr", "w": p.w, "n": n, "path": path, "attr": attr, "v": v, "t": t, "signer": sg, "pns": nn(got)})
				}
			}
		}
	}
	return nil
}

func datesSorted(cls []camtypes.Claim) bool {
	for i := 1; i < len(cls); i++ {
		if cls[i].Date.Before(cls[i-1].Date) {
			return false
		}
	}
	return true
}

func (p *paths) claimIDs(cls []camtypes.Claim) []int {
	out := make([]int, 0, len(cls))
	for _, c := range cls {
		id, ok := p.b.ByRef[c.BlobRef]
		if !ok {
			id = -1
		}
		out = append(out, id)
	}
	return out
}

// describe asks search.Handler.Describe for the permanode's attributes (owner = signer 1) at every time.
func (p *paths) describe(path string, e *idx.Env, n int, withCorpus bool) error {
	h := search.NewHandler(e.Ix, p.owner)
	if withCorpus {
		h.SetCorpus(e.Corpus)
	}
	for _, pn := range p.pns() {
		pnRef := p.b.Refs[pn]
		for _, t := range p.g.Times {
			dr := &search.DescribeRequest{BlobRef: pnRef, Depth: 1}
			if t != 0 {
				dr.At = types.Time3339(p.at(t))
			}
			res, err := h.Describe(context.Background(), dr)
			if err != nil {
				return fmt.Errorf("Describe: %v", err)
			}
			db := res.Meta[pnRef.String()]
			for _, attr := range p.g.Attrs {
				var list []string
				present := db != nil && db.Permanode != nil
				if present {
					list = db.Permanode.Attr[attr]
				}
				apis := []string{"list"}
				if !present {
					apis = []string{"absent"}
				}
				emit(Ev{"ev": "q", "w": p.w, "n": n, "path": path, "pn": pn, "attr": attr, "t": t, "signer": 1,
					"apis": apis, "first": []int{}, "list": p.ids(list), "has": []int{}})
			}
		}
	}
	return nil
}

func nn(x []int) []int {
	if x == nil {
		return []int{}
	}
	return x
}

func runWorld(s *world.Signers, wi int, g *Gen) error {
	w := &world.World{Items: g.Items, Values: Values}
	w.Normalize()
	b, err := world.Build(w, s)
	if err != nil {
		return err
	}
	p := &paths{s: s, b: b, g: g, w: wi, valID: map[string]int{}, owner: index.NewOwner(s.KeyID[1], s.PubRef[1])}
	for i, v := range Values {
		p.valID[v] = i + 1
	}
	all := len(w.Items)
	emit(Ev{"ev": "world", "w": wi, "items": w.Items})

	// (b) corpus built incrementally: KeepInMemory before any delivery, queried after every delivery.
	live, err := idx.NewMem(true)
	if err != nil {
		return err
	}
	for _, it := range w.Items {
		if err := live.Deliver(b, it.ID); err != nil {
			return fmt.Errorf("corpus-incr: delivering item %d: %v", it.ID, err)
		}
		live.Await()
		if it.Kind == "claim" || it.Kind == "delete" {
			p.corpusQueries("corpus-incr", live, it.ID)
		}
	}
	if err := p.describe("describe-corpus", live, all, true); err != nil {
		return err
	}

	// (a) index rows only.
	rows, err := idx.NewMem(false)
	if err != nil {
		return err
	}
	for _, it := range w.Items {
		if err := rows.Deliver(b, it.ID); err != nil {
			return fmt.Errorf("index: delivering item %d: %v", it.ID, err)
		}
	}
	rows.Await()
	if err := p.indexQueries("index", rows, all); err != nil {
		return err
	}
	if err := p.describe("describe-index", rows, all, false); err != nil {
		return err
	}

	// (a') the same rows behind a freshly opened index (restart), no corpus.
	re, err := rows.Reopen(false)
	if err != nil {
		return err
	}
	if err := p.indexQueries("index-reopen", re, all); err != nil {
		return err
	}
	if err := p.describe("describe-index-reopen", re, all, false); err != nil {
		return err
	}

	// (c) corpus loaded at start from the rows.
	loaded, err := rows.Reopen(true)
	if err != nil {
		return err
	}
	p.corpusQueries("corpus-load", loaded, all)
	if err := p.describe("describe-corpus-load", loaded, all, true); err != nil {
		return err
	}
	return nil
}

// randomGen: larger worlds than the TLC generator emits: two permanodes, three attributes, four values,
// six dates (heavy ties), delete / undelete chains up to depth four, in random arrival order.
func randomGen(rng *rand.Rand) Gen {
	g := Gen{PNs: []int{3, 4}, Attrs: []string{"tag", "title", "camliContent"}, Signers: []int{0, 1, 2}, Vals: []int{1, 2, 3, 4}}
	dates := []int{10, 20, 20, 30, 40, 50}
	g.Times = []int{0, 5, 10, 15, 20, 30, 45, 50, 60}
	its := []world.Item{
		{ID: 1, Kind: "key", Signer: 1}, {ID: 2, Kind: "key", Signer: 2},
		{ID: 3, Kind: "permanode", Signer: 1, Data: "p"}, {ID: 4, Kind: "permanode", Signer: 2, Data: "q"},
	}
	n := 3 + rng.Intn(9)
	perPn := map[int]int{}
	var claims, deletes []int
	for len(its) < 4+n {
		id := len(its) + 1
		r := rng.Intn(10)
		switch {
		case r < 6 || len(claims) == 0:
			pn := 3 + rng.Intn(2)
			if perPn[pn] >= 6 {
				pn = 7 - pn
				if perPn[pn] >= 6 {
					goto del
				}
			}
			perPn[pn]++
			it := world.Item{ID: id, Kind: "claim", PN: pn, Attr: g.Attrs[rng.Intn(2+rng.Intn(2))], Date: dates[rng.Intn(len(dates))], Signer: 1 + rng.Intn(2)}
			it.Claim = []string{"set", "add", "add", "del"}[rng.Intn(4)]
			it.Val = 1 + rng.Intn(4)
			if it.Claim == "del" && rng.Intn(2) == 0 {
				it.Val = 0
			}
			its = append(its, it)
			claims = append(claims, id)
			continue
		}
	del:
		var tgt int
		switch k := rng.Intn(6); {
		case k == 0:
			tgt = 3 + rng.Intn(2)
		case k < 3 && len(deletes) > 0:
			tgt = deletes[rng.Intn(len(deletes))]
		default:
			tgt = claims[rng.Intn(len(claims))]
		}
		its = append(its, world.Item{ID: id, Kind: "delete", Target: tgt, Date: []int{15, 35, 70}[rng.Intn(3)], Signer: 1 + rng.Intn(2)})
		deletes = append(deletes, id)
	}
	g.Items = its
	return g
}

var _ = blob.Ref{}
