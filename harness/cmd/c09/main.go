//go:build verif

// c09 builds permanode worlds (TLC-generated or seeded random, up to 200
// permanodes with massive time ties) into real signed blobs, indexes them, and
// pages through search.Handler.Query results by following Continue tokens, and
// asks Around queries for every pivot. Replies are projected to blobref ranks
// and logged as ndjson for Trace_Paging.tla; nothing is expected here.
package main

import (
	"bufio"
	"context"
	"encoding/json"
	"flag"
	"fmt"
	"io"
	"log"
	"math/rand"
	"os"
	"time"

	"perkeep.org/pkg/index"
	"perkeep.org/pkg/search"

	"verif/idx"
	"verif/world"
)

type Opts struct {
	Del     int    `json:"del"`
	Created string `json:"created"`
	Cons    string `json:"cons"`
	Xdel    bool   `json:"xdel"`
	Zones   bool   `json:"zones"`
}

// Gen is one generated case.
type Gen struct {
	Items  []world.Item `json:"items"`
	N      int          `json:"n"`
	Cls    string       `json:"cls"`
	Slots  []int        `json:"slots"`
	Opts   Opts         `json:"opts"`
	VTimes [][2]int     `json:"vtimes"` // value id v (1-based) is a time iff v > 10: seconds, nanos relative to world.Epoch
	VZones []int        `json:"vzones"` // minutes east of UTC in which value v spells its instant (0 = "Z")
	Cons   string       `json:"cons"`
	TagVal int          `json:"tagval"`
	// attribute the tag claims and the "tag" constraint use: "tag", or "camliNodeType" (which makes the
	// planner's per-node-type candidate source eligible)
	TagAttr string `json:"tagattr"`
	Sorts  []string     `json:"sorts"`
	Limits []int        `json:"limits"`
	Pivots []int        `json:"pivots"` // item ids
	// around queries use ALimits if set, else Limits
	ALimits []int  `json:"alimits"`
	Leg     string `json:"leg"`
}

type Ev map[string]any

var (
	enc     *json.Encoder
	nEvents int
)

func emit(e Ev) {
	nEvents++
	if err := enc.Encode(e); err != nil {
		fatal(err)
	}
}

func fatal(err error) {
	fmt.Fprintln(os.Stderr, "c09: machinery:", err)
	os.Exit(3)
}

func main() {
	worldsF := flag.String("worlds", "", "file of generated cases, one JSON object per line")
	out := flag.String("out", "trace.ndjson", "trace output")
	secring := flag.String("secring", "/repo/pkg/jsonsign/testdata/test-secring.gpg", "signer 1 key ring")
	random := flag.Int("random", 0, "generate this many random worlds")
	maxn := flag.Int("maxn", 200, "largest random world")
	seed := flag.Int64("seed", 1, "seed for -random")
	dump := flag.String("dump", "", "with -random: write the generated cases here and exit")
	shard := flag.Int("shard", 0, "process only cases with index % nshards == shard")
	nshards := flag.Int("nshards", 1, "number of shards")
	verbose := flag.Bool("v", false, "perkeep logs to stderr")
	flag.Parse()
	if !*verbose {
		log.SetOutput(io.Discard)
	}
	index.SetVerboseCorpusLogging(false)
	var gens []Gen
	if *random > 0 {
		rng := rand.New(rand.NewSource(*seed))
		for i := 0; i < *random; i++ {
			gens = append(gens, randomGen(rng, i, *random, *maxn))
		}
		if *dump != "" {
			f, err := os.Create(*dump)
			if err != nil {
				fatal(err)
			}
			e := json.NewEncoder(f)
			for _, g := range gens {
				e.Encode(g)
			}
			f.Close()
			fmt.Printf("generated=%d\n", len(gens))
			return
		}
	} else {
		f, err := os.Open(*worldsF)
		if err != nil {
			fatal(err)
		}
		sc := bufio.NewScanner(f)
		sc.Buffer(make([]byte, 1<<20), 1<<28)
		for sc.Scan() {
			var g Gen
			if err := json.Unmarshal(sc.Bytes(), &g); err != nil {
				fatal(fmt.Errorf("bad case line: %v", err))
			}
			gens = append(gens, g)
		}
		f.Close()
	}
	s, err := world.LoadSigners(*secring)
	if err != nil {
		fatal(err)
	}
	of, err := os.Create(*out)
	if err != nil {
		fatal(err)
	}
	bw := bufio.NewWriterSize(of, 1<<20)
	enc = json.NewEncoder(bw)
	n := 0
	for i := range gens {
		if i%*nshards != *shard {
			continue
		}
		if err := runWorld(s, i, &gens[i]); err != nil {
			fatal(fmt.Errorf("case %d: %v", i, err))
		}
		n++
	}
	bw.Flush()
	of.Close()
	fmt.Printf("worlds=%d events=%d\n", n, nEvents)
}

func values(g *Gen) []string {
	vs := make([]string, len(g.VTimes))
	for i := range vs {
		v := i + 1
		switch {
		case v == 1:
			vs[i] = "T"
		case v == g.TagVal:
			vs[i] = "x"
		case v > 10:
			t := world.Epoch.Add(time.Duration(g.VTimes[i][0])*time.Second + time.Duration(g.VTimes[i][1]))
			t = t.UTC()
			if i < len(g.VZones) && g.VZones[i] != 0 {
				// the same instant, written with another UTC offset: time.Parse gives it a fresh Location
				t = t.In(time.FixedZone("", g.VZones[i]*60))
			}
			vs[i] = t.Format(time.RFC3339Nano)
		default:
			vs[i] = fmt.Sprintf("v%d", v)
		}
	}
	return vs
}

type runner struct {
	b    *world.Built
	g    *Gen
	w    int
	vals []string
	h    *search.Handler
	mode string
}

func (g *Gen) tagAttr() string {
	if g.TagAttr == "" {
		return "tag"
	}
	return g.TagAttr
}

func (r *runner) constraint() *search.Constraint {
	any := &search.Constraint{Permanode: &search.PermanodeConstraint{}}
	tag := &search.Constraint{Permanode: &search.PermanodeConstraint{Attr: r.g.tagAttr(), Value: r.vals[r.g.TagVal-1]}}
	switch r.g.Cons {
	case "any":
		return any
	case "tag":
		return tag
	case "and":
		return &search.Constraint{Logical: &search.LogicalConstraint{Op: "and", A: any, B: tag}}
	}
	fatal(fmt.Errorf("unknown constraint %q", r.g.Cons))
	return nil
}

func sortType(s string) search.SortType {
	if s == "mod" {
		return search.LastModifiedDesc
	}
	return search.CreatedDesc
}

func (r *runner) ranks(res *search.SearchResult) []int {
	out := make([]int, 0, len(res.Blobs))
	for _, sb := range res.Blobs {
		id, ok := r.b.ByRef[sb.Blob]
		if !ok {
			out = append(out, -1)
			continue
		}
		out = append(out, r.b.Item(id).Rank)
	}
	return out
}

// pages follows Continue tokens until there is none, or until more pages were fetched than any
// correct paging needs (a repeating or non-terminating paging is a reply, not a hang).
func (r *runner) pages(sort string, limit int) {
	matching := r.g.N
	bound := matching/limit + 3
	pages := [][]int{}
	tok := ""
	more := false
	errS := ""
	for {
		res, err := r.h.Query(context.Background(), &search.SearchQuery{Constraint: r.constraint(), Sort: sortType(sort), Limit: limit, Continue: tok})
		if err != nil {
			errS = err.Error()
			break
		}
		pages = append(pages, r.ranks(res))
		tok = res.Continue
		if tok == "" {
			break
		}
		if len(pages) >= bound {
			more = true
			break
		}
	}
	emit(Ev{"ev": "pages", "w": r.w, "mode": r.mode, "sort": sort, "cons": r.g.Cons, "limit": limit, "pages": pages, "more": more, "err": errS})
}

func (r *runner) around(sort string, limit, pivot int) {
	res, err := r.h.Query(context.Background(), &search.SearchQuery{Constraint: r.constraint(), Sort: sortType(sort), Limit: limit, Around: r.b.Refs[pivot]})
	errS := ""
	out := []int{}
	if err != nil {
		errS = err.Error()
	} else {
		out = r.ranks(res)
		if res.Continue != "" {
			errS = "around result carries a continue token"
		}
	}
	emit(Ev{"ev": "around", "w": r.w, "mode": r.mode, "sort": sort, "cons": r.g.Cons, "limit": limit, "pivot": r.b.Item(pivot).Rank, "out": out, "err": errS})
}

func (r *runner) all() {
	alim := r.g.ALimits
	if len(alim) == 0 {
		alim = r.g.Limits
	}
	for _, s := range r.g.Sorts {
		for _, l := range r.g.Limits {
			r.pages(s, l)
		}
		for _, p := range r.g.Pivots {
			for _, l := range alim {
				r.around(s, l, p)
			}
		}
	}
}

func runWorld(s *world.Signers, wi int, g *Gen) error {
	w := &world.World{Items: g.Items, Values: values(g)}
	w.Normalize()
	b, err := world.Build(w, s)
	if err != nil {
		return err
	}
	emit(Ev{"ev": "world", "w": wi, "cls": g.Cls, "tagval": g.TagVal, "tagattr": g.tagAttr(), "items": w.Items, "vtimes": g.VTimes, "vzones": g.VZones, "zones": g.Opts.Zones})
	owner := index.NewOwner(s.KeyID[1], s.PubRef[1])
	live, err := idx.NewMem(true)
	if err != nil {
		return err
	}
	if err := live.DeliverAll(b); err != nil {
		return err
	}
	r := &runner{b: b, g: g, w: wi, vals: w.Values, mode: "live"}
	r.h = search.NewHandler(live.Ix, owner)
	r.h.SetCorpus(live.Corpus)
	r.all()
	re, err := live.Reopen(true)
	if err != nil {
		return err
	}
	r.mode = "reload"
	r.h = search.NewHandler(re.Ix, owner)
	r.h.SetCorpus(re.Corpus)
	r.all()
	return nil
}

const u0 = -1322443957 // the unix epoch on the world's time axis

// randomGen: up to maxn permanodes on few time slots (massive ties), every time class, random tags,
// deleted permanodes, optional dateCreated in an unrelated order.
func randomGen(rng *rand.Rand, i, total, maxn int) Gen {
	n := 7 + rng.Intn(maxn-6)
	if i == 0 {
		n = maxn
	}
	classes := []string{"normal", "allequal", "pre1970", "span1970", "subsec", "presub", "mixed", "zoned"}
	cls := classes[(i+int(rng.Int31n(8)))%8]
	if i < 8 {
		cls = classes[(i+2)%8] // the first (largest) world is pre-1970
	}
	k := []int{1, 2, 3, 5, 1 + n/10}[rng.Intn(5)]
	if cls == "allequal" {
		k = 1
	}
	slotTime := func(s int) [2]int {
		switch cls {
		case "normal", "zoned":
			return [2]int{100 * s, 0}
		case "allequal":
			return [2]int{100, 0}
		case "pre1970":
			return [2]int{u0 - 100000 + 100*s, 0}
		case "span1970":
			return [2]int{u0 - 100*(k/2) + 100*(s-1) - 1, 999999999}
		case "subsec":
			return [2]int{100, s}
		case "presub":
			return [2]int{u0 - 50, 999999999 - s}
		}
		// mixed: seconds and nanoseconds both vary, around the epoch (never inside its first second: perkeep treats such claim dates as missing)
		return [2]int{u0 + []int{-3, -2, -1, 1, 2}[s%5], (s * 250000001) % 1000000000}
	}
	g := Gen{N: n, Cls: cls, TagVal: 2, Sorts: []string{"created", "mod"}, Leg: "T-random"}
	g.Cons = []string{"any", "tag", "and"}[rng.Intn(3)]
	g.TagAttr = []string{"tag", "camliNodeType"}[rng.Intn(2)]
	g.Opts = Opts{Cons: g.Cons, Created: []string{"same", "dc"}[rng.Intn(2)], Zones: cls == "zoned" || rng.Intn(5) < 2}
	if cls == "zoned" {
		g.Opts.Created = "dc"
	}
	// value id 10 + z*k + s spells the instant of slot s with UTC offset zoneOff[z]
	zoneOff := []int{0, 120, 330, -570}
	g.VTimes = make([][2]int, 10+len(zoneOff)*k)
	g.VZones = make([]int, len(g.VTimes))
	for z := range zoneOff {
		for s := 1; s <= k; s++ {
			g.VTimes[10+z*k+s-1] = slotTime(s)
			g.VZones[10+z*k+s-1] = zoneOff[z]
		}
	}
	its := []world.Item{{ID: 1, Kind: "key", Signer: 1}, {ID: 2, Kind: "key", Signer: 2}}
	for p := 0; p < n; p++ {
		its = append(its, world.Item{ID: len(its) + 1, Kind: "permanode", Signer: 1})
	}
	var tagged, untagged, deleted []int
	for p := 0; p < n; p++ {
		pn := 3 + p
		s := 1 + rng.Intn(k)
		t := slotTime(s)
		its = append(its, world.Item{ID: len(its) + 1, Kind: "claim", Claim: "set", PN: pn, Attr: "title", Val: 1, Date: t[0], Nano: t[1], Signer: 1})
		g.Slots = append(g.Slots, s)
		if rng.Intn(3) > 0 {
			its = append(its, world.Item{ID: len(its) + 1, Kind: "claim", Claim: "add", PN: pn, Attr: g.TagAttr, Val: 2, Date: t[0], Nano: t[1], Signer: 1})
			tagged = append(tagged, pn)
		} else {
			untagged = append(untagged, pn)
		}
		if g.Opts.Created == "dc" {
			its = append(its, world.Item{ID: len(its) + 1, Kind: "claim", Claim: "set", PN: pn, Attr: "dateCreated", Val: 10 + zoneOf(rng, g.Opts.Zones, len(zoneOff))*k + 1 + rng.Intn(k), Date: t[0], Nano: t[1], Signer: 1})
		}
		if rng.Intn(25) == 0 {
			its = append(its, world.Item{ID: len(its) + 1, Kind: "delete", Target: pn, Date: t[0] + 5, Signer: 1})
			deleted = append(deleted, pn)
		}
	}
	g.Items = its
	lim := map[int]bool{1: true, 2: true, 3: true, 7: true, n / 2: true, n - 1: true, n: true, n + 1: true}
	for l := range lim {
		if l >= 1 && (l >= 3 || n <= 60 || l == 2) {
			g.Limits = append(g.Limits, l)
		}
	}
	sortInts(g.Limits)
	g.ALimits = []int{1, 2, 3, 8, n}
	pick := func(xs []int, m int) {
		for j := 0; j < m && len(xs) > 0; j++ {
			g.Pivots = append(g.Pivots, xs[rng.Intn(len(xs))])
		}
	}
	pick(tagged, 5)
	pick(untagged, 2)
	pick(deleted, 1)
	return g
}

func zoneOf(rng *rand.Rand, zones bool, n int) int {
	if !zones {
		return 0
	}
	return rng.Intn(n)
}

func sortInts(a []int) {
	for i := 1; i < len(a); i++ {
		for j := i; j > 0 && a[j] < a[j-1]; j-- {
			a[j], a[j-1] = a[j-1], a[j]
		}
	}
}
