//go:build verif

// c05 delivers the blobs of small worlds to a real index.Index (+ corpus) in
// every order TLC enumerates (with duplicates and restarts in the middle),
// and records (a) per replay the quiescent out-of-order state for
// Trace_IndexOOO.tla (C05) and (b) after EVERY delivery step the comparison of
// the live index+corpus with a fresh index+corpus opened over the same rows
// (C06).
package main

import (
	"bufio"
	"context"
	"encoding/json"
	"flag"
	"fmt"
	"io"
	"log"
	"os"
	"sort"
	"strings"
	"sync"
	"time"

	"perkeep.org/pkg/blob"
	"perkeep.org/pkg/index"
	"perkeep.org/pkg/sorted"
	_ "perkeep.org/pkg/sorted/kvfile"
	_ "perkeep.org/pkg/sorted/leveldb"
	_ "perkeep.org/pkg/sorted/sqlite"
	"perkeep.org/pkg/types/camtypes"

	"verif/gate"
	"verif/idx"
	"verif/world"
)

func fatal(err error) {
	fmt.Fprintln(os.Stderr, "c05:", err)
	os.Exit(2)
}

type shape struct {
	Name string
	W    *world.World
	B    *world.Built
	// canonical rows (delivery in creation order)
	Canon [][2]string
}

func shapes() []*shape {
	mk := func(name string, vals []string, items ...world.Item) *shape {
		for i := range items {
			items[i].ID = i + 1
		}
		w := &world.World{Items: items, Values: vals}
		w.Normalize()
		return &shape{Name: name, W: w}
	}
	return []*shape{
		mk("KPCD", []string{"A"},
			world.Item{Kind: "key", Signer: 1},
			world.Item{Kind: "permanode", Signer: 1, Data: "p"},
			world.Item{Kind: "claim", Claim: "set", PN: 2, Attr: "title", Val: 1, Date: 10, Signer: 1},
			world.Item{Kind: "delete", Target: 2, Date: 20, Signer: 1}),
		mk("undelete", []string{"A", "B"},
			world.Item{Kind: "key", Signer: 1},
			world.Item{Kind: "permanode", Signer: 1, Data: "p"},
			world.Item{Kind: "claim", Claim: "add", PN: 2, Attr: "tag", Val: 1, Date: 10, Signer: 1},
			world.Item{Kind: "delete", Target: 3, Date: 20, Signer: 1},
			world.Item{Kind: "delete", Target: 4, Date: 30, Signer: 1}),
		mk("filetree", nil,
			world.Item{Kind: "chunk", Data: "hello "},
			world.Item{Kind: "chunk", Data: "world, this is chunk two"},
			world.Item{Kind: "bytes", Parts: []world.Part{{Kind: "blob", Ref: 2, Size: 24}}},
			world.Item{Kind: "file", Name: "f.txt", Parts: []world.Part{{Kind: "blob", Ref: 1, Size: 6}, {Kind: "bytes", Ref: 3, Size: 24}}},
			world.Item{Kind: "staticset", Children: []int{4}},
			world.Item{Kind: "dir", Name: "d", Children: []int{5}}),
		mk("twosigners", []string{"x"},
			world.Item{Kind: "key", Signer: 1},
			world.Item{Kind: "key", Signer: 2},
			world.Item{Kind: "permanode", Signer: 1, Data: "p"},
			world.Item{Kind: "claim", Claim: "add", PN: 3, Attr: "tag", Val: 1, Date: 10, Signer: 2},
			world.Item{Kind: "share", Target: 3, Transitive: true, Date: 30, Signer: 1}),
		mk("members", []string{"t"},
			world.Item{Kind: "key", Signer: 1},
			world.Item{Kind: "permanode", Signer: 1, Data: "parent"},
			world.Item{Kind: "permanode", Signer: 1, Data: "child"},
			world.Item{Kind: "claim", Claim: "add", PN: 2, Attr: "camliMember", ValRef: 3, Date: 10, Signer: 1},
			world.Item{Kind: "claim", Claim: "set", PN: 3, Attr: "title", Val: 1, Date: 5, Signer: 1},
			world.Item{Kind: "delete", Target: 4, Date: 20, Signer: 1}),
		mk("late-delete", []string{"one", "two"},
			world.Item{Kind: "key", Signer: 1},
			world.Item{Kind: "permanode", Signer: 1, Data: "p"},
			world.Item{Kind: "claim", Claim: "set", PN: 2, Attr: "title", Val: 1, Date: 10, Signer: 1},
			world.Item{Kind: "delete", Target: 2, Date: 15, Signer: 1},
			world.Item{Kind: "claim", Claim: "set", PN: 2, Attr: "title", Val: 2, Date: 20, Signer: 1},
			world.Item{Kind: "claim", Claim: "add", PN: 2, Attr: "tag", Val: 1, Date: 12, Signer: 1}),
		// the file's time (5) decides p2's place in the time-sorted permanode lists once the file is known;
		// before that its claim date (30) does: the order of p1 and p2 flips when the file arrives after the claim
		mk("content-time", []string{"t"},
			world.Item{Kind: "key", Signer: 1},
			world.Item{Kind: "permanode", Signer: 1, Data: "p1"},
			world.Item{Kind: "claim", Claim: "set", PN: 2, Attr: "title", Val: 1, Date: 20, Signer: 1},
			world.Item{Kind: "permanode", Signer: 1, Data: "p2"},
			world.Item{Kind: "file", Name: "old.txt", Date: 5},
			world.Item{Kind: "claim", Claim: "set", PN: 4, Attr: "camliContent", ValRef: 5, Date: 30, Signer: 1}),
		// two delete claims on one permanode, the NEWER one undone: the permanode stays deleted through the older one.
		// Three copies with different permanodes: the order of the refs of permanode and delete claims (which decides
		// the order of the deleted| rows a corpus load scans) differs between them.
		mk("double-delete-a", []string{"t"}, doubleDelete("dd-a")...),
		mk("double-delete-b", []string{"t"}, doubleDelete("dd-b")...),
		mk("double-delete-c", []string{"t"}, doubleDelete("dd-c")...),
		// two different delete claims on one permanode with the SAME claim date, one of them undone
		mk("same-date-deletes", []string{"t"},
			world.Item{Kind: "key", Signer: 1},
			world.Item{Kind: "permanode", Signer: 1, Data: "sdd"},
			world.Item{Kind: "claim", Claim: "set", PN: 2, Attr: "title", Val: 1, Date: 10, Signer: 1},
			world.Item{Kind: "delete", Target: 2, Date: 20, Signer: 1},
			world.Item{Kind: "delete", Target: 2, Date: 20, Signer: 1},
			world.Item{Kind: "delete", Target: 4, Date: 40, Signer: 1}),
		mk("delpn-attrs", []string{"a", "b"},
			world.Item{Kind: "key", Signer: 1},
			world.Item{Kind: "permanode", Signer: 1, Data: "p"},
			world.Item{Kind: "claim", Claim: "set", PN: 2, Attr: "title", Val: 1, Date: 10, Signer: 1},
			world.Item{Kind: "claim", Claim: "set", PN: 2, Attr: "title", Val: 2, Date: 12, Signer: 1},
			world.Item{Kind: "delete", Target: 2, Date: 20, Signer: 1},
			world.Item{Kind: "delete", Target: 5, Date: 30, Signer: 1}),
		// two signers claim values of one multi-valued attribute, dated s1 < s2 < s1 on the calendar but arriving in
		// any order: a claim arriving out of date order rebuilds the attribute caches, the per-signer ones too
		mk("twosigners-multi", []string{"x", "y", "z"},
			world.Item{Kind: "key", Signer: 1},
			world.Item{Kind: "key", Signer: 2},
			world.Item{Kind: "permanode", Signer: 1, Data: "tsm"},
			world.Item{Kind: "claim", Claim: "add", PN: 3, Attr: "tag", Val: 1, Date: 10, Signer: 1},
			world.Item{Kind: "claim", Claim: "add", PN: 3, Attr: "tag", Val: 2, Date: 30, Signer: 2},
			world.Item{Kind: "claim", Claim: "add", PN: 3, Attr: "tag", Val: 3, Date: 20, Signer: 1}),
		// two claims of one signer within one second, the first on the whole second: their RFC 3339 texts (the claim
		// rows' keys) sort the other way round than their times ("…:10.5Z" < "…:10Z")
		mk("subsecond-claims", []string{"first", "second"},
			world.Item{Kind: "key", Signer: 1},
			world.Item{Kind: "permanode", Signer: 1, Data: "ssc"},
			world.Item{Kind: "claim", Claim: "set", PN: 2, Attr: "title", Val: 1, Date: 10, Signer: 1},
			world.Item{Kind: "claim", Claim: "set", PN: 2, Attr: "title", Val: 2, Date: 10, Nano: 500000000, Signer: 1},
			world.Item{Kind: "claim", Claim: "add", PN: 2, Attr: "tag", Val: 1, Date: 10, Nano: 250000000, Signer: 1}),
		// a permanode deleted, undeleted and deleted again: a chain of three delete claims (after a restart in the
		// middle the last one lands on a deletes cache that was loaded from rows)
		mk("redelete", []string{"t"},
			world.Item{Kind: "key", Signer: 1},
			world.Item{Kind: "permanode", Signer: 1, Data: "rd"},
			world.Item{Kind: "claim", Claim: "set", PN: 2, Attr: "title", Val: 1, Date: 10, Signer: 1},
			world.Item{Kind: "delete", Target: 2, Date: 20, Signer: 1},
			world.Item{Kind: "delete", Target: 4, Date: 30, Signer: 1},
			world.Item{Kind: "delete", Target: 5, Date: 40, Signer: 1}),
	}
}

func doubleDelete(nonce string) []world.Item {
	return []world.Item{
		{Kind: "key", Signer: 1},
		{Kind: "permanode", Signer: 1, Data: nonce},
		{Kind: "claim", Claim: "set", PN: 2, Attr: "title", Val: 1, Date: 10, Signer: 1},
		{Kind: "delete", Target: 2, Date: 20, Signer: 1},
		{Kind: "delete", Target: 2, Date: 30, Signer: 1},
		{Kind: "delete", Target: 5, Date: 40, Signer: 1},
	}
}

// fdeps / idep: the dependency model handed to TLC (read from the code: verifySignature needs the signer's key
// blob; populateFile reads the whole file; populateDir reads the static set; populateDeleteClaim needs the
// target's meta row).
func fdeps(w *world.World, it *world.Item) []int {
	keyOf := func(signer int) int {
		for _, k := range w.Items {
			if k.Kind == "key" && k.Signer == signer {
				return k.ID
			}
		}
		return 0
	}
	var d []int
	switch it.Kind {
	case "permanode", "claim", "delete", "share":
		if k := keyOf(it.Signer); k != 0 {
			d = append(d, k)
		}
	case "file":
		var walk func(ps []world.Part)
		walk = func(ps []world.Part) {
			for _, p := range ps {
				d = append(d, p.Ref)
				if p.Kind == "bytes" {
					for _, x := range w.Items {
						if x.ID == p.Ref {
							walk(x.Parts)
						}
					}
				}
			}
		}
		walk(it.Parts)
	case "dir":
		d = append(d, it.Children...)
	}
	sort.Ints(d)
	return d
}

func idep(it *world.Item) int {
	if it.Kind == "delete" {
		return it.Target
	}
	return 0
}

type replay struct {
	Shape   int   `json:"shape"`
	Order   []int `json:"order"`   // item ids in delivery order (may repeat an id = duplicate delivery)
	Restart int   `json:"restart"` // restart before delivering Order[Restart]; -1 = never
}

var (
	out05, out06 *bufio.Writer
	do05, do06   bool
	conc         int
	emitMu       sync.Mutex
)

func emit(w *bufio.Writer, ev gate.Event) {
	b, err := json.Marshal(ev)
	if err != nil {
		fatal(err)
	}
	emitMu.Lock()
	w.Write(b)
	w.WriteByte('\n')
	emitMu.Unlock()
}

func main() {
	repF := flag.String("replays", "", "replays (JSON lines) from IndexOOOGen")
	o5 := flag.String("out05", "c05.ndjson", "C05 trace")
	o6 := flag.String("out06", "c06.ndjson", "C06 trace")
	secring := flag.String("secring", "", "test secret key ring")
	kvKind := flag.String("kv", "memory", "memory | leveldb | kv | sqlite")
	listShapes := flag.Bool("shapes", false, "print the shapes (sizes) as JSON and exit")
	listNames := flag.Bool("shapenames", false, "print the shapes' names as JSON and exit")
	flag.BoolVar(&do05, "do05", true, "record the C05 trace (state after every step)")
	flag.BoolVar(&do06, "do06", true, "record the C06 trace (live vs reloaded after every step)")
	scratch := flag.String("scratch", "", "scratch dir")
	flag.IntVar(&conc, "conc", 0, "C14: deliver every replay's order from this many goroutines at once while another goroutine queries index and corpus; one state line and one live-vs-reloaded line at quiescence")
	flag.Parse()
	log.SetOutput(io.Discard)
	shs := shapes()
	if *listNames {
		var nm []string
		for _, s := range shs {
			nm = append(nm, s.Name)
		}
		b, _ := json.Marshal(nm)
		fmt.Println(string(b))
		return
	}
	if *listShapes {
		var sz []int
		for _, s := range shs {
			sz = append(sz, len(s.W.Items))
		}
		b, _ := json.Marshal(sz)
		fmt.Println(string(b))
		return
	}
	if *scratch == "" {
		d, err := os.MkdirTemp("", "verif-c05-")
		if err != nil {
			fatal(err)
		}
		defer os.RemoveAll(d)
		*scratch = d
	}
	sg, err := world.LoadSigners(*secring)
	batterySigners = sg
	if err != nil {
		fatal(err)
	}
	for _, s := range shs {
		b, err := world.Build(s.W, sg)
		if err != nil {
			fatal(err)
		}
		s.B = b
		e, err := newEnv("memory", *scratch, true)
		if err != nil {
			fatal(err)
		}
		if err := e.DeliverAll(b); err != nil {
			fatal(err)
		}
		s.Canon = idx.Rows(e.KV)
	}
	f5, err := os.Create(*o5)
	if err != nil {
		fatal(err)
	}
	f6, err := os.Create(*o6)
	if err != nil {
		fatal(err)
	}
	out05 = bufio.NewWriterSize(f5, 1<<20)
	out06 = bufio.NewWriterSize(f6, 1<<20)
	rf, err := os.Open(*repF)
	if err != nil {
		fatal(err)
	}
	sc := bufio.NewScanner(rf)
	sc.Buffer(make([]byte, 1<<20), 1<<24)
	n := 0
	for sc.Scan() {
		var r replay
		if err := json.Unmarshal(sc.Bytes(), &r); err != nil {
			fatal(err)
		}
		if r.Shape < 1 || r.Shape > len(shs) {
			fatal(fmt.Errorf("bad shape %d", r.Shape))
		}
		if err := run(shs[r.Shape-1], &r, n, *kvKind, *scratch); err != nil {
			fatal(fmt.Errorf("replay %d %s: %v", n, sc.Text(), err))
		}
		n++
	}
	out05.Flush()
	out06.Flush()
	f5.Close()
	f6.Close()
	fmt.Printf("replays=%d\n", n)
}

var kvSeq int

func newKV(kind, scratch string) (sorted.KeyValue, error) {
	if kind == "memory" {
		return sorted.NewMemoryKeyValue(), nil
	}
	kvSeq++
	dir := fmt.Sprintf("%s/kv%d", scratch, kvSeq)
	if err := os.MkdirAll(dir, 0700); err != nil {
		return nil, err
	}
	return sorted.NewKeyValue(map[string]any{"type": kind, "file": dir + "/index." + kind})
}

func newEnv(kind, scratch string, corpus bool) (*idx.Env, error) {
	kv, err := newKV(kind, scratch)
	if err != nil {
		return nil, err
	}
	g := gate.NewStorage("src", nil, nil, nil)
	g.Quiet = true
	return idx.New(kv, g, corpus)
}

func run(s *shape, r *replay, n int, kvKind, scratch string) error {
	b := s.B
	e, err := newEnv(kvKind, scratch, true)
	if err != nil {
		return err
	}
	// ---- headers
	var deps []any
	for i := range s.W.Items {
		it := &s.W.Items[i]
		deps = append(deps, map[string]any{"id": it.ID, "f": ints(fdeps(s.W, it)), "i": idep(it), "kind": it.Kind})
	}
	emit(out05, gate.Event{"ev": "reset", "replay": n, "shape": s.Name, "n": len(s.W.Items), "deps": deps,
		"order": ints(r.Order), "restart": r.Restart, "kv": kvKind})
	emit(out06, gate.Event{"ev": "reset", "replay": n, "shape": s.Name, "order": ints(r.Order), "restart": r.Restart, "kv": kvKind})
	delivered := map[int]bool{}
	if conc > 0 {
		return runConc(s, r, e, delivered)
	}
	for i, id := range r.Order {
		if r.Restart > 0 && i == r.Restart {
			e.Await()
			ne, err := e.Reopen(true)
			if err != nil {
				return fmt.Errorf("restart: %v", err)
			}
			e = ne
			emit(out05, gate.Event{"ev": "restart"})
		}
		if err := e.Deliver(b, id); err != nil {
			emit(out05, gate.Event{"ev": "deliver", "b": id, "res": "err", "detail": err.Error()})
		} else {
			emit(out05, gate.Event{"ev": "deliver", "b": id, "res": "ok"})
		}
		delivered[id] = true
		e.Await()
		if do05 && i < len(r.Order)-1 {
			if err := project(s, e, delivered, false); err != nil {
				return err
			}
		}
		if !do06 {
			continue
		}
		// C06: live vs fresh over the same rows, after every step
		fresh, err := idx.New(e.KV, e.Src, true)
		if err != nil {
			return fmt.Errorf("reopen for comparison: %v", err)
		}
		live, reload := battery(e, b), battery(fresh, b)
		var diff []any
		for _, k := range keysOf(live, reload) {
			if live[k] != reload[k] {
				diff = append(diff, []any{k, live[k], reload[k]})
			}
		}
		if diff == nil {
			diff = []any{}
		}
		cls := []any{}
		seen := map[string]bool{}
		for _, d := range diff {
			c := strings.SplitN(d.([]any)[0].(string), "(", 2)[0]
			if !seen[c] {
				seen[c] = true
				cls = append(cls, c)
			}
		}
		emit(out06, gate.Event{"ev": "step", "i": i, "b": id, "kind": b.Item(id).Kind, "equal": len(diff) == 0,
			"ndiff": len(diff), "classes": cls, "diff": firstN(diff, 6), "queries": len(live)})
	}
	e.Await()
	if !do05 {
		return nil
	}
	return project(s, e, delivered, true)
}

// runConc: the arrival order is dealt round-robin to conc goroutines that deliver at the same time (each keeps its
// own sub-order) while a reader goroutine runs the query battery in a loop; at quiescence the index must be in the
// state the C05 predicate demands for the delivered set, and live == reloaded (C06).
func runConc(s *shape, r *replay, e *idx.Env, delivered map[int]bool) error {
	b := s.B
	var wg sync.WaitGroup
	for g := 0; g < conc; g++ {
		wg.Add(1)
		go func(g int) {
			defer wg.Done()
			for i := g; i < len(r.Order); i += conc {
				id := r.Order[i]
				if err := e.Deliver(b, id); err != nil {
					emit(out05, gate.Event{"ev": "deliver", "b": id, "res": "err", "detail": err.Error()})
				} else {
					emit(out05, gate.Event{"ev": "deliver", "b": id, "res": "ok"})
				}
			}
		}(g)
	}
	stop := make(chan struct{})
	var rg sync.WaitGroup
	rg.Add(1)
	go func() {
		defer rg.Done()
		for {
			select {
			case <-stop:
				return
			default:
			}
			batteryL(e, b, true)
		}
	}()
	wg.Wait()
	close(stop)
	rg.Wait()
	e.Await()
	for _, id := range r.Order {
		delivered[id] = true
	}
	if do06 {
		fresh, err := idx.New(e.KV, e.Src, true)
		if err != nil {
			return fmt.Errorf("reopen for comparison: %v", err)
		}
		live, reload := battery(e, b), battery(fresh, b)
		var diff []any
		for _, k := range keysOf(live, reload) {
			if live[k] != reload[k] {
				diff = append(diff, []any{k, live[k], reload[k]})
			}
		}
		if diff == nil {
			diff = []any{}
		}
		cls := []any{}
		seen := map[string]bool{}
		for _, d := range diff {
			c := strings.SplitN(d.([]any)[0].(string), "(", 2)[0]
			if !seen[c] {
				seen[c] = true
				cls = append(cls, c)
			}
		}
		last := r.Order[len(r.Order)-1]
		emit(out06, gate.Event{"ev": "step", "i": len(r.Order) - 1, "b": last, "kind": "concurrent", "equal": len(diff) == 0,
			"ndiff": len(diff), "classes": cls, "diff": firstN(diff, 6), "queries": len(live)})
	}
	if !do05 {
		return nil
	}
	return project(s, e, delivered, true)
}

// project emits the out-of-order state of the index for Trace_IndexOOO.
func project(s *shape, e *idx.Env, delivered map[int]bool, final bool) error {
	b := s.B
	rows := idx.Rows(e.KV)
	have := map[int]string{}
	var missing [][]int
	for _, kv := range rows {
		k, v := kv[0], kv[1]
		switch {
		case strings.HasPrefix(k, "have:"):
			if br, ok := blob.Parse(k[5:]); ok {
				st := "partial"
				if strings.HasSuffix(v, "|indexed") {
					st = "indexed"
				}
				have[b.ByRef[br]] = st
			}
		case strings.HasPrefix(k, "missing|"):
			f := strings.Split(k, "|")
			if len(f) == 3 {
				h, _ := blob.Parse(f[1])
				m, _ := blob.Parse(f[2])
				missing = append(missing, []int{b.ByRef[h], b.ByRef[m]})
			}
		}
	}
	needs, _, ready := e.Ix.VerifOutOfOrderState()
	var need [][]int
	for k, vs := range needs {
		kb, _ := blob.Parse(k)
		for _, v := range vs {
			vb, _ := blob.Parse(v)
			need = append(need, []int{b.ByRef[kb], b.ByRef[vb]})
		}
	}
	var hv []any
	for i := range s.W.Items {
		st := have[s.W.Items[i].ID]
		if st == "" {
			st = "none"
		}
		hv = append(hv, st)
	}
	var dl []int
	for id := range delivered {
		dl = append(dl, id)
	}
	sort.Ints(dl)
	eqCanon := true
	eqRe := "ok"
	if final {
		// differential projections: same rows as the canonical order (when everything was delivered) and as a
		// full reindex from the blob source
		if len(dl) == len(s.W.Items) {
			eqCanon = sameRows(rows, s.Canon)
		}
		re, err := idx.New(gate.CloneKV(e.KV), e.Src, false)
		if err != nil {
			return err
		}
		if err := re.Ix.Reindex(); err != nil {
			eqRe = "err"
		} else {
			re.Await()
			if !sameRows(idx.Rows(re.KV), rows) {
				eqRe = "differ"
			}
		}
	}
	emit(out05, gate.Event{"ev": "state", "final": final, "delivered": ints(dl), "have": hv, "missing": pairs(missing), "need": pairs(need),
		"ready": len(ready), "rows_eq_canon": eqCanon, "reindex": eqRe, "nrows": len(rows)})
	return nil
}

func stripVolatile(rows [][2]string) [][2]string {
	return rows
}

func sameRows(a, b [][2]string) bool {
	if len(a) != len(b) {
		return false
	}
	for i := range a {
		if a[i] != b[i] {
			return false
		}
	}
	return true
}

func ints(x []int) []any {
	o := make([]any, len(x))
	for i, v := range x {
		o[i] = v
	}
	return o
}

func pairs(x [][]int) []any {
	sort.Slice(x, func(i, j int) bool {
		if x[i][0] != x[j][0] {
			return x[i][0] < x[j][0]
		}
		return x[i][1] < x[j][1]
	})
	o := make([]any, len(x))
	for i, v := range x {
		o[i] = []any{v[0], v[1]}
	}
	return o
}

func firstN(x []any, n int) []any {
	if len(x) > n {
		return x[:n]
	}
	return x
}

func keysOf(a, b map[string]string) []string {
	m := map[string]bool{}
	for k := range a {
		m[k] = true
	}
	for k := range b {
		m[k] = true
	}
	var ks []string
	for k := range m {
		ks = append(ks, k)
	}
	sort.Strings(ks)
	return ks
}

// battery asks a fixed set of exported queries of index and corpus and renders the answers canonically,
// with refs replaced by item ids.
// batterySigners: the key ids for the signer-filtered attribute queries of the battery (set by main)
var batterySigners *world.Signers

func battery(e *idx.Env, b *world.Built) map[string]string { return batteryL(e, b, false) }

// batteryL: with outer = true the whole battery runs under one index read lock, as a search request does
// (search.Handler takes index.RLock around a query); otherwise only the direct corpus calls are locked.
func batteryL(e *idx.Env, b *world.Built, outer bool) map[string]string {
	rl, ru := e.Ix.RLock, e.Ix.RUnlock
	if outer {
		e.Ix.RLock()
		defer e.Ix.RUnlock()
		rl, ru = func() {}, func() {}
	}
	ctx := context.Background()
	out := map[string]string{}
	name := func(br blob.Ref) string {
		if id, ok := b.ByRef[br]; ok {
			return fmt.Sprintf("#%d", id)
		}
		if !br.Valid() {
			return "-"
		}
		return br.String()
	}
	claimsStr := func(cls []camtypes.Claim) string {
		var ss []string
		for _, c := range cls {
			ss = append(ss, fmt.Sprintf("%s/%s/%s/%s=%s@%d", name(c.BlobRef), name(c.Signer), c.Type, c.Attr, c.Value, c.Date.UnixNano()))
		}
		return strings.Join(ss, ";")
	}
	times := []time.Time{{}, world.Epoch.Add(11 * time.Second), world.Epoch.Add(17 * time.Second), world.Epoch.Add(25 * time.Second)}
	c := e.Corpus
	for i := range b.W.Items {
		it := &b.W.Items[i]
		br := b.Refs[it.ID]
		tag := fmt.Sprintf("#%d", it.ID)
		if m, err := e.Ix.GetBlobMeta(ctx, br); err == nil {
			out["ix.GetBlobMeta("+tag+")"] = fmt.Sprintf("%d/%s", m.Size, m.CamliType)
		} else {
			out["ix.GetBlobMeta("+tag+")"] = "err"
		}
		out["ix.IsDeleted("+tag+")"] = fmt.Sprint(e.Ix.IsDeleted(br))
		if c != nil {
			rl() // the corpus is only safe under the index lock
			if m, err := c.GetBlobMeta(ctx, br); err == nil {
				out["c.GetBlobMeta("+tag+")"] = fmt.Sprintf("%d/%s", m.Size, m.CamliType)
			} else {
				out["c.GetBlobMeta("+tag+")"] = "err"
			}
			out["c.IsDeleted("+tag+")"] = fmt.Sprint(c.IsDeleted(br))
			ru()
		}
		switch it.Kind {
		case "permanode":
			cls, err := e.Ix.AppendClaims(ctx, nil, br, "", "")
			out["ix.AppendClaims("+tag+")"] = claimsStr(cls) + errS(err)
			if c != nil {
				rl()
				cls, err := c.AppendClaims(ctx, nil, br, "", "")
				out["c.AppendClaims("+tag+")"] = claimsStr(cls) + errS(err)
				for _, attr := range []string{"title", "tag", "camliMember"} {
					for ti, t := range times {
						out[fmt.Sprintf("c.PermanodeAttrValue(%s,%s,t%d)", tag, attr, ti)] = c.PermanodeAttrValue(br, attr, t, "")
						out[fmt.Sprintf("c.AppendPermanodeAttrValues(%s,%s,t%d)", tag, attr, ti)] = strings.Join(c.AppendPermanodeAttrValues(nil, br, attr, t, ""), ",")
						// the same through the per-signer caches (t0 = now: served from the cache; other times: from the claims)
						if batterySigners != nil && (ti == 0 || ti == 3) {
							for sgn := 1; sgn <= 2; sgn++ {
								out[fmt.Sprintf("c.AppendPermanodeAttrValues(%s,%s,t%d,s%d)", tag, attr, ti, sgn)] =
									strings.Join(c.AppendPermanodeAttrValues(nil, br, attr, t, batterySigners.KeyID[sgn]), ",")
							}
						}
					}
				}
				if t, ok := c.PermanodeModtime(br); ok {
					out["c.PermanodeModtime("+tag+")"] = fmt.Sprint(t.UnixNano())
				} else {
					out["c.PermanodeModtime("+tag+")"] = "none"
				}
				if t, ok := c.PermanodeAnyTime(br); ok {
					out["c.PermanodeAnyTime("+tag+")"] = fmt.Sprint(t.UnixNano())
				} else {
					out["c.PermanodeAnyTime("+tag+")"] = "none"
				}
				ru()
			}
		case "file", "dir":
			if fi, err := e.Ix.GetFileInfo(ctx, br); err == nil {
				out["ix.GetFileInfo("+tag+")"] = fmt.Sprintf("%s/%d/%s/%s", fi.FileName, fi.Size, fi.MIMEType, name(fi.WholeRef))
			} else {
				out["ix.GetFileInfo("+tag+")"] = "err"
			}
			if c != nil {
				rl()
				if fi, err := c.GetFileInfo(ctx, br); err == nil {
					out["c.GetFileInfo("+tag+")"] = fmt.Sprintf("%s/%d/%s/%s", fi.FileName, fi.Size, fi.MIMEType, name(fi.WholeRef))
				} else {
					out["c.GetFileInfo("+tag+")"] = "err"
				}
				ch, err := c.GetDirChildren(ctx, br)
				out["c.GetDirChildren("+tag+")"] = setStr(ch, name) + errS(err)
				pd, err := c.GetParentDirs(ctx, br)
				out["c.GetParentDirs("+tag+")"] = setStr(pd, name) + errS(err)
				ru()
			}
		case "key":
			id, err := e.Ix.KeyId(ctx, br)
			out["ix.KeyId("+tag+")"] = id + errS(err)
			if c != nil {
				rl()
				id, err := c.KeyId(ctx, br)
				out["c.KeyId("+tag+")"] = id + errS(err)
				ru()
			}
		}
	}
	if c != nil {
		var ss []string
		rl()
		c.EnumeratePermanodesCreated(func(m camtypes.BlobMeta) bool { ss = append(ss, name(m.Ref)); return true }, true)
		out["c.EnumeratePermanodesCreated"] = strings.Join(ss, ",")
		ss = nil
		c.EnumeratePermanodesLastModified(func(m camtypes.BlobMeta) bool { ss = append(ss, name(m.Ref)); return true })
		out["c.EnumeratePermanodesLastModified"] = strings.Join(ss, ",")
		var all []string
		c.EnumerateBlobMeta(func(m camtypes.BlobMeta) bool { all = append(all, name(m.Ref)+":"+string(m.CamliType)); return true })
		ru()
		sort.Strings(all)
		out["c.EnumerateBlobMeta"] = strings.Join(all, ",")
	}
	return out
}

func errS(err error) string {
	if err != nil {
		return "!err"
	}
	return ""
}

func setStr(m map[blob.Ref]struct{}, name func(blob.Ref) string) string {
	var ss []string
	for k := range m {
		ss = append(ss, name(k))
	}
	sort.Strings(ss)
	return strings.Join(ss, ",")
}

var _ = index.NewMemoryIndex
