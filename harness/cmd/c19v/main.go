//go:build verif

// c19v drives the "source minus destination" machinery of the REAL sync handler
// (pkg/server/sync.go: startFullValidation / runFullValidation /
// validateShardPrefix / startValidatePrefix / shardPrefixes, and
// fullSyncOnStart = runSync("full")) and blobserver.ListMissingDestinationBlobs
// over harness stores: gate memory stores behind a recording wrapper that
// injects enumeration faults per shard, runs racing writers (uploads through
// blobserver.Receive, removals, foreign writes) at chosen enumeration points
// and can hold the copier's destination writes back until the validation has
// been observed.  Scenarios come from SyncValidateGen.tla (or a seeded random
// generator).  The driver never decides what is right: it records the
// lower-layer calls, the status page's counters, the queue rows and the
// destination contents; Trace_SyncValidate.tla validates them.
package main

import (
	"bufio"
	"bytes"
	"context"
	"crypto/sha1"
	"crypto/sha256"
	"encoding/json"
	"flag"
	"fmt"
	"hash"
	"io"
	"log"
	"math/rand"
	"net/http"
	"net/http/httptest"
	"net/url"
	"os"
	"regexp"
	"sort"
	"strconv"
	"strings"
	"sync"
	"sync/atomic"
	"time"

	"go4.org/jsonconfig"
	"perkeep.org/pkg/blob"
	"perkeep.org/pkg/blobserver"
	"perkeep.org/pkg/server"
	"perkeep.org/pkg/sorted"

	"verif/gate"
	"verif/univ"
)

// ---------------------------------------------------------------- scenarios

type Fault struct {
	Side string `json:"side"` // "s" | "d"
	P    int    `json:"p"`    // shard index (1-based, in the list of the universe's shards)
	Cut  int    `json:"cut"`  // the first EnumerateBlobs call of that enumerator fails after handing over cut blobs of the shard
}

type Race struct {
	Side string `json:"side"`
	P    int    `json:"p"`
	When string `json:"when"` // "before" | "after" the snapshot of the first EnumerateBlobs call of (side, p)
	Act  string `json:"act"`  // "up" (blobserver.Receive on the source) | "rms" | "rmd" | "put" (foreign write to the destination) | "post"
	B    int    `json:"b"`    // core blob number
	Z    int    `json:"z"`    // put: 1 right bytes, 2 wrong size
}

type Round struct {
	Faults  []Fault `json:"faults"`
	SetFail []int   `json:"setfail"` // queue.Set of these core blobs fails once
	Races   []Race  `json:"races"`
}

type FSPlan struct {
	EnumCut   int   `json:"enumcut"`   // -1: none; else the first source EnumerateBlobs fails after handing over that many blobs
	FetchFail []int `json:"fetchfail"` // the first source Fetch of these core blobs fails
	RecvFail  []int `json:"recvfail"`  // the first destination write of these core blobs fails
	Big       int   `json:"big"`       // that many extra source blobs
	Stall     bool  `json:"stall"`     // destination writes wait until the source enumeration has stopped moving
	NoBlock   bool  `json:"noblock"`   // fullSyncOnStart instead of blockingFullSyncOnStart
	Up        int   `json:"up"`        // noblock: core blob uploaded through blobserver.Receive once the full sync is over (0 = none)
}

type Scn struct {
	Fam       string   `json:"fam"`  // "val" | "fs"
	Mode      string   `json:"mode"` // val: "post" (NewSyncHandler + POST mode=validate) | "cfg" (CreateHandler, validateOnStart)
	Held      bool     `json:"held"` // the copier's destination writes wait until the validation has been observed
	Src       []int    `json:"src"`  // core blob numbers at the source
	Dst       [][2]int `json:"dst"`  // [core blob, z]: z = 1 right bytes, 2 wrong size
	Rows      []int    `json:"rows"` // queue rows
	Bulk      int      `json:"bulk"` // that many extra blobs in the shard of core blobs 5 and 6
	BulkWhere string   `json:"bulkwhere"`
	Rounds    []Round  `json:"rounds"`
	FS        *FSPlan  `json:"fs,omitempty"`
	Smap      []int    `json:"smap,omitempty"` // the generator's idea of the core layout (checked)
	ID        int      `json:"id"`
	Seed      int64    `json:"seed"`
}

// ---------------------------------------------------------------- universe

// core layout: blob number -> shard prefix; shards 3 and 6 of the list hold no blob
var corePfx = []string{"", "sha1-00", "sha1-7c", "sha1-7c", "sha224-3a", "sha224-3b", "sha224-3b", "sha256-ff"}
var emptyPfx = []string{"sha1-c0", "sha224-f0"}
var coreSmap = []int{1, 2, 2, 4, 5, 5, 7}

const bulkPfx = "sha224-3b"

func hashOf(name string) hash.Hash {
	switch name {
	case "sha1":
		return sha1.New()
	case "sha256":
		return sha256.New()
	}
	return sha256.New224()
}

// mine finds contents whose ref text starts with pfx ("sha224-3b").
func mine(pfx, tag string, seed int64, n int) [][]byte {
	hn := pfx[:strings.Index(pfx, "-")]
	var out [][]byte
	for c := 0; len(out) < n; c++ {
		d := []byte(fmt.Sprintf("c19v-%d-%s-%d", seed, tag, c))
		h := hashOf(hn)
		h.Write(d)
		if strings.HasPrefix(blob.RefFromHash(h).String(), pfx) {
			out = append(out, d)
		}
		if c > 50_000_000 {
			fatal(fmt.Errorf("cannot mine %s", pfx))
		}
	}
	return out
}

type uni struct {
	n     int
	refs  []blob.Ref // 1-based id, in byte order of the ref text
	data  [][]byte
	byRef map[blob.Ref]int
	shard []int // 1-based id -> shard index (0 for the blobs of a big full-sync universe)
	pfx   []string
	pidx  map[string]int
	core  [8]int // core blob number -> id
	bulk  []int  // ids of the bulk blobs
	extra []int  // ids of the extra blobs of a big full-sync universe
}

var (
	coreData  [8][]byte
	bulkData  [][]byte
	extraData [][]byte
	uniMu     sync.Mutex
	uniCache  = map[[2]int]*uni{}
)

func initData(seed int64, maxBulk, maxExtra int) {
	cnt := map[string]int{}
	for c := 1; c <= 7; c++ {
		cnt[corePfx[c]]++
	}
	mined := map[string][][]byte{}
	for p, n := range cnt {
		mined[p] = mine(p, "core", seed, n)
	}
	for c := 1; c <= 7; c++ {
		coreData[c] = mined[corePfx[c]][0]
		mined[corePfx[c]] = mined[corePfx[c]][1:]
	}
	if maxBulk > 0 {
		bulkData = mine(bulkPfx, "bulk", seed, maxBulk)
	}
	for i := 0; i < maxExtra; i++ {
		extraData = append(extraData, []byte(fmt.Sprintf("c19v-%d-extra-%d", seed, i)))
	}
}

func universe(bulk, extra int) *uni {
	uniMu.Lock()
	defer uniMu.Unlock()
	if u, ok := uniCache[[2]int{bulk, extra}]; ok {
		return u
	}
	var specs []univ.Spec
	kind := func(p string) string { return p[:strings.Index(p, "-")] }
	for c := 1; c <= 7; c++ {
		specs = append(specs, univ.Spec{Hash: kind(corePfx[c]), Data: coreData[c], Kind: fmt.Sprintf("core%d", c)})
	}
	for i := 0; i < bulk; i++ {
		specs = append(specs, univ.Spec{Hash: "sha224", Data: bulkData[i], Kind: "bulk"})
	}
	for i := 0; i < extra; i++ {
		specs = append(specs, univ.Spec{Hash: "sha224", Data: extraData[i], Kind: "extra"})
	}
	U := univ.New(specs)
	u := &uni{n: U.N(), byRef: map[blob.Ref]int{}, pidx: map[string]int{}}
	u.refs = make([]blob.Ref, u.n+1)
	u.data = make([][]byte, u.n+1)
	u.shard = make([]int, u.n+1)
	set := map[string]bool{}
	for _, p := range corePfx[1:] {
		set[p] = true
	}
	for _, p := range emptyPfx {
		set[p] = true
	}
	u.pfx = []string{""}
	for p := range set {
		u.pfx = append(u.pfx, p)
	}
	sort.Strings(u.pfx)
	for i, p := range u.pfx {
		if i > 0 {
			u.pidx[p] = i
		}
	}
	for i, b := range U.Blobs {
		id := i + 1
		u.refs[id], u.data[id], u.byRef[b.Ref] = b.Ref, b.Data, id
		s := b.Ref.String()
		if p, ok := u.pidx[s[:strings.Index(s, "-")+3]]; ok && b.Kind != "extra" {
			u.shard[id] = p
		} else if b.Kind != "extra" {
			fatal(fmt.Errorf("universe: blob %s in no listed shard", s))
		}
		switch {
		case strings.HasPrefix(b.Kind, "core"):
			c, _ := strconv.Atoi(b.Kind[4:])
			u.core[c] = id
		case b.Kind == "bulk":
			u.bulk = append(u.bulk, id)
		default:
			u.extra = append(u.extra, id)
		}
	}
	if extra == 0 {
		for c := 1; c <= 7; c++ {
			if u.shard[u.core[c]] != coreSmap[c-1] {
				fatal(fmt.Errorf("universe: core blob %d lies in shard %d, not %d", c, u.shard[u.core[c]], coreSmap[c-1]))
			}
		}
	}
	uniCache[[2]int{bulk, extra}] = u
	return u
}

// ---------------------------------------------------------------- one run

type run struct {
	scn *Scn
	u   *uni
	mu  sync.Mutex // serialises [effect + log line] of every lower-layer call of the run
	evs []gate.Event
	fl  atomic.Int64 // lower-layer calls in progress

	srcMem, dstMem *gate.MemStore
	qBack          sorted.KeyValue
	src, dst       *vsto
	q              *vq
	sh             *server.SyncHandler
	h              http.Handler

	round     int
	faults    map[string]*Fault // side+p -> fault of the round, not yet fired
	races     map[string][]Race // side+p+when
	setFail   map[int]bool
	fetchFail map[int]bool
	recvFail  map[int]bool
	enumCut   int
	quiet     [2]map[string]bool // prefixes of shards without universe blobs enumerated, per side
	firstCall map[string]bool
	release   chan struct{}
	released  bool
	stuck     bool
	upMu      sync.Mutex
	stall     chan struct{}
	sentAll   atomic.Int64 // blobs handed over by the full sync's source enumeration
}

func (r *run) emit(ev gate.Event) {
	if _, ok := ev["b"]; !ok {
		ev["b"] = 0
	}
	r.evs = append(r.evs, ev)
}

func (r *run) mark(ev gate.Event) {
	dl := time.Now().Add(30 * time.Second)
	if ev["ev"] == "hang" || ev["ev"] == "fshang" {
		r.stuck = true // lower-layer calls of the hanging machinery stay in flight for ever
	}
	for r.fl.Load() != 0 && !r.stuck {
		if time.Now().After(dl) {
			fatal(fmt.Errorf("run %d: lower-layer calls still in flight after 30 s (mark %v)", r.scn.ID, ev["ev"]))
		}
		time.Sleep(20 * time.Microsecond)
	}
	r.mu.Lock()
	r.emit(ev)
	r.mu.Unlock()
}

// vsto is a store of the run as the handler sees it: a gate store behind the run's recording wrapper.
type vsto struct {
	*gate.Storage
	side string
	r    *run
	view []blob.SizedRef // the store's blobs in byte order of the ref text; nil = to be rebuilt (under r.mu)
	keys []string
}

// snapshot: what the gate store's EnumerateBlobs(after, limit) hands over, from a sorted view of the gate's MemStore
// that is rebuilt after every mutation (the gate store sorts its refs on every call; a validation makes 1536 calls).
// Called under r.mu.
func (s *vsto) snapshot(after string, limit int) []blob.SizedRef {
	if s.view == nil {
		ch := make(chan blob.SizedRef, 64)
		go func() {
			if err := s.Storage.EnumerateBlobs(context.Background(), ch, "", 1<<30); err != nil {
				fatal(fmt.Errorf("gate enumerate: %v", err))
			}
		}()
		s.view, s.keys = []blob.SizedRef{}, []string{}
		for sb := range ch {
			s.view = append(s.view, sb)
			s.keys = append(s.keys, sb.Ref.String())
		}
	}
	i := sort.SearchStrings(s.keys, after)
	for i < len(s.keys) && s.keys[i] <= after {
		i++
	}
	j := i + limit
	if j > len(s.view) || j < i {
		j = len(s.view)
	}
	return s.view[i:j]
}

func (s *vsto) id(br blob.Ref) int { return s.r.u.byRef[br] }

func (s *vsto) Fetch(ctx context.Context, br blob.Ref) (io.ReadCloser, uint32, error) {
	r := s.r
	r.fl.Add(1)
	defer r.fl.Add(-1)
	r.mu.Lock()
	defer r.mu.Unlock()
	b := s.id(br)
	if s.side == "s" && r.fetchFail[b] {
		delete(r.fetchFail, b)
		r.emit(gate.Event{"ev": "fetch", "b": b, "res": "fail"})
		return nil, 0, gate.ErrInjected
	}
	rc, size, err := s.Storage.Fetch(ctx, br)
	if s.side == "s" {
		res := "ok"
		if err != nil {
			res = "fail"
		}
		r.emit(gate.Event{"ev": "fetch", "b": b, "res": res})
	}
	return rc, size, err
}

func (s *vsto) ReceiveBlob(ctx context.Context, br blob.Ref, src io.Reader) (blob.SizedRef, error) {
	r := s.r
	b := s.id(br)
	if s.side == "d" {
		// the copier's write (a write that is held back has not begun)
		if c := r.stall; c != nil {
			<-c
		}
		if c := r.release; c != nil {
			<-c
		}
		r.fl.Add(1)
		defer r.fl.Add(-1)
		r.mu.Lock()
		defer r.mu.Unlock()
		if r.recvFail[b] {
			delete(r.recvFail, b)
			io.Copy(io.Discard, src)
			r.emit(gate.Event{"ev": "recv", "b": b, "res": "fail"})
			return blob.SizedRef{}, gate.ErrInjected
		}
		sb, err := s.Storage.ReceiveBlob(ctx, br, src)
		s.view = nil
		res := "ok"
		if err != nil {
			res = "fail"
		}
		r.emit(gate.Event{"ev": "recv", "b": b, "res": res})
		return sb, err
	}
	r.fl.Add(1)
	defer r.fl.Add(-1)
	r.mu.Lock()
	defer r.mu.Unlock()
	sb, err := s.Storage.ReceiveBlob(ctx, br, src)
	s.view = nil
	if err == nil {
		r.emit(gate.Event{"ev": "up", "b": b})
	}
	return sb, err
}

// shardOf: the shard an EnumerateBlobs cursor belongs to: (index, cursor blob id, listed).  A cursor is a shard
// prefix ("sha224-3b") or, in a follow-up call, the last blobref handed over.
func (r *run) shardOf(after string) (p, cur int, listed bool) {
	if p, ok := r.u.pidx[after]; ok {
		return p, 0, true
	}
	if br, ok := blob.Parse(after); ok {
		if id := r.u.byRef[br]; id > 0 {
			return r.u.shard[id], id, true
		}
	}
	return 0, 0, false
}

func (s *vsto) EnumerateBlobs(ctx context.Context, dest chan<- blob.SizedRef, after string, limit int) error {
	defer close(dest)
	r := s.r
	r.fl.Add(1)
	defer r.fl.Add(-1)
	if r.scn.Fam == "fs" {
		return s.enumAll(ctx, dest, after, limit)
	}
	if ctx.Err() != nil {
		// an enumerator whose shard has already returned (validateShardPrefix cancels its context when it ends, e.g.
		// on the other side's error) may only now get to its call: a store is free to notice the cancellation first
		return ctx.Err()
	}
	p, cur, listed := r.shardOf(after)
	collect := func() []blob.SizedRef { return s.snapshot(after, limit) }
	side := 0
	if s.side == "d" {
		side = 1
	}
	if !listed {
		r.mu.Lock()
		got := collect()
		r.quiet[side][after] = true
		r.mu.Unlock()
		for _, sb := range got {
			select {
			case dest <- sb:
			case <-ctx.Done():
				return ctx.Err()
			}
		}
		return nil
	}
	key := fmt.Sprintf("%s%d", s.side, p)
	first := false
	r.mu.Lock()
	if cur == 0 && !r.firstCall[key] {
		r.firstCall[key], first = true, true
	}
	r.mu.Unlock()
	if first {
		r.fire(key + "before")
	}
	r.mu.Lock()
	got := collect()
	items := [][2]int{}
	beyond := false
	nIn := 0
	for _, sb := range got {
		id := r.u.byRef[sb.Ref]
		if r.u.shard[id] == p {
			z := 1
			if int(sb.Size) != len(r.u.data[id]) {
				z = 2
			}
			items = append(items, [2]int{id, z})
			nIn++
		} else {
			beyond = true
		}
	}
	var flt *Fault
	if first {
		if f := r.faults[key]; f != nil && f.Cut <= nIn {
			flt = f
			delete(r.faults, key)
		}
	}
	ev := gate.Event{"ev": "enum", "side": s.side, "p": p, "after": cur, "items": items, "beyond": beyond, "res": "ok", "cut": 0}
	if flt != nil {
		ev["res"], ev["cut"] = "err", flt.Cut
	}
	r.emit(ev)
	r.mu.Unlock()
	if first {
		r.fire(key + "after")
	}
	sent := 0
	for _, sb := range got {
		if flt != nil && sent >= flt.Cut {
			return gate.ErrInjected
		}
		select {
		case dest <- sb:
			sent++
		case <-ctx.Done():
			return ctx.Err()
		}
	}
	if flt != nil {
		return gate.ErrInjected
	}
	return nil
}

// enumAll: the source enumeration of the full sync (EnumerateAll: after = "" and then the last ref handed over).
func (s *vsto) enumAll(ctx context.Context, dest chan<- blob.SizedRef, after string, limit int) error {
	r := s.r
	cur := 0
	if br, ok := blob.Parse(after); ok {
		cur = r.u.byRef[br]
	}
	r.mu.Lock()
	got := s.snapshot(after, limit)
	items := []int{}
	for _, sb := range got {
		items = append(items, r.u.byRef[sb.Ref])
	}
	cut := -1
	if s.side == "s" && r.enumCut >= 0 && r.enumCut <= len(got) {
		cut, r.enumCut = r.enumCut, -1
	}
	ev := gate.Event{"ev": "enumall", "after": cur, "items": items, "res": "ok", "cut": 0}
	if cut >= 0 {
		ev["res"], ev["cut"] = "err", cut
	}
	if s.side == "s" {
		r.emit(ev)
	}
	r.mu.Unlock()
	for i, sb := range got {
		if cut >= 0 && i >= cut {
			return gate.ErrInjected
		}
		select {
		case dest <- sb:
			r.sentAll.Add(1)
		case <-ctx.Done():
			return ctx.Err()
		}
	}
	if cut >= 0 {
		return gate.ErrInjected
	}
	return nil
}

// fire runs the racing writers registered for an enumeration point, in the enumerating goroutine.
func (r *run) fire(key string) {
	r.mu.Lock()
	rs := r.races[key]
	delete(r.races, key)
	r.mu.Unlock()
	for _, rc := range rs {
		r.act(rc)
	}
}

func (r *run) act(rc Race) {
	id := r.u.core[rc.B]
	br := r.u.refs[id]
	switch rc.Act {
	case "up":
		// an upload reaches the source through the server, which is up only once the handlers have been created (the
		// receive hook is registered at the end of the constructor); uploads are sent one at a time (the
		// specification, like Sync.tla, has one upload of a blob in flight)
		r.handler()
		r.upMu.Lock()
		defer r.upMu.Unlock()
		_, err := blobserver.Receive(context.Background(), r.src, br, bytes.NewReader(r.u.data[id]))
		res := "ok"
		if err != nil {
			res = "err"
		}
		r.mu.Lock()
		r.emit(gate.Event{"ev": "ack", "b": id, "res": res})
		r.mu.Unlock()
	case "rms":
		r.mu.Lock()
		if r.srcMem.Has(br) {
			r.srcMem.Del(br)
			r.src.view = nil
			r.emit(gate.Event{"ev": "rm", "side": "s", "b": id})
		}
		r.mu.Unlock()
	case "rmd":
		r.mu.Lock()
		if r.dstMem.Has(br) {
			r.dstMem.Del(br)
			r.dst.view = nil
			r.emit(gate.Event{"ev": "rm", "side": "d", "b": id})
		}
		r.mu.Unlock()
	case "put":
		r.mu.Lock()
		d := r.u.data[id]
		if rc.Z == 2 {
			d = append(append([]byte(nil), d...), 'x')
		}
		if cur, ok := r.dstMem.Get(br); !ok || !bytes.Equal(cur, d) {
			r.dstMem.Put(br, d)
			r.dst.view = nil
			r.emit(gate.Event{"ev": "put", "b": id, "z": rc.Z})
		}
		r.mu.Unlock()
	case "post":
		code := r.post()
		r.mu.Lock()
		r.emit(gate.Event{"ev": "post", "res": code})
		r.mu.Unlock()
	}
}

// vq is the queue: a gate KV behind the run's recording wrapper.
type vq struct {
	*gate.KV
	r *run
}

func (q *vq) key(k string) int {
	if br, ok := blob.Parse(k); ok {
		return q.r.u.byRef[br]
	}
	return 0
}

func (q *vq) Set(k, v string) error {
	r := q.r
	r.fl.Add(1)
	defer r.fl.Add(-1)
	r.mu.Lock()
	defer r.mu.Unlock()
	b := q.key(k)
	if r.setFail[b] {
		delete(r.setFail, b)
		r.emit(gate.Event{"ev": "setfail", "b": b})
		return gate.ErrInjected
	}
	err := q.KV.Set(k, v)
	if err == nil {
		r.emit(gate.Event{"ev": "set", "b": b})
	}
	return err
}

func (q *vq) Delete(k string) error {
	r := q.r
	r.fl.Add(1)
	defer r.fl.Add(-1)
	r.mu.Lock()
	defer r.mu.Unlock()
	err := q.KV.Delete(k)
	if err == nil {
		r.emit(gate.Event{"ev": "del", "b": q.key(k)})
	}
	return err
}

type loader struct{ m map[string]blobserver.Storage }

func (l *loader) FindHandlerByType(string) (string, any, error) {
	return "", nil, blobserver.ErrHandlerTypeNotFound
}
func (l *loader) AllHandlers() (map[string]string, map[string]any) { return nil, nil }
func (l *loader) MyPrefix() string                                 { return "/sync/" }
func (l *loader) BaseURL() string                                  { return "http://localhost:1" }
func (l *loader) GetHandlerType(string) string                     { return "" }
func (l *loader) GetHandler(p string) (any, error)                 { return l.m[p], nil }
func (l *loader) GetStorage(p string) (blobserver.Storage, error) {
	if s, ok := l.m[p]; ok {
		return s, nil
	}
	return nil, fmt.Errorf("no storage %q", p)
}

var kvSeq atomic.Int64

// ---------------------------------------------------------------- the status page

var (
	reShards = regexp.MustCompile(`Shards processed: (\d+)/(\d+)`)
	reSrc    = regexp.MustCompile(`Source blobs seen: (\d+)`)
	reDst    = regexp.MustCompile(`Dest blobs seen: (\d+)`)
	reMiss   = regexp.MustCompile(`Blobs found missing &amp; enqueued: (\d+)`)
	reErr    = regexp.MustCompile(`Failed to validate prefix ([a-z0-9]+-[0-9a-f]{2}):`)
	reToken  = regexp.MustCompile(`name='token' value='([^']*)'`)
	reToCopy = regexp.MustCompile(`Blobs yet to copy: (\d+)`)
)

// handler: the handler once its constructor has returned (validateOnStart starts enumerating before that)
func (r *run) handler() http.Handler {
	for i := 0; ; i++ {
		r.mu.Lock()
		h := r.h
		r.mu.Unlock()
		if h != nil {
			return h
		}
		if i > 200000 {
			fatal(fmt.Errorf("run %d: no handler after 10 s", r.scn.ID))
		}
		time.Sleep(50 * time.Microsecond)
	}
}

func (r *run) page() string {
	rec := httptest.NewRecorder()
	r.handler().ServeHTTP(rec, httptest.NewRequest("GET", "/sync/", nil))
	return rec.Body.String()
}

func num(re *regexp.Regexp, s string, i int) int {
	m := re.FindStringSubmatch(s)
	if m == nil {
		return -1
	}
	n, _ := strconv.Atoi(m[i])
	return n
}

// post asks for a full validation the way the status page's form does.
func (r *run) post() int {
	tok := ""
	for i := 0; i < 2000 && tok == ""; i++ {
		if m := reToken.FindStringSubmatch(r.page()); m != nil {
			tok = m[1]
		} else if i > 3 {
			break // the form is not shown while a validation runs: post with a token from an earlier page
		}
	}
	if tok == "" {
		tok = lastToken.Load().(string)
	} else {
		lastToken.Store(tok)
	}
	form := url.Values{"mode": {"validate"}, "token": {tok}}
	req := httptest.NewRequest("POST", "/sync/", strings.NewReader(form.Encode()))
	req.Header.Set("Content-Type", "application/x-www-form-urlencoded")
	rec := httptest.NewRecorder()
	r.handler().ServeHTTP(rec, req)
	return rec.Code
}

var lastToken atomic.Value

func (r *run) toCopy() int { return num(reToCopy, r.page(), 1) }

// awaitValidation polls the status page until every shard has been processed; it then records the counters.
func (r *run) awaitValidation() bool {
	// hanging = no shard completed and nothing happened at the wrappers for hangAfter of EFFECTIVE time: a poll counts
	// for at most a millisecond, so a process that is starved of CPU (the machine is shared) does not run out of
	// patience while the handler had no chance to work
	lastD, lastN := -2, -1
	var eff time.Duration
	prev := time.Now()
	var pg string
	for {
		pg = r.page()
		d, t := num(reShards, pg, 1), num(reShards, pg, 2)
		if t > 0 && d == t {
			break
		}
		r.mu.Lock()
		n := len(r.evs)
		r.mu.Unlock()
		now := time.Now()
		step := now.Sub(prev)
		prev = now
		if step > time.Millisecond {
			step = time.Millisecond
		}
		if d != lastD || n != lastN {
			lastD, lastN, eff = d, n, 0
		} else if eff += step; eff > hangAfter {
			r.mark(gate.Event{"ev": "hang", "done": d, "total": t})
			return false
		}
		time.Sleep(500 * time.Microsecond)
	}
	r.mu.Lock()
	qs, qd := len(r.quiet[0]), len(r.quiet[1])
	r.mu.Unlock()
	errs := []int{}
	for _, m := range reErr.FindAllStringSubmatch(pg, -1) {
		errs = append(errs, r.u.pidx[m[1]]) // 0 = a shard that is not one of the universe's: the specification has no such shard
	}
	sort.Ints(errs)
	r.mark(gate.Event{"ev": "vdone", "done": num(reShards, pg, 1), "total": num(reShards, pg, 2), "quiet": qs, "quietd": qd})
	r.mark(gate.Event{"ev": "vsrc", "n": num(reSrc, pg, 1)})
	r.mark(gate.Event{"ev": "vdst", "n": num(reDst, pg, 1)})
	r.mark(gate.Event{"ev": "vmiss", "n": num(reMiss, pg, 1)})
	r.mark(gate.Event{"ev": "verrs", "errs": errs})
	return true
}

var hangAfter = 3 * time.Second

// settle waits until the copy loop has nothing left that it can copy: the pending count of the status page is zero,
// or - the loop may be asleep with work pending (a wake-up sent while it was not listening is lost), or a blob cannot
// be copied - the handler reports a full idle period (IdleWait).
func (r *run) settle() {
	quick := time.Now().Add(250 * time.Millisecond)
	for time.Now().Before(quick) {
		if r.toCopy() == 0 && r.fl.Load() == 0 {
			return
		}
		time.Sleep(time.Millisecond)
	}
	// IdleWait returns when a sleep of the loop ends, i.e. BEFORE the pass that follows: the second return means that
	// a whole pass (over everything that was pending when the first one came) and a whole sleep have gone by
	idle := make(chan struct{})
	go func() { r.sh.IdleWait(); r.sh.IdleWait(); close(idle) }()
	// two idle periods are at least two sleeps of the loop (5 s each) plus its passes; on a loaded machine (the
	// thorough tier runs 48 scenarios at once next to TLC) 30 s of wall time were not always enough
	dl := time.After(180 * time.Second)
	for {
		select {
		case <-idle:
			return
		case <-dl:
			// an observation, not a machinery error: the loop neither drained its pending list nor ever slept
			r.mark(gate.Event{"ev": "noidle"})
			return
		case <-time.After(2 * time.Millisecond):
			if r.toCopy() == 0 && r.fl.Load() == 0 {
				return
			}
		}
	}
}

// quiesced runs f under the run's mutex once no lower-layer call is in progress: what f reads is then exactly the
// state after the last logged line, and its own lines follow without anything in between.
func (r *run) quiesced(f func()) {
	dl := time.Now().Add(30 * time.Second)
	for {
		r.mu.Lock()
		if r.fl.Load() == 0 || r.stuck {
			f()
			r.mu.Unlock()
			return
		}
		r.mu.Unlock()
		if time.Now().After(dl) {
			fatal(fmt.Errorf("run %d: lower-layer calls still in flight after 30 s", r.scn.ID))
		}
		time.Sleep(20 * time.Microsecond)
	}
}

func (r *run) final() {
	r.quiesced(func() {
		rows := gate.Dump(r.qBack)
		for id := 1; id <= r.u.n; id++ {
			res := "absent"
			if d, ok := r.dstMem.Get(r.u.refs[id]); ok {
				res = "wrongsize"
				if bytes.Equal(d, r.u.data[id]) {
					res = "delivered"
				} else if len(d) == len(r.u.data[id]) {
					res = "corrupt"
				}
			}
			_, row := rows[r.u.refs[id].String()]
			r.emit(gate.Event{"ev": "final", "b": id, "res": res, "row": row})
		}
	})
}

func (r *run) populate() (src []int, dst [][2]int, rows []int) {
	scn, u := r.scn, r.u
	src, dst, rows = []int{}, [][2]int{}, []int{}
	put := func(m *gate.MemStore, id, z int) {
		d := u.data[id]
		if z == 2 {
			d = append(append([]byte(nil), d...), 'x')
		}
		m.Put(u.refs[id], d)
	}
	for _, c := range scn.Src {
		put(r.srcMem, u.core[c], 1)
		src = append(src, u.core[c])
	}
	for _, cz := range scn.Dst {
		put(r.dstMem, u.core[cz[0]], cz[1])
		dst = append(dst, [2]int{u.core[cz[0]], cz[1]})
	}
	for _, c := range scn.Rows {
		id := u.core[c]
		r.qBack.Set(u.refs[id].String(), fmt.Sprint(len(u.data[id])))
		rows = append(rows, id)
	}
	for _, id := range u.bulk {
		if strings.Contains(scn.BulkWhere, "s") {
			put(r.srcMem, id, 1)
			src = append(src, id)
		}
		if strings.Contains(scn.BulkWhere, "d") {
			put(r.dstMem, id, 1)
			dst = append(dst, [2]int{id, 1})
		}
	}
	for _, id := range u.extra {
		put(r.srcMem, id, 1)
		src = append(src, id)
	}
	sort.Ints(src)
	sort.Ints(rows)
	sort.Slice(dst, func(i, j int) bool { return dst[i][0] < dst[j][0] })
	return
}

func (r *run) arm(rd *Round) {
	r.mu.Lock()
	defer r.mu.Unlock()
	r.faults, r.races, r.firstCall = map[string]*Fault{}, map[string][]Race{}, map[string]bool{}
	r.quiet = [2]map[string]bool{{}, {}}
	for i := range rd.Faults {
		f := rd.Faults[i]
		r.faults[fmt.Sprintf("%s%d", f.Side, f.P)] = &f
	}
	for _, rc := range rd.Races {
		k := fmt.Sprintf("%s%d%s", rc.Side, rc.P, rc.When)
		r.races[k] = append(r.races[k], rc)
	}
	for _, c := range rd.SetFail {
		r.setFail[r.u.core[c]] = true
	}
}

func newRun(scn *Scn) *run {
	extra := 0
	if scn.FS != nil {
		extra = scn.FS.Big
	}
	r := &run{scn: scn, u: universe(scn.Bulk, extra), srcMem: gate.NewMemStore(), dstMem: gate.NewMemStore(),
		qBack: sorted.NewMemoryKeyValue(), setFail: map[int]bool{}, fetchFail: map[int]bool{}, recvFail: map[int]bool{}, enumCut: -1,
		faults: map[string]*Fault{}, races: map[string][]Race{}, firstCall: map[string]bool{}, quiet: [2]map[string]bool{{}, {}}}
	if scn.Smap != nil && fmt.Sprint(scn.Smap) != fmt.Sprint(coreSmap) {
		fatal(fmt.Errorf("scenario %d: the generator's shard layout %v is not the driver's %v", scn.ID, scn.Smap, coreSmap))
	}
	src, dst, rows := r.populate()
	smap := make([]int, r.u.n)
	for id := 1; id <= r.u.n; id++ {
		smap[id-1] = r.u.shard[id]
		if smap[id-1] == 0 {
			smap[id-1] = 1
		}
	}
	r.emit(gate.Event{"ev": "reset", "fam": scn.Fam, "n": r.u.n, "smap": smap, "src": src, "dst": dst, "rows": rows, "scn": scn})
	sg := gate.NewStorage("src", r.srcMem, nil, nil)
	dg := gate.NewStorage("dst", r.dstMem, nil, nil)
	r.src, r.dst = &vsto{Storage: sg, side: "s", r: r}, &vsto{Storage: dg, side: "d", r: r}
	r.q = &vq{KV: gate.NewKV("queue", r.qBack, nil, nil), r: r}
	return r
}

func (r *run) create(extra jsonconfig.Obj) {
	qname := fmt.Sprintf("c19vq%d", kvSeq.Add(1))
	gate.RegisterNamedKV(qname, r.q)
	ld := &loader{m: map[string]blobserver.Storage{"/src/": r.src, "/dst/": r.dst}}
	conf := jsonconfig.Obj{"from": "/src/", "to": "/dst/", "queue": map[string]any{"type": "verifkv", "name": qname}}
	for k, v := range extra {
		conf[k] = v
	}
	h, err := blobserver.CreateHandler("sync", ld, conf)
	if err != nil {
		fatal(fmt.Errorf("run %d: CreateHandler: %v", r.scn.ID, err))
	}
	r.mu.Lock()
	r.h = h
	r.sh = h.(*server.SyncHandler)
	r.mu.Unlock()
}

func (r *run) execVal() {
	scn := r.scn
	if scn.Held {
		r.release = make(chan struct{})
	}
	if len(scn.Rounds) == 0 {
		scn.Rounds = []Round{{}}
	}
	r.arm(&scn.Rounds[0])
	if scn.Mode == "cfg" {
		r.mu.Lock()
		r.emit(gate.Event{"ev": "start", "kind": "cfg"})
		r.mu.Unlock()
		r.create(jsonconfig.Obj{"validateOnStart": true})
	} else {
		sh := server.NewSyncHandler("/src/", "/dst/", r.src, r.dst, r.q)
		r.mu.Lock()
		r.sh, r.h = sh, sh
		r.mu.Unlock()
		r.mark(gate.Event{"ev": "start", "kind": "post"})
	}
	ok := true
	for i := range scn.Rounds {
		if i > 0 || scn.Mode != "cfg" {
			if i > 0 {
				r.arm(&scn.Rounds[i])
			}
			// the line is written before the request: the enumerations it starts must follow it in the log
			r.mu.Lock()
			r.emit(gate.Event{"ev": "post", "res": 302})
			r.mu.Unlock()
			if code := r.post(); code != 302 {
				fatal(fmt.Errorf("run %d: POST mode=validate answered %d", scn.ID, code))
			}
		}
		if ok = r.awaitValidation(); !ok {
			break
		}
		if scn.Held {
			r.quiesced(func() {
				rows := gate.Dump(r.qBack)
				for id := 1; id <= r.u.n; id++ {
					_, present := rows[r.u.refs[id].String()]
					r.emit(gate.Event{"ev": "row", "b": id, "present": present})
				}
			})
		}
	}
	if !ok {
		return // a validation that hangs keeps its goroutines: nothing more can be observed in order
	}
	if scn.Held {
		r.mark(gate.Event{"ev": "release"})
		close(r.release)
	}
	r.settle()
	r.final()
}

func (r *run) execFS() {
	scn := r.scn
	fs := scn.FS
	r.enumCut = fs.EnumCut
	for _, c := range fs.FetchFail {
		r.fetchFail[r.u.core[c]] = true
	}
	for _, c := range fs.RecvFail {
		r.recvFail[r.u.core[c]] = true
	}
	if fs.Stall {
		r.stall = make(chan struct{})
		go func() {
			// let the destination writes through once the source enumeration has stopped moving for a while
			last, since := int64(-1), time.Now()
			for {
				if n := r.sentAll.Load(); n != last {
					last, since = n, time.Now()
				} else if time.Since(since) > 150*time.Millisecond {
					close(r.stall)
					return
				}
				time.Sleep(time.Millisecond)
			}
		}()
	}
	r.mu.Lock()
	r.emit(gate.Event{"ev": "start", "kind": "fs"})
	r.mu.Unlock()
	done := make(chan struct{})
	key := "blockingFullSyncOnStart"
	if fs.NoBlock {
		key = "fullSyncOnStart"
	}
	go func() {
		r.create(jsonconfig.Obj{key: true})
		close(done)
	}()
	// the full sync is over when CreateHandler returns (blocking), or when the status page shows the copy loop
	// asleep (the loop starts after the full sync); if nothing has happened at the wrappers for a while and neither
	// has come, that is recorded
	over := func() bool {
		select {
		case <-done:
			return !fs.NoBlock || strings.Contains(r.page(), "Sleeping briefly")
		default:
			return false
		}
	}
	hard := time.Now().Add(120 * time.Second)
	last := -1
	var eff time.Duration // effective time without an event (a poll counts for at most a millisecond)
	prev := time.Now()
	finished := false
	for !finished {
		if over() {
			finished = true
			break
		}
		r.mu.Lock()
		n := len(r.evs)
		r.mu.Unlock()
		now := time.Now()
		step := now.Sub(prev)
		prev = now
		if step > time.Millisecond {
			step = time.Millisecond
		}
		if n != last {
			last, eff = n, 0
		} else {
			eff += step
		}
		if eff > fsQuiet || now.After(hard) {
			break
		}
		time.Sleep(500 * time.Microsecond)
	}
	created := false
	select {
	case <-done:
		created = true
	default:
	}
	if finished {
		r.mark(gate.Event{"ev": "fsdone"})
	} else if !created {
		r.mark(gate.Event{"ev": "fshang", "created": false})
	}
	if created {
		if fs.NoBlock && fs.Up > 0 {
			r.act(Race{Act: "up", B: fs.Up})
		}
		if finished {
			r.settle()
		} else {
			r.settleBounded(1500 * time.Millisecond) // the copy loop was never seen running
		}
	}
	r.final()
}

var fsQuiet = 2 * time.Second

// settleBounded: like settle, for a handler whose copy loop may never have been started
func (r *run) settleBounded(d time.Duration) {
	dl := time.Now().Add(d)
	idle := make(chan struct{})
	go func() { r.sh.IdleWait(); close(idle) }()
	for time.Now().Before(dl) {
		select {
		case <-idle:
			return
		case <-time.After(time.Millisecond):
			if r.toCopy() == 0 && r.fl.Load() == 0 {
				return
			}
		}
	}
}

// ---------------------------------------------------------------- ListMissingDestinationBlobs, directly

type lmCase struct{ s, d [][2]int }

// lmUniverse: six refs of two hash functions, in byte order; sizes: class 1 = the blob's own size, 2 = another one
func lmRun(u *uni, c lmCase) gate.Event {
	mk := func(q [][2]int) chan blob.SizedRef {
		ch := make(chan blob.SizedRef, len(q)+1)
		for _, it := range q {
			if it[0] == 0 {
				ch <- blob.SizedRef{}
				continue
			}
			ch <- blob.SizedRef{Ref: u.refs[it[0]], Size: uint32(len(u.data[it[0]]) + it[1] - 1)}
		}
		close(ch)
		return ch
	}
	missing := make(chan blob.SizedRef, 16)
	mism := []int{}
	out := []int{}
	done := make(chan struct{})
	go func() {
		blobserver.ListMissingDestinationBlobs(missing, func(br blob.Ref) { mism = append(mism, u.byRef[br]) }, mk(c.s), mk(c.d))
		close(done)
	}()
	res := "closed"
	tm := time.After(10 * time.Second)
loop:
	for {
		select {
		case sb, ok := <-missing:
			if !ok {
				break loop
			}
			out = append(out, u.byRef[sb.Ref])
		case <-tm:
			res = "hang"
			break loop
		}
	}
	if res == "closed" {
		<-done
	}
	return gate.Event{"ev": "lm", "b": 0, "s": c.s, "d": c.d, "out": out, "mism": mism, "res": res}
}

// lmCases: every pair (subset of the first n blobs as the source stream, subset with a size class each as the
// destination stream), and for sent = true the zero value inserted at every position of either stream.
func lmCases(n int, sent bool) []lmCase {
	var ss, ds [][][2]int
	for m := 0; m < 1<<n; m++ {
		var s [][2]int
		for b := 1; b <= n; b++ {
			if m>>(b-1)&1 == 1 {
				s = append(s, [2]int{b, 1})
			}
		}
		ss = append(ss, s)
	}
	pow := 1
	for i := 0; i < n; i++ {
		pow *= 3
	}
	for m := 0; m < pow; m++ {
		var d [][2]int
		x := m
		for b := 1; b <= n; b++ {
			if z := x % 3; z > 0 {
				d = append(d, [2]int{b, z})
			}
			x /= 3
		}
		ds = append(ds, d)
	}
	ins := func(q [][2]int, i int) [][2]int {
		o := append([][2]int{}, q[:i]...)
		o = append(o, [2]int{0, 0})
		return append(o, q[i:]...)
	}
	var out []lmCase
	for _, s := range ss {
		for _, d := range ds {
			if s == nil {
				s = [][2]int{}
			}
			if d == nil {
				d = [][2]int{}
			}
			if !sent {
				out = append(out, lmCase{s, d})
				continue
			}
			for i := 0; i <= len(s); i++ {
				out = append(out, lmCase{ins(s, i), d})
			}
			for i := 0; i <= len(d); i++ {
				out = append(out, lmCase{s, ins(d, i)})
			}
			out = append(out, lmCase{ins(s, len(s)), ins(d, len(d) / 2)})
		}
	}
	return out
}

// ---------------------------------------------------------------- output

var (
	outMu sync.Mutex
	outW  *bufio.Writer
	nRuns atomic.Int64
	nEv   atomic.Int64
)

func emitRun(evs []gate.Event) {
	outMu.Lock()
	defer outMu.Unlock()
	sg := nRuns.Add(1)
	for _, e := range evs {
		e["sg"] = sg
		b, err := json.Marshal(e)
		if err != nil {
			fatal(err)
		}
		outW.Write(b)
		outW.WriteByte('\n')
		nEv.Add(1)
	}
}

func runOne(scn *Scn) {
	if scn.Src == nil {
		scn.Src = []int{}
	}
	if scn.Dst == nil {
		scn.Dst = [][2]int{}
	}
	if scn.Rows == nil {
		scn.Rows = []int{}
	}
	if scn.Rounds == nil {
		scn.Rounds = []Round{}
	}
	for i := range scn.Rounds {
		rd := &scn.Rounds[i]
		if rd.Faults == nil {
			rd.Faults = []Fault{}
		}
		if rd.Races == nil {
			rd.Races = []Race{}
		}
		if rd.SetFail == nil {
			rd.SetFail = []int{}
		}
	}
	if scn.FS != nil {
		if scn.FS.FetchFail == nil {
			scn.FS.FetchFail = []int{}
		}
		if scn.FS.RecvFail == nil {
			scn.FS.RecvFail = []int{}
		}
	}
	r := newRun(scn)
	if scn.Fam == "fs" {
		r.execFS()
	} else {
		r.execVal()
	}
	r.mu.Lock()
	evs := r.evs
	r.evs = nil
	r.mu.Unlock()
	emitRun(evs)
}

func fatal(err error) {
	fmt.Fprintln(os.Stderr, "c19v:", err)
	os.Exit(2)
}

// ---------------------------------------------------------------- random scenarios

func randomScn(rng *rand.Rand, id int) *Scn {
	s := &Scn{Fam: "val", Mode: "post", Held: rng.Intn(4) != 0, ID: id}
	if rng.Intn(4) == 0 {
		s.Mode = "cfg"
	}
	for c := 1; c <= 7; c++ {
		switch rng.Intn(7) {
		case 0:
		case 1, 2:
			s.Src = append(s.Src, c)
		case 3:
			s.Dst = append(s.Dst, [2]int{c, 1})
		case 4:
			s.Src = append(s.Src, c)
			s.Dst = append(s.Dst, [2]int{c, 1})
		case 5:
			s.Src = append(s.Src, c)
			s.Dst = append(s.Dst, [2]int{c, 2})
		case 6:
			s.Src = append(s.Src, c)
			s.Rows = append(s.Rows, c)
		}
	}
	nr := 1 + rng.Intn(2)
	for i := 0; i < nr; i++ {
		var rd Round
		for k := rng.Intn(3); k > 0; k-- {
			rd.Faults = append(rd.Faults, Fault{Side: []string{"s", "d"}[rng.Intn(2)], P: 1 + rng.Intn(7), Cut: rng.Intn(3)})
		}
		for k := rng.Intn(3); k > 0; k-- {
			c := 1 + rng.Intn(7)
			p := coreSmap[c-1]
			if rng.Intn(3) == 0 {
				p = 1 + rng.Intn(7)
			}
			rd.Races = append(rd.Races, Race{Side: []string{"s", "d"}[rng.Intn(2)], P: p, When: []string{"before", "after"}[rng.Intn(2)],
				Act: []string{"up", "up", "rms", "rmd", "put", "post"}[rng.Intn(6)], B: c, Z: 1 + rng.Intn(2)})
		}
		if rng.Intn(6) == 0 {
			rd.SetFail = append(rd.SetFail, 1+rng.Intn(7))
		}
		s.Rounds = append(s.Rounds, rd)
	}
	if rng.Intn(12) == 0 {
		s.Bulk, s.BulkWhere = 1+rng.Intn(60), []string{"s", "d", "sd"}[rng.Intn(3)]
	}
	return s
}

func randomFS(rng *rand.Rand, id int) *Scn {
	s := &Scn{Fam: "fs", ID: id, FS: &FSPlan{EnumCut: -1}}
	for c := 1; c <= 7; c++ {
		switch rng.Intn(6) {
		case 0:
		case 1, 2:
			s.Src = append(s.Src, c)
		case 3:
			s.Src = append(s.Src, c)
			s.Dst = append(s.Dst, [2]int{c, 1 + rng.Intn(2)})
		case 4:
			s.Src = append(s.Src, c)
			s.Rows = append(s.Rows, c)
		case 5:
			s.Rows = append(s.Rows, c)
			if rng.Intn(2) == 0 {
				s.Dst = append(s.Dst, [2]int{c, 1})
			}
		}
	}
	if rng.Intn(4) == 0 {
		s.FS.EnumCut = rng.Intn(4)
	}
	if rng.Intn(4) == 0 {
		s.FS.FetchFail = []int{1 + rng.Intn(7)}
	}
	if rng.Intn(4) == 0 {
		s.FS.RecvFail = []int{1 + rng.Intn(7)}
	}
	return s
}

func main() {
	scnF := flag.String("scn", "", "scenarios (JSON lines) from SyncValidateGen")
	out := flag.String("out", "trace.ndjson", "trace output")
	seed := flag.Int64("seed", 1, "seed")
	random := flag.Int("random", 0, "number of seeded random validation scenarios (and a quarter as many full-sync ones)")
	lm := flag.String("lm", "", "drive ListMissingDestinationBlobs directly: n,sent,sample (universe size, with sentinels 0|1, at most that many cases; 0 = all)")
	par := flag.Int("par", 48, "scenarios run concurrently")
	hang := flag.Int("hangms", 3000, "a validation that makes no progress for that long is recorded as hanging")
	flag.Parse()
	hangAfter = time.Duration(*hang) * time.Millisecond
	log.SetOutput(io.Discard)
	lastToken.Store("")
	f, err := os.Create(*out)
	if err != nil {
		fatal(err)
	}
	outW = bufio.NewWriterSize(f, 1<<20)
	var scns []*Scn
	if *scnF != "" {
		sf, err := os.Open(*scnF)
		if err != nil {
			fatal(err)
		}
		sc := bufio.NewScanner(sf)
		sc.Buffer(make([]byte, 1<<20), 1<<24)
		for sc.Scan() {
			var s Scn
			if err := json.Unmarshal(sc.Bytes(), &s); err != nil {
				fatal(fmt.Errorf("%v: %s", err, sc.Text()))
			}
			s.ID = len(scns)
			scns = append(scns, &s)
		}
	}
	rng := rand.New(rand.NewSource(*seed))
	for i := 0; i < *random; i++ {
		if i%4 == 3 {
			scns = append(scns, randomFS(rng, len(scns)))
		} else {
			scns = append(scns, randomScn(rng, len(scns)))
		}
	}
	maxBulk, maxExtra := 0, 0
	for _, s := range scns {
		if s.Bulk > maxBulk {
			maxBulk = s.Bulk
		}
		if s.FS != nil && s.FS.Big > maxExtra {
			maxExtra = s.FS.Big
		}
		if s.FS != nil && s.Fam != "fs" {
			s.FS = nil
		}
		if s.Fam == "fs" && s.FS == nil {
			s.FS = &FSPlan{EnumCut: -1}
		}
	}
	initData(*seed, maxBulk, maxExtra)
	nLM := 0
	if *lm != "" {
		var n, sent, sample int
		if _, err := fmt.Sscanf(*lm, "%d,%d,%d", &n, &sent, &sample); err != nil || n < 1 || n > 7 {
			fatal(fmt.Errorf("bad -lm %q", *lm))
		}
		u := universe(0, 0)
		cases := lmCases(n, sent == 1)
		if sample > 0 && sample < len(cases) {
			rng.Shuffle(len(cases), func(i, j int) { cases[i], cases[j] = cases[j], cases[i] })
			cases = cases[:sample]
		}
		for _, c := range cases {
			emitRun([]gate.Event{{"ev": "reset", "b": 0, "fam": "lm", "n": u.n, "smap": coreSmap, "src": []int{}, "dst": [][2]int{}, "rows": []int{}},
				lmRun(u, c)})
		}
		nLM = len(cases)
	}
	sem := make(chan struct{}, *par)
	var wg sync.WaitGroup
	for _, s := range scns {
		s.Seed = *seed
		wg.Add(1)
		sem <- struct{}{}
		go func(s *Scn) {
			defer wg.Done()
			defer func() { <-sem }()
			runOne(s)
		}(s)
	}
	wg.Wait()
	outW.Flush()
	f.Close()
	fmt.Printf("scenarios=%d lm=%d runs=%d events=%d\n", len(scns), nLM, nRuns.Load(), nEv.Load())
}
