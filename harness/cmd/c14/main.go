// c14 runs 2-16 client goroutines with random programs over overlapping blobs
// against a real storage configuration (seeded yields/delays at the
// lower-layer boundaries), logging call/ret events with one global sequence
// counter for Trace_Lin.tla. Built with -race: any race report of the very
// executions being validated is a discrepancy of its own.
// It also replays deterministic gate schedules derived from the mechanism
// specifications (ProxyCache, BlobPacked with Concurrent = TRUE).
package main

import (
	"bytes"
	"context"
	"flag"
	"fmt"
	"io"
	"log"
	"math/rand"
	"os"
	"runtime"
	"sync"
	"time"

	"perkeep.org/pkg/blob"
	"perkeep.org/pkg/blobserver"
	"perkeep.org/pkg/schema"

	"verif/drv"
	"verif/gate"
	"verif/stores"
	"verif/univ"
)

var noRemove bool
var mix string
var split bool

func fatal(err error) {
	fmt.Fprintln(os.Stderr, "c14:", err)
	os.Exit(2)
}

func main() {
	cfgS := flag.String("cfg", "memory", "storage configuration")
	out := flag.String("out", "trace.ndjson", "trace output")
	seed := flag.Int64("seed", 1, "seed")
	clients := flag.Int("clients", 3, "client goroutines")
	ops := flag.Int("ops", 8, "operations per client and segment")
	segs := flag.Int("segments", 20, "independent segments")
	blobs := flag.Int("blobs", 3, "universe size")
	sched := flag.String("sched", "", "deterministic schedule scenario instead of random clients: h11 | h23 | h31 | h20 | h26b")
	flag.BoolVar(&noRemove, "noremove", false, "random programs without remove operations")
	flag.BoolVar(&split, "split", false, "random programs never receive and remove the same blob concurrently: blobs of even index are stored by a sequential preamble and then only removed (never received), the others are only received")
	flag.StringVar(&mix, "mix", "", "operation mix: '' = all operations; enumrm = client 1 only enumerates (slowly), the others receive/remove")
	scratch := flag.String("scratch", "", "scratch dir")
	flag.Parse()
	log.SetOutput(io.Discard)
	if *scratch == "" {
		d, err := os.MkdirTemp("", "verif-c14-")
		if err != nil {
			fatal(err)
		}
		defer os.RemoveAll(d)
		*scratch = d
	}
	lg, err := gate.NewFileLog(*out)
	if err != nil {
		fatal(err)
	}
	switch *sched {
	case "h11":
		if err := schedH11(lg, *scratch); err != nil {
			fatal(err)
		}
	case "h23":
		if err := schedH23(lg, *scratch); err != nil {
			fatal(err)
		}
	case "h31":
		if err := schedH31(lg, *scratch); err != nil {
			fatal(err)
		}
	case "h20":
		if err := schedH20(lg, *scratch); err != nil {
			fatal(err)
		}
	case "h26b":
		if err := schedH26b(lg, *scratch); err != nil {
			fatal(err)
		}
	case "":
		cfg, err := stores.Parse(*cfgS)
		if err != nil {
			fatal(err)
		}
		rng := rand.New(rand.NewSource(*seed))
		u := univ.Standard(*blobs, *seed)
		for s := 0; s < *segs; s++ {
			if err := segment(cfg, u, lg, rng.Int63(), *clients, *ops, s, *scratch); err != nil {
				fatal(err)
			}
		}
	default:
		fatal(fmt.Errorf("unknown schedule %q", *sched))
	}
	if err := lg.Close(); err != nil {
		fatal(err)
	}
	fmt.Printf("events=%d\n", lg.Len())
}

func callEvent(c int, op drv.Op, u *univ.Universe) gate.Event {
	ev := gate.Event{"ev": "call", "c": c, "op": op.Op}
	switch op.Op {
	case "receive", "fetch":
		ev["b"] = op.B
	case "subfetch":
		off, ln := drv.OffLen(op.Off, op.Len, len(u.ByRank(op.B).Data))
		ev["b"], ev["off"], ev["len"] = op.B, off, ln
	case "stat", "remove":
		bs := make([]any, len(op.Bs))
		for i, b := range op.Bs {
			bs[i] = b
		}
		ev["bs"] = bs
	case "enum":
		ev["after"] = u.CursorRank(u.CursorString(op.After, op.Form))
		ev["limit"] = op.Limit
	}
	return ev
}

func do(r *drv.Runner, lg *gate.Log, c int, op drv.Op) gate.Event {
	lg.Emit(callEvent(c, op, r.U))
	ev := r.Do(op)
	ev["ev"] = "ret"
	ev["c"] = c
	lg.Emit(ev)
	return ev
}

func caps(sys *stores.Sys, cfg *stores.Cfg) drv.Caps {
	_, hasSub := sys.Sto.(blob.SubFetcher)
	sub := "no"
	if hasSub {
		sub = "yes"
		if cfg.Type == "proxycache" {
			sub = "maybe"
		}
	}
	return drv.Caps{CanRemove: sys.CanRemove, ReadOnly: sys.ReadOnly, SubFetch: sub}
}

func segment(cfg *stores.Cfg, u *univ.Universe, lg *gate.Log, seed int64, clients, nops, idx int, scratch string) error {
	dir, err := os.MkdirTemp(scratch, "s")
	if err != nil {
		return err
	}
	defer os.RemoveAll(dir)
	plan := gate.NewPlan()
	jr := rand.New(rand.NewSource(seed))
	var jmu sync.Mutex
	plan.Jitter = func() {
		jmu.Lock()
		x := jr.Intn(10)
		jmu.Unlock()
		switch {
		case x < 4:
			runtime.Gosched()
		case x < 5:
			time.Sleep(time.Duration(20+x*10) * time.Microsecond)
		}
	}
	env := &stores.Env{P: plan, D: stores.NewDurable(dir), Rank: u.RankAny}
	sys, err := stores.Build(cfg, env)
	if err != nil {
		return err
	}
	defer sys.Close()
	cp := caps(sys, cfg)
	mk := func() *drv.Runner {
		return &drv.Runner{U: u, Sto: sys.Sto, Caps: cp, NoQuiesce: true, SlowEnum: idx%2 == 0 || mix == "enumrm"}
	}
	reset := mk().ResetEvent(cfg.String())
	reset["pre"] = []any{}
	reset["seg"] = idx
	lg.Emit(reset)
	var wg sync.WaitGroup
	n := len(u.Blobs)
	if split {
		pr := &drv.Runner{U: u, Sto: sys.Sto, Caps: cp}
		for i := 1; i < n; i += 2 {
			do(pr, lg, 1, drv.Op{Op: "receive", B: 2 * (1 + i)})
		}
	}
	for c := 1; c <= clients; c++ {
		wg.Add(1)
		crng := rand.New(rand.NewSource(seed + int64(c)*7919))
		go func(c int) {
			defer wg.Done()
			r := mk()
			for i := 0; i < nops; i++ {
				var op drv.Op
				rk := 2 * (1 + crng.Intn(n))
				x := crng.Intn(10)
				if mix == "enumrm" {
					if c == 1 {
						x = 9
					} else if x%2 == 0 || noRemove {
						x = 0
					} else {
						x = 7
					}
				}
				if split && n >= 2 {
					// index (rk/2 - 1) odd: removable, pre-stored, never received again; even: receive-only
					i := crng.Intn(n)
					switch {
					case x < 3:
						i &^= 1
					case x >= 6 && x < 8:
						i |= 1
						if i >= n {
							i -= 2
						}
					}
					rk = 2 * (1 + i)
				}
				switch {
				case x < 3:
					op = drv.Op{Op: "receive", B: rk, Src: crng.Intn(3)}
				case x < 5:
					op = drv.Op{Op: "fetch", B: rk}
				case x < 6:
					op = drv.Op{Op: "stat", Bs: []int{rk}}
				case x < 8 && !noRemove:
					op = drv.Op{Op: "remove", Bs: []int{rk}}
				default:
					op = drv.Op{Op: "enum", After: crng.Intn(2*n + 2), Limit: 1 + crng.Intn(n+1)}
					if mix == "enumrm" {
						op = drv.Op{Op: "enum", After: 0, Limit: n + 2}
					}
				}
				if mix == "enumrm" && c != 1 {
					// pace the writers so that they are spread over the (slow) enumerations of client 1
					time.Sleep(time.Duration(crng.Intn(80)) * time.Microsecond)
				}
				do(r, lg, c, op)
			}
		}(c)
	}
	wg.Wait()
	// quiescent: whatever the concurrent part did, a sequential observer must now see one consistent map
	r := &drv.Runner{U: u, Sto: sys.Sto, Caps: cp}
	var all []int
	for _, b := range u.Blobs {
		all = append(all, b.Rank)
	}
	do(r, lg, 1, drv.Op{Op: "stat", Bs: all})
	for _, b := range u.Blobs {
		do(r, lg, 1, drv.Op{Op: "fetch", B: b.Rank})
	}
	do(r, lg, 1, drv.Op{Op: "enum", After: 0, Limit: n + 2})
	return nil
}

// ---------------------------------------------------------------- deterministic schedules

const watch = 60 * time.Second

func asyncCall(r *drv.Runner, lg *gate.Log, c int, op drv.Op) chan gate.Event {
	ch := make(chan gate.Event, 1)
	lg.Emit(callEvent(c, op, r.U))
	go func() {
		ev := r.Do(op)
		ch <- ev
	}()
	return ch
}

func finish(lg *gate.Log, c int, ch chan gate.Event) error {
	select {
	case ev := <-ch:
		ev["ev"] = "ret"
		ev["c"] = c
		lg.Emit(ev)
		return nil
	case <-time.After(watch):
		return fmt.Errorf("conformance: call of client %d did not return", c)
	}
}

// runExcept lets the call behind ch run to completion, releasing every parked lower call except those whose id
// has the prefix `except` (which stay parked).
func runExcept(sc *gate.Scheduler, lg *gate.Log, c int, ch chan gate.Event, except string) error {
	deadline := time.Now().Add(watch)
	for time.Now().Before(deadline) {
		select {
		case ev := <-ch:
			ev["ev"] = "ret"
			ev["c"] = c
			lg.Emit(ev)
			return nil
		default:
		}
		stepped := false
		for _, p := range sc.Parked() {
			if except == "" || !hasPrefix(p, except) {
				if err := sc.Step(p, watch); err != nil {
					return fmt.Errorf("conformance: %v", err)
				}
				stepped = true
				break
			}
		}
		if !stepped {
			time.Sleep(100 * time.Microsecond)
		}
	}
	return fmt.Errorf("conformance: call of client %d did not return", c)
}

func hasPrefix(s, p string) bool { return len(s) >= len(p) && s[:len(p)] == p }

// schedH31: overlay RemoveBlobs = upper.RemoveBlobs, then the tombstone batch. Between the two steps the blob is
// already gone for readers (a stat says so); a complete ReceiveBlob of the same blob is acknowledged; then the
// tombstone lands and hides the freshly received blob: no order of remove and receive explains stat + final fetch.
func schedH31(lg *gate.Log, scratch string) error {
	u := univ.Standard(3, 1)
	cfg, _ := stores.Parse("overlay")
	plan := gate.NewPlan()
	sc := gate.NewScheduler()
	env := &stores.Env{P: plan, D: stores.NewDurable(scratch), Rank: u.RankAny}
	sys, err := stores.Build(cfg, env)
	if err != nil {
		return err
	}
	r := &drv.Runner{U: u, Sto: sys.Sto, Caps: drv.Caps{CanRemove: true, SubFetch: "no"}, NoQuiesce: true}
	a := u.Blobs[1]
	reset := r.ResetEvent("overlay+sched:h31")
	reset["pre"] = []any{}
	lg.Emit(reset)
	do(r, lg, 1, drv.Op{Op: "receive", B: a.Rank})
	plan.Sched = sc
	rm := asyncCall(r, lg, 2, drv.Op{Op: "remove", Bs: []int{a.Rank}})
	if err := sc.Step("r/1.RemoveBlobs", watch); err != nil { // upper.RemoveBlobs
		return fmt.Errorf("conformance: %v", err)
	}
	if err := sc.WaitParked("r.deleted.CommitBatch", watch); err != nil {
		return fmt.Errorf("conformance: %v", err)
	}
	st := asyncCall(r, lg, 3, drv.Op{Op: "stat", Bs: []int{a.Rank}})
	if err := runExcept(sc, lg, 3, st, "r.deleted.CommitBatch"); err != nil {
		return err
	}
	rc := asyncCall(r, lg, 3, drv.Op{Op: "receive", B: a.Rank})
	if err := runExcept(sc, lg, 3, rc, "r.deleted.CommitBatch"); err != nil {
		return err
	}
	sc.Free()
	if err := finish(lg, 2, rm); err != nil {
		return err
	}
	r2 := &drv.Runner{U: u, Sto: sys.Sto, Caps: r.Caps}
	do(r2, lg, 1, drv.Op{Op: "fetch", B: a.Rank})
	do(r2, lg, 1, drv.Op{Op: "stat", Bs: []int{a.Rank}})
	return nil
}

// schedH26b: replica (all writes required) uploads to its replicas in parallel and RemoveBlobs removes from all in
// parallel, with nothing ordering the two: the upload to replica 1 lands (a fetch sees the blob), a RemoveBlobs is
// acknowledged (a fetch sees it gone), then the upload to replica 2 lands and the receive is acknowledged: the blob
// is back, on one replica only. No order of the receive and the remove explains the three fetches.
func schedH26b(lg *gate.Log, scratch string) error {
	u := univ.Standard(3, 1)
	cfg, _ := stores.Parse("replica(gate,gate)")
	plan := gate.NewPlan()
	sc := gate.NewScheduler()
	env := &stores.Env{P: plan, D: stores.NewDurable(scratch), Rank: u.RankAny}
	sys, err := stores.Build(cfg, env)
	if err != nil {
		return err
	}
	r := &drv.Runner{U: u, Sto: sys.Sto, Caps: drv.Caps{CanRemove: true, SubFetch: "no"}, NoQuiesce: true}
	a := u.Blobs[1]
	reset := r.ResetEvent("replica+sched:h26b")
	reset["pre"] = []any{}
	lg.Emit(reset)
	plan.Sched = sc
	rc := asyncCall(r, lg, 1, drv.Op{Op: "receive", B: a.Rank})
	if err := sc.WaitParked("r/1.ReceiveBlob", watch); err != nil {
		return fmt.Errorf("conformance: %v (parked: %v)", err, sc.Parked())
	}
	if err := sc.Step("r/0.ReceiveBlob", watch); err != nil {
		return fmt.Errorf("conformance: %v (parked: %v)", err, sc.Parked())
	}
	for _, op := range []drv.Op{{Op: "fetch", B: a.Rank}, {Op: "remove", Bs: []int{a.Rank}}, {Op: "fetch", B: a.Rank}} {
		ch := asyncCall(r, lg, 2, op)
		if err := runExcept(sc, lg, 2, ch, "r/1.ReceiveBlob"); err != nil {
			return err
		}
	}
	sc.Free()
	if err := finish(lg, 1, rc); err != nil {
		return err
	}
	r2 := &drv.Runner{U: u, Sto: sys.Sto, Caps: r.Caps}
	do(r2, lg, 1, drv.Op{Op: "fetch", B: a.Rank})
	do(r2, lg, 1, drv.Op{Op: "stat", Bs: []int{a.Rank}})
	return nil
}

// schedH20: diskpacked RemoveBlobs zeroes the body before the index batch is committed; a Fetch that runs while
// the remover is parked at that commit still finds the index row and returns zero bytes.
func schedH20(lg *gate.Log, scratch string) error {
	u := univ.Standard(3, 1)
	cfg, _ := stores.Parse("diskpacked")
	plan := gate.NewPlan()
	sc := gate.NewScheduler()
	env := &stores.Env{P: plan, D: stores.NewDurable(scratch), Rank: u.RankAny}
	sys, err := stores.Build(cfg, env)
	if err != nil {
		return err
	}
	defer sys.Close()
	r := &drv.Runner{U: u, Sto: sys.Sto, Caps: drv.Caps{CanRemove: true, SubFetch: "yes"}, NoQuiesce: true}
	a := u.Blobs[0]
	reset := r.ResetEvent("diskpacked+sched:h20")
	reset["pre"] = []any{}
	lg.Emit(reset)
	do(r, lg, 1, drv.Op{Op: "receive", B: a.Rank})
	plan.Sched = sc
	rm := asyncCall(r, lg, 2, drv.Op{Op: "remove", Bs: []int{a.Rank}})
	// run the remover up to its index batch
	deadline := time.Now().Add(watch)
	for {
		ps := sc.Parked()
		if len(ps) == 1 && ps[0] == "r.idx.CommitBatch" {
			break
		}
		stepped := false
		for _, p := range ps {
			if p != "r.idx.CommitBatch" {
				if err := sc.Step(p, watch); err != nil {
					return fmt.Errorf("conformance: %v", err)
				}
				stepped = true
				break
			}
		}
		if !stepped {
			if time.Now().After(deadline) {
				return fmt.Errorf("conformance: remover never reached its index batch; parked=%v", ps)
			}
			time.Sleep(100 * time.Microsecond)
		}
	}
	f := asyncCall(r, lg, 3, drv.Op{Op: "fetch", B: a.Rank})
	if err := runExcept(sc, lg, 3, f, "r.idx.CommitBatch"); err != nil {
		return err
	}
	sc.Free()
	if err := finish(lg, 2, rm); err != nil {
		return err
	}
	r2 := &drv.Runner{U: u, Sto: sys.Sto, Caps: r.Caps}
	do(r2, lg, 1, drv.Op{Op: "fetch", B: a.Rank})
	return nil
}

// schedH11: the counterexample of ProxyCache.tla (NoStaleCopy): client 1 fetches A (cache miss, origin hit),
// client 2 removes A completely, then client 1's cache fill lands: a later sequential fetch serves the removed blob.
func schedH11(lg *gate.Log, scratch string) error {
	u := univ.Standard(3, 1)
	cfg, _ := stores.Parse("proxycache[gatecache=1]")
	plan := gate.NewPlan()
	sc := gate.NewScheduler()
	env := &stores.Env{P: plan, D: stores.NewDurable(scratch), Rank: u.RankAny}
	sys, err := stores.Build(cfg, env)
	if err != nil {
		return err
	}
	r := &drv.Runner{U: u, Sto: sys.Sto, Caps: drv.Caps{CanRemove: true, SubFetch: "maybe"}, NoQuiesce: true}
	a := u.Blobs[1]
	// A is in the origin only
	sys.Gates["r/0"].B.Put(a.Ref, a.Data)
	reset := r.ResetEvent("proxycache+sched:h11")
	reset["pre"] = []any{a.Rank}
	lg.Emit(reset)
	plan.Sched = sc
	f := asyncCall(r, lg, 1, drv.Op{Op: "fetch", B: a.Rank})
	for _, st := range []string{"r/cache.Fetch", "r/0.Fetch"} { // cache miss, origin hit; the cache fill stays parked
		if err := sc.Step(st, watch); err != nil {
			return fmt.Errorf("conformance: %v", err)
		}
	}
	rm := asyncCall(r, lg, 2, drv.Op{Op: "remove", Bs: []int{a.Rank}})
	for _, st := range []string{"r/cache.RemoveBlobs", "r/0.RemoveBlobs"} {
		if err := sc.Step(st, watch); err != nil {
			return fmt.Errorf("conformance: %v", err)
		}
	}
	if err := finish(lg, 2, rm); err != nil {
		return err
	}
	sc.Free() // the fetch now fills the cache and returns
	if err := finish(lg, 1, f); err != nil {
		return err
	}
	r2 := &drv.Runner{U: u, Sto: sys.Sto, Caps: r.Caps}
	do(r2, lg, 1, drv.Op{Op: "fetch", B: a.Rank})
	do(r2, lg, 1, drv.Op{Op: "stat", Bs: []int{a.Rank}})
	do(r2, lg, 1, drv.Op{Op: "enum", After: 0, Limit: 5})
	return nil
}

// schedH23: the counterexample of BlobPacked.tla with Concurrent = TRUE: the packer is parked before its meta
// batch (zip already stored); another client removes a still-loose chunk (acknowledged); the batch then
// re-creates the chunk's b: row: the removed chunk is served again.
func schedH23(lg *gate.Log, scratch string) error {
	rng := rand.New(rand.NewSource(23))
	content := make([]byte, 600<<10)
	rng.Read(content)
	rec := &recorder{data: map[blob.Ref][]byte{}}
	fileRef, err := schema.WriteFileFromReader(context.Background(), rec, "h23.bin", bytes.NewReader(content))
	if err != nil {
		return err
	}
	var specs []univ.Spec
	for _, br := range rec.order {
		specs = append(specs, univ.Spec{Hash: br.HashName(), Data: rec.data[br], Kind: "chunk"})
	}
	u := univ.New(specs)
	cfg, _ := stores.Parse("blobpacked")
	plan := gate.NewPlan()
	sc := gate.NewScheduler()
	env := &stores.Env{P: plan, D: stores.NewDurable(scratch), Rank: u.RankAny}
	sys, err := stores.Build(cfg, env)
	if err != nil {
		return err
	}
	r := &drv.Runner{U: u, Sto: sys.Sto, Caps: drv.Caps{CanRemove: true, SubFetch: "yes"}, NoQuiesce: true}
	reset := r.ResetEvent("blobpacked+sched:h23")
	reset["pre"] = []any{}
	lg.Emit(reset)
	var chunk int
	for _, br := range rec.order {
		if br == fileRef {
			continue
		}
		if chunk == 0 {
			chunk = u.RankOf(br)
		}
		do(r, lg, 1, drv.Op{Op: "receive", B: u.RankOf(br)})
	}
	plan.Sched = sc
	pk := asyncCall(r, lg, 1, drv.Op{Op: "receive", B: u.RankOf(fileRef)})
	// let the packer run up to (not including) its meta CommitBatch
	for {
		if err := sc.WaitParked("r", watch); err != nil {
			return fmt.Errorf("conformance: %v", err)
		}
		parked := sc.Parked()
		if len(parked) == 1 && parked[0] == "r.meta.CommitBatch" {
			break
		}
		if err := sc.Step(parked[0], watch); err != nil {
			return fmt.Errorf("conformance: %v", err)
		}
	}
	rm := asyncCall(r, lg, 2, drv.Op{Op: "remove", Bs: []int{chunk}})
	// the remover's lower calls: meta Get(s), small.RemoveBlobs
	for {
		select {
		case ev := <-rm:
			ev["ev"] = "ret"
			ev["c"] = 2
			lg.Emit(ev)
			goto removed
		default:
		}
		parked := sc.Parked()
		stepped := false
		for _, p := range parked {
			if p != "r.meta.CommitBatch" {
				if err := sc.Step(p, watch); err != nil {
					return fmt.Errorf("conformance: %v", err)
				}
				stepped = true
				break
			}
		}
		if !stepped {
			time.Sleep(200 * time.Microsecond)
		}
	}
removed:
	sc.Free()
	if err := finish(lg, 1, pk); err != nil {
		return err
	}
	r2 := &drv.Runner{U: u, Sto: sys.Sto, Caps: r.Caps}
	do(r2, lg, 1, drv.Op{Op: "fetch", B: chunk})
	do(r2, lg, 1, drv.Op{Op: "stat", Bs: []int{chunk}})
	return nil
}

type recorder struct {
	blobserver.Storage
	order []blob.Ref
	data  map[blob.Ref][]byte
}

func (r *recorder) ReceiveBlob(ctx context.Context, br blob.Ref, src io.Reader) (blob.SizedRef, error) {
	b, err := io.ReadAll(src)
	if err != nil {
		return blob.SizedRef{}, err
	}
	if _, dup := r.data[br]; !dup {
		r.order = append(r.order, br)
		r.data[br] = b
	}
	return blob.SizedRef{Ref: br, Size: uint32(len(b))}, nil
}

func (r *recorder) StatBlobs(ctx context.Context, blobs []blob.Ref, fn func(blob.SizedRef) error) error {
	for _, br := range blobs {
		if b, ok := r.data[br]; ok {
			if err := fn(blob.SizedRef{Ref: br, Size: uint32(len(b))}); err != nil {
				return err
			}
		}
	}
	return nil
}

func (r *recorder) Fetch(ctx context.Context, br blob.Ref) (io.ReadCloser, uint32, error) {
	b, ok := r.data[br]
	if !ok {
		return nil, 0, os.ErrNotExist
	}
	return io.NopCloser(bytes.NewReader(b)), uint32(len(b)), nil
}
