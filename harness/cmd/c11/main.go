//go:build verif

// c11 drives the real encrypt store (built by verif/stores over gate `blobs`
// = node r/0, gate `meta` = node r/1 and a gate KV index r.idx) through
// scenarios enumerated by EncryptGen.tla (or seeded random ones):
//
//	hist    long receive histories that cross the meta-compaction threshold,
//	        with client-view reads, restarts (index kept / wiped) at quiescent
//	        points; every mutating lower-layer call is logged so that
//	        Trace_Encrypt.tla follows the mechanism step by step;
//	long    histories past encrypt.FullMetaBlobSize (10000 lines in one packed
//	        meta blob): > 10100 receives, restarts at quiescent points, every
//	        acknowledged blob fetched after each restart. Runs of complete,
//	        undisturbed receive cycles are written as ONE "recvn" line (all the
//	        data of their lower-layer calls is in it), runs of fetches as one
//	        "fetchn" line; the calls of every compaction stay one line each;
//	crash   the process is frozen (Plan.FreezeAt) at a chosen lower-layer
//	        call around one compaction, the durable state is cloned, projected,
//	        restarted (index kept / wiped), observed and continued; optionally a
//	        second crash hits the compaction the restart itself starts;
//	fault   like crash, but the chosen lower-layer call returns an injected
//	        error ONCE (without effect, or after having taken effect) and the
//	        process goes on: projection and client view right after the failed
//	        call, further uploads through the next compaction, a restart (index
//	        kept / wiped), projection and client view again;
//	tamper  on a quiescent store one stored object is damaged or substituted
//	        directly in the gate MemStore, a fresh instance is built and every
//	        plain blob is fetched: exactly-original or an error.
//
// After every phase all bytes and all blob names stored in both gates are
// scanned for plaintext (any 16-byte window of any plain blob, every plain
// blobref as text, hex digest and raw digest). The Go side never decides
// anything: it projects real replies / real store contents into events.
package main

import (
	"bufio"
	"bytes"
	"encoding/hex"
	"encoding/json"
	"flag"
	"fmt"
	"hash/fnv"
	"io"
	"log"
	"math/rand"
	"os"
	"runtime"
	"runtime/debug"
	"runtime/pprof"
	"sort"
	"strconv"
	"strings"
	"sync"
	"sync/atomic"
	"time"

	"filippo.io/age"
	"perkeep.org/pkg/blob"
	"perkeep.org/pkg/blobserver/encrypt"

	"verif/drv"
	"verif/gate"
	"verif/stores"
	"verif/univ"
)

func fatal(err error) {
	fmt.Fprintln(os.Stderr, "c11:", err)
	os.Exit(2)
}

// ---------------------------------------------------------------- scenarios

type restartPt struct {
	At   int  `json:"at"`
	Wipe bool `json:"wipe"`
}

type scenario struct {
	Kind string `json:"kind"`
	// hist
	N        int         `json:"n,omitempty"`
	Restarts []restartPt `json:"restarts,omitempty"`
	// Jitter: seeded sleeps at every lower-layer call, and the receive that triggers the first compaction is the
	// blob with the smallest ref - the job's first index read then races with that receive's index.Set (the job
	// gives up when it loses: the small meta blobs stay, untracked, until the next start-up)
	Jitter bool `json:"jitter,omitempty"`
	// crash: Pre receives, then the next receive runs with FreezeAt = (calls so far) + K
	// where K is derived from the class At ("w3": third call of the window, "e2": second last, "m40": 40%).
	Pre    int    `json:"pre,omitempty"`
	At     string `json:"at,omitempty"`
	Wipe   bool   `json:"wipe"`
	Second string `json:"second,omitempty"` // "", or a class like At for the compaction started by the restart
	Cont   int    `json:"cont,omitempty"`
	// fault: the call chosen by At (same classes as crash) fails once. FK: "error" (no effect) | "after" (the call took
	// effect but reported an error); At = "rmpartial": RemoveBlobs removes half of the small meta blobs and fails
	FK string `json:"fk,omitempty"`
	// tamper
	Target string `json:"target,omitempty"` // blob | blobtiny | metasingle | metapacked
	TK     string `json:"tk,omitempty"`     // flip | trunc1 | trunchalf | extend | swap | xswap | forge
	Pos    string `json:"pos,omitempty"`    // flip: version | header | mac | body | last | all ; forge: own | other
	// explicit call offset (replay / random)
	K  int `json:"k,omitempty"`
	K2 int `json:"k2,omitempty"`
	// long: no macro lines - one line per lower-layer call over the whole history
	Raw bool `json:"raw,omitempty"`
}

// ---------------------------------------------------------------- ids of foreign refs

type idmap struct {
	mu  sync.Mutex
	m   map[string]int
	rev []string
}

func newIDs() *idmap { return &idmap{m: map[string]int{}, rev: []string{""}} }

func (x *idmap) id(ref string) int {
	x.mu.Lock()
	defer x.mu.Unlock()
	if v, ok := x.m[ref]; ok {
		return v
	}
	v := len(x.rev)
	x.m[ref] = v
	x.rev = append(x.rev, ref)
	return v
}

// ---------------------------------------------------------------- world

type world struct {
	u       *univ.Universe
	plan    *gate.Plan
	lg      *gate.Log
	dur     *stores.Durable
	sys     *stores.Sys
	r       *drv.Runner
	ids     *idmap
	lastSeq int64
}

var (
	cfgEnc, _ = stores.Parse("encrypt")
	scratch   string
)

func refText(br blob.Ref) any { return br.String() }

// open builds a (fresh or restarted) encrypt instance over dur. plan may carry a FreezeAt.
func open(u *univ.Universe, dur *stores.Durable, ids *idmap, wipe bool, plan *gate.Plan) (*world, error) {
	if dur == nil {
		dir, err := os.MkdirTemp(scratch, "w")
		if err != nil {
			return nil, err
		}
		dur = stores.NewDurable(dir)
	}
	if plan == nil {
		plan = gate.NewPlan()
	}
	w := &world{u: u, plan: plan, lg: gate.NewLog(), dur: dur, ids: ids}
	env := &stores.Env{P: plan, L: w.lg, D: dur, Rank: refText, Recover: wipe}
	sys, err := stores.Build(cfgEnc, env)
	if err != nil {
		return w, err
	}
	for _, g := range sys.Gates {
		g.Quiet = true // reads of the wrapped stores are not part of the trace
	}
	if kv := sys.KVs["r.idx"]; kv != nil {
		kv.Quiet = false // index misses decide between "duplicate" and "job gave up"
	}
	w.sys = sys
	w.r = &drv.Runner{U: u, Sto: sys.Sto, Caps: drv.Caps{CanRemove: false, ReadOnly: false, SubFetch: "no"}, NoQuiesce: true}
	return w, nil
}

// jobsRunning counts live makePackedMetaBlob goroutines (compaction is asynchronous and has no hook).
var stackBuf = make([]byte, 4<<20)

func jobsRunning() int {
	buf := stackBuf
	n := runtime.Stack(buf, true)
	// "created by ...recordMeta" is printed for the job goroutine from the moment the go statement ran (a goroutine
	// that has not been scheduled yet shows only the compiler's wrapper, not makePackedMetaBlob itself)
	return strings.Count(string(buf[:n]), "created by perkeep.org/pkg/blobserver/encrypt.(*storage).recordMeta")
}

func waitQuiet() {
	deadline := time.Now().Add(30 * time.Second)
	for jobsRunning() > 0 {
		if time.Now().After(deadline) {
			fatal(fmt.Errorf("compaction goroutine still running after 30 s (watchdog)"))
		}
		time.Sleep(100 * time.Microsecond)
	}
}

// ---------------------------------------------------------------- projections (harness holds the key)

func decrypt(id *age.X25519Identity, data []byte) ([]byte, error) {
	if len(data) == 0 || data[0] != 2 {
		return nil, fmt.Errorf("bad version byte")
	}
	r, err := age.Decrypt(bytes.NewReader(data[1:]), id)
	if err != nil {
		return nil, err
	}
	return io.ReadAll(r)
}

type entry struct {
	plain string
	size  int
	enc   string
}

func parseMeta(plain []byte) ([]entry, bool) {
	lines := strings.Split(string(plain), "\n")
	if len(lines) < 1 || lines[0] != "#camlistore/encmeta=2" {
		return nil, false
	}
	var out []entry
	for _, l := range lines[1:] {
		if l == "" {
			continue
		}
		p := strings.Split(l, "/")
		if len(p) != 3 {
			return nil, false
		}
		n, _ := strconv.Atoi(p[1])
		out = append(out, entry{p[0], n, p[2]})
	}
	return out, true
}

func (w *world) rankOfText(s string) int {
	br, ok := blob.Parse(s)
	if !ok {
		return 0
	}
	r := w.u.RankOf(br)
	if r < 0 {
		return 0
	}
	return r
}

// metaEntries decrypts the meta blob stored under ref (0 entries if it is gone or unreadable).
func (w *world) metaEntries(dur *stores.Durable, ref string) []entry {
	br, ok := blob.Parse(ref)
	if !ok {
		return nil
	}
	data, ok := dur.Mem["r/1"].Get(br)
	if !ok {
		return nil
	}
	pl, err := decrypt(dur.KeyID, data)
	if err != nil {
		return nil
	}
	es, _ := parseMeta(pl)
	return es
}

type projKey struct {
	key  *age.X25519Identity
	u    *univ.Universe
	data string
}

var (
	projMu    sync.Mutex
	projCache = map[projKey]int{}
)

// state projects the durable state: meta blobs with their entries, ciphertexts with the plain they decrypt to,
// index rows. Everything in ids / ranks.
func (w *world) state(dur *stores.Durable) (metas, enc, index []any) {
	metas, enc, index = []any{}, []any{}, []any{}
	for _, br := range dur.Mem["r/1"].Refs() {
		var ents []any
		type pc struct{ p, c int }
		var l []pc
		raw := w.metaEntries(dur, br.String())
		for _, e := range raw {
			l = append(l, pc{w.rankOfText(e.plain), w.ids.id(e.enc)})
		}
		sort.Slice(l, func(i, j int) bool { return l[i].p < l[j].p || l[i].p == l[j].p && l[i].c < l[j].c })
		ents = []any{}
		for i, e := range l {
			if i > 0 && l[i-1] == e {
				continue
			}
			ents = append(ents, []any{e.p, e.c})
		}
		// third component: the number of LINES of the meta blob (a re-packed overlap repeats lines; the code counts them)
		metas = append(metas, []any{w.ids.id(br.String()), ents, len(raw)})
	}
	// which plain blob a stored ciphertext decrypts to: a function of its bytes and the key only (remembered per key and
	// content, computed by a few workers - a long history has 10^4 of them and is projected several times)
	refs := dur.Mem["r/0"].Refs()
	ranks := make([]int, len(refs))
	plainOf := func(data []byte) int {
		p := 0
		if pl, err := decrypt(dur.KeyID, data); err == nil {
			h := blob.NewHash()
			h.Write(pl)
			p = w.u.RankOf(blob.RefFromHash(h))
			if p < 0 {
				// other hash functions of the universe
				for _, b := range w.u.Blobs {
					if bytes.Equal(b.Data, pl) {
						p = b.Rank
					}
				}
			}
			if p < 0 {
				p = 0
			}
		}
		return p
	}
	var wg sync.WaitGroup
	for k := 0; k < 6; k++ {
		wg.Add(1)
		go func(k int) {
			defer wg.Done()
			for i := k; i < len(refs); i += 6 {
				data, _ := dur.Mem["r/0"].Get(refs[i])
				key := projKey{dur.KeyID, w.u, string(data)}
				projMu.Lock()
				p, ok := projCache[key]
				projMu.Unlock()
				if !ok {
					p = plainOf(data)
					projMu.Lock()
					projCache[key] = p
					projMu.Unlock()
				}
				ranks[i] = p
			}
		}(k)
	}
	wg.Wait()
	for i, br := range refs {
		enc = append(enc, []any{w.ids.id(br.String()), ranks[i]})
	}
	if kv := dur.KV["r.idx"]; kv != nil {
		rows := gate.Dump(kv)
		var keys []string
		for k := range rows {
			keys = append(keys, k)
		}
		sort.Strings(keys)
		for _, k := range keys {
			_, encRef, _ := strings.Cut(rows[k], "/")
			index = append(index, []any{w.rankOfText(k), w.ids.id(encRef)})
		}
	}
	return
}

// ---------------------------------------------------------------- lower-layer events

func lowerLine(act string) gate.Event {
	return gate.Event{"ev": "lower", "act": act, "res": "ok", "id": 0, "np": 0, "ids": []any{}, "p": 0, "c": 0}
}

// drain translates the gate log since the last drain into trace lines. inRecv: a ReceiveBlob is (was) in
// flight, so index misses matter.
func (w *world) drain(emit func(gate.Event), inRecv bool) {
	evs := w.lg.Events()
	first := len(evs)
	for first > 0 {
		if seq, _ := evs[first-1]["seq"].(int64); seq <= w.lastSeq {
			break
		}
		first--
	}
	for _, ev := range evs[first:] {
		seq, _ := ev["seq"].(int64)
		w.lastSeq = seq
		layer, _ := ev["layer"].(string)
		call, _ := ev["call"].(string)
		res, _ := ev["res"].(string)
		switch {
		case layer == "r/0" && call == "ReceiveBlob" && res == "ok":
			l := lowerLine("blobput")
			l["id"] = w.ids.id(ev["b"].(string))
			emit(l)
		case layer == "r/1" && call == "ReceiveBlob" && res == "ok":
			l := lowerLine("metaput")
			ref := ev["b"].(string)
			l["id"] = w.ids.id(ref)
			l["np"] = len(w.metaEntries(w.dur, ref))
			emit(l)
		case (layer == "r/0" || layer == "r/1") && call == "ReceiveBlob" && (res == "injected" || res == "injected-after"):
			// the call failed on an injected error; "injected": nothing was stored (no id is spent on the name, no line
			// count is known), "injected-after": the object is there all the same
			l := lowerLine(map[string]string{"r/0": "blobput", "r/1": "metaput"}[layer])
			l["res"] = res
			if res == "injected-after" {
				ref := ev["b"].(string)
				l["id"] = w.ids.id(ref)
				if layer == "r/1" {
					l["np"] = len(w.metaEntries(w.dur, ref))
				}
			}
			emit(l)
		case layer == "r/1" && call == "RemoveBlobs" && (res == "injected" || res == "injected-after"):
			l := lowerLine("metadel")
			l["res"] = res
			var ids []int
			for _, b := range ev["bs"].([]any) {
				ids = append(ids, w.ids.id(b.(string)))
			}
			sort.Ints(ids)
			l["ids"] = intsAny(ids)
			emit(l)
		case layer == "r.idx" && call == "Set" && (res == "injected" || res == "injected-after"):
			l := lowerLine("idxset")
			l["res"] = res
			l["p"] = w.rankOfText(ev["k"].(string))
			if v, ok := ev["v"].(string); ok {
				_, encRef, _ := strings.Cut(v, "/")
				l["c"] = w.ids.id(encRef)
			}
			emit(l)
		case layer == "r.idx" && call == "Get" && res == "injected":
			l := lowerLine("idxget")
			l["res"] = res
			l["p"] = w.rankOfText(ev["k"].(string))
			emit(l)
		case layer == "r/1" && call == "RemoveBlobs" && (res == "ok" || res == "injected-partial"):
			l := lowerLine("metadel")
			key := "bs"
			if res == "injected-partial" {
				key = "done"
				l["res"] = "partial"
			}
			var ids []int
			for _, b := range ev[key].([]any) {
				ids = append(ids, w.ids.id(b.(string)))
			}
			sort.Ints(ids)
			l["ids"] = intsAny(ids)
			emit(l)
		case layer == "r/0" && call == "RemoveBlobs":
			l := lowerLine("blobdel") // never expected: the spec has no such action
			emit(l)
		case layer == "r.idx" && call == "Set" && res == "ok":
			l := lowerLine("idxset")
			l["p"] = w.rankOfText(ev["k"].(string))
			_, encRef, _ := strings.Cut(ev["v"].(string), "/")
			l["c"] = w.ids.id(encRef)
			emit(l)
		case layer == "r.idx" && call == "Get" && res == "notfound" && inRecv:
			l := lowerLine("idxmiss")
			l["p"] = w.rankOfText(ev["k"].(string))
			emit(l)
		case layer == "r.idx" && (call == "Delete" || call == "CommitBatch"):
			emit(lowerLine("idxother"))
		}
	}
}

func intsAny(x []int) []any {
	out := make([]any, len(x))
	for i, v := range x {
		out[i] = v
	}
	return out
}

// ---------------------------------------------------------------- leak scan

type leakScan struct {
	win   map[[16]byte]string
	names map[string]string
}

func newLeakScan(u *univ.Universe) *leakScan {
	ls := &leakScan{win: map[[16]byte]string{}, names: map[string]string{}}
	add := func(b []byte, label string) {
		for i := 0; i+16 <= len(b); i++ {
			var k [16]byte
			copy(k[:], b[i:i+16])
			if _, dup := ls.win[k]; !dup {
				ls.win[k] = label
			}
		}
	}
	for _, b := range u.Blobs {
		if !strings.HasPrefix(b.Kind, "crafted") { // the crafted blob is made of (public) names of the wrapped store
			add(b.Data, fmt.Sprintf("data:%d", b.Rank))
		}
		ref := b.Ref.String()
		ls.names[ref] = fmt.Sprintf("refname:%d", b.Rank)
		if _, hx, ok := strings.Cut(ref, "-"); ok {
			add([]byte(hx), fmt.Sprintf("refhex:%d", b.Rank))
			add([]byte(strings.ToUpper(hx)), fmt.Sprintf("refhex:%d", b.Rank))
			if raw, err := hex.DecodeString(hx); err == nil {
				add(raw, fmt.Sprintf("refraw:%d", b.Rank))
			}
		}
	}
	return ls
}

func (ls *leakScan) scan(dur *stores.Durable, phase string) gate.Event {
	found := map[string]bool{}
	nbytes, nnames := 0, 0
	slide := func(b []byte, where string) {
		var k [16]byte
		for i := 0; i+16 <= len(b); i++ {
			copy(k[:], b[i:i+16])
			if lab, ok := ls.win[k]; ok {
				found[where+"/"+lab] = true
			}
		}
	}
	for _, node := range []string{"r/0", "r/1"} {
		m := dur.Mem[node]
		if m == nil {
			continue
		}
		for name, data := range m.All() {
			nnames++
			nbytes += len(data)
			if lab, ok := ls.names[name]; ok {
				found[node+":name/"+lab] = true
			}
			slide([]byte(name), node+":name")
			slide(data, node+":bytes")
		}
	}
	var f []string
	for k := range found {
		f = append(f, k)
	}
	sort.Strings(f)
	if len(f) > 8 {
		f = f[:8]
	}
	fa := []any{}
	for _, s := range f {
		fa = append(fa, s)
	}
	return gate.Event{"ev": "leak", "phase": phase, "found": fa, "bytes": nbytes, "names": nnames}
}

// ---------------------------------------------------------------- segment plumbing

type segment struct {
	evs []gate.Event
}

func (s *segment) emit(ev gate.Event) {
	if ev["ev"] == "op" {
		if _, ok := ev["flt"]; !ok {
			ev["flt"] = false
		}
		delete(ev, "detail2")
	}
	s.evs = append(s.evs, ev)
}

var (
	out     *bufio.Writer
	nSeg    int
	classes = map[string]int{}
	stats   = map[string]int{}
)

func (s *segment) flush() {
	for _, ev := range s.evs {
		delete(ev, "seq")
		b, err := json.Marshal(ev)
		if err != nil {
			fatal(err)
		}
		out.Write(b)
		out.WriteByte('\n')
	}
	nSeg++
}

func universe(rng *rand.Rand, n int, extra ...univ.Spec) *univ.Universe {
	var specs []univ.Spec
	for i := 0; i < n; i++ {
		var data []byte
		switch {
		case i%53 == 7:
			data = []byte{} // tiny blobs: leak-checked by ref only
			if i > 60 {
				data = []byte{byte(i), byte(i >> 8), 'x'}
			}
		case i%53 == 19:
			data = []byte{byte('a' + i%26)}
		default:
			data = make([]byte, 32+rng.Intn(48))
			rng.Read(data)
		}
		h := "sha224"
		if i%41 == 5 {
			h = "sha1"
		} else if i%41 == 23 {
			h = "sha256"
		}
		specs = append(specs, univ.Spec{Hash: h, Data: data, Kind: "rnd"})
	}
	specs = append(specs, extra...)
	// duplicates (two empty blobs) would panic in univ.New: make tiny ones distinct - in their bytes, whatever the hash
	// function of their ref (the projection tells the plain blob of a ciphertext by the bytes it decrypts to)
	seen := map[string]bool{}
	for i := range specs {
		k := string(specs[i].Data)
		for seen[k] {
			specs[i].Data = append(specs[i].Data, byte('A'+i%26), byte(i))
			k = string(specs[i].Data)
		}
		seen[k] = true
	}
	return univ.New(specs)
}

func resetEvent(w *world, scn *scenario, label string, pre []int) gate.Event {
	ev := w.r.ResetEvent("encrypt")
	delete(ev, "kinds")
	ev["scn"] = scn
	ev["label"] = label
	ev["pre"] = intsAny(pre)
	ev["kind"] = scn.Kind
	return ev
}

// observe: the client view - stat of everything, enumerate (one page, then pages of 97 following the cursor),
// fetch of every blob in `fetch` plus a few that were never received, RemoveBlobs (not implemented = refused).
func observe(w *world, seg *segment, fetch []int, light bool) {
	var all []int
	for _, b := range w.u.Blobs {
		all = append(all, b.Rank)
	}
	do := func(op drv.Op) gate.Event {
		ev := w.r.Do(op)
		w.drain(seg.emit, false)
		seg.emit(ev)
		return ev
	}
	do(drv.Op{Op: "stat", Bs: all})
	do(drv.Op{Op: "enum", After: 0, Limit: len(all) + 5})
	if !light {
		cur := 0
		for step := 0; step < 8; step++ {
			ev := do(drv.Op{Op: "enum", After: cur, Limit: 97, Form: step % 3})
			lst, _ := ev["list"].([]any)
			if ev["res"] != "ok" || len(lst) == 0 {
				break
			}
			last := lst[len(lst)-1].([]any)[0].(int)
			if last <= cur || last%2 != 0 {
				break
			}
			cur = last
		}
		do(drv.Op{Op: "enum", After: 2*len(all)/2 + 1, Limit: 3})
	}
	for _, b := range fetch {
		do(drv.Op{Op: "fetch", B: b})
	}
	if !light && len(fetch) > 0 {
		do(drv.Op{Op: "remove", Bs: []int{fetch[0]}})
		do(drv.Op{Op: "fetch", B: fetch[0]})
		if fetch[0] != all[len(all)-1] {
			do(drv.Op{Op: "stat", Bs: []int{fetch[0], all[len(all)-1]}})
		}
	}
}

func (w *world) stateLine(dur *stores.Durable, kind string) gate.Event {
	m, e, ix := w.state(dur)
	return gate.Event{"ev": kind, "metas": m, "enc": e, "index": ix, "exact": true, "class": "", "nextid": len(w.ids.rev)}
}

// receive runs one ReceiveBlob through the real store and emits lower lines and the op line.
func receive(w *world, seg *segment, rank int) gate.Event {
	ev := w.r.Do(drv.Op{Op: "receive", B: rank})
	w.drain(seg.emit, true)
	seg.emit(ev)
	return ev
}

// restart builds a fresh instance over dur; emits the restart line (with the compaction groups the start-up
// scan formed, known once the jobs have finished), the jobs' lower lines and a state line.
func restart(w0 *world, seg *segment, dur *stores.Durable, wipe bool, plan *gate.Plan) (*world, bool) {
	w, err := open(w0.u, dur, w0.ids, wipe, plan)
	line := gate.Event{"ev": "restart", "wipe": wipe, "res": "ok", "groups": []any{}, "frozen": false}
	if err != nil {
		waitQuiet()
		line["res"] = "failed"
		line["detail"] = err.Error()
		line["frozen"] = w.plan.Frozen()
		seg.emit(line)
		return w, false
	}
	waitQuiet()
	var lower []gate.Event
	w.drain(func(e gate.Event) { lower = append(lower, e) }, false)
	groups := []any{}
	for _, e := range lower {
		if e["act"] == "metadel" {
			groups = append(groups, e["ids"])
		}
	}
	line["groups"] = groups
	line["frozen"] = w.plan.Frozen()
	seg.emit(line)
	for _, e := range lower {
		// a start-up cut by a crash is judged by the projection of the durable state in the crash line
		if (e["act"] == "metaput" || e["act"] == "metadel") && line["frozen"] == false {
			seg.emit(e)
		}
	}
	return w, true
}

// ---------------------------------------------------------------- hist

func runHist(scn *scenario, rng *rand.Rand) {
	u := universe(rng, scn.N+3)
	scan := newLeakScan(u)
	ids := newIDs()
	w, err := open(u, nil, ids, false, nil)
	if err != nil {
		fatal(err)
	}
	seg := &segment{}
	seg.emit(resetEvent(w, scn, fmt.Sprintf("hist/n=%d/restarts=%d", scn.N, len(scn.Restarts)), nil))
	order := rng.Perm(scn.N + 3)[:scn.N]
	if scn.Jitter {
		// blob 0 (smallest ref) is the 101st and, if the first job gave up, again the one that triggers the next job
		lim := encrypt.SmallMetaCountLimit
		if lim < len(order) {
			for i, bi := range order {
				if bi == 0 {
					order[i], order[lim] = order[lim], order[i]
				}
			}
			if order[lim] != 0 {
				order[lim] = 0
			}
		}
		var ctr uint32
		w.plan.Jitter = func() {
			x := atomic.AddUint32(&ctr, 1) * 2654435761
			x ^= x >> 15
			x *= 2246822519
			x ^= x >> 13
			time.Sleep(time.Duration(x%6) * 100 * time.Microsecond)
		}
	}
	var got []int
	rp := map[int]restartPt{}
	for _, r := range scn.Restarts {
		rp[r.At] = r
	}
	for i, bi := range order {
		rank := u.Blobs[bi].Rank
		receive(w, seg, rank)
		got = append(got, rank)
		n := i + 1
		// the map semantics through compaction: reads while the job may be running
		if n == 99 || n == 101 || n == 102 || n == 201 || n == 202 || n%37 == 0 {
			ev := w.r.Do(drv.Op{Op: "fetch", B: got[rng.Intn(len(got))]})
			w.drain(seg.emit, false)
			seg.emit(ev)
			ev = w.r.Do(drv.Op{Op: "enum", After: 2 * rng.Intn(len(u.Blobs)), Limit: 1 + rng.Intn(5)})
			w.drain(seg.emit, false)
			seg.emit(ev)
			sb := []int{rank, u.Blobs[order[(i+1)%len(order)]].Rank}
			if x := got[rng.Intn(len(got))]; x != sb[0] && x != sb[1] {
				sb = append(sb, x)
			}
			ev = w.r.Do(drv.Op{Op: "stat", Bs: sb})
			w.drain(seg.emit, false)
			seg.emit(ev)
		}
		if n == 50 {
			// a duplicate receive: acknowledged without any lower-layer write
			receive(w, seg, got[3])
		}
		if r, ok := rp[n]; ok {
			waitQuiet()
			w.drain(seg.emit, false)
			seg.emit(scan.scan(w.dur, fmt.Sprintf("before-restart@%d", n)))
			seg.emit(w.stateLine(w.dur, "state"))
			w.sys.Close()
			w2, ok := restart(w, seg, w.dur, r.Wipe, nil)
			if !ok {
				seg.flush()
				classes["hist/restart-failed"]++
				return
			}
			w = w2
			seg.emit(w.stateLine(w.dur, "state"))
			observe(w, seg, got, n > 150)
		}
	}
	waitQuiet()
	w.drain(seg.emit, false)
	seg.emit(scan.scan(w.dur, "end"))
	seg.emit(w.stateLine(w.dur, "state"))
	observe(w, seg, got, false)
	if len(scn.Restarts) == 0 {
		key := "metas_at_end:" + strconv.Itoa(scn.N)
		if scn.Jitter {
			key += ":first-job-gave-up"
		}
		stats[key] = w.dur.Mem["r/1"].Len()
	}
	// and the store is recoverable from the wrapped stores alone
	w.sys.Close()
	w2, ok := restart(w, seg, w.dur, true, nil)
	if ok {
		seg.emit(w2.stateLine(w2.dur, "state"))
		observe(w2, seg, got, true)
		w2.sys.Close()
	}
	seg.flush()
	classes[fmt.Sprintf("hist/n=%d/r=%d", scn.N, len(scn.Restarts))]++
}

// ---------------------------------------------------------------- long (past FullMetaBlobSize)

// packer folds runs of complete receive cycles into "recvn" lines. A cycle is exactly the five lines a receive of a new
// blob produces when nothing else falls in between: idxmiss(p), blobput(id), metaput(id, one line), idxset(p, c),
// op receive ok (b = p). Anything else ends the run and is passed through unchanged (so are the lines of a cycle that
// a compaction's call fell into). Pure re-packing of recorded lines: nothing is computed or expected here.
type packer struct {
	seg             *segment
	cyc             []gate.Event
	ps, cs, ms, szs []any
	raw             [][]gate.Event // the cycles of the open run, should it stay too short to be worth a macro line
	cycles, runs    int
	maxNp           int // lines of the largest meta blob uploaded
}

func (pk *packer) matches(e gate.Event) bool {
	pos := len(pk.cyc)
	if pos < 4 && e["ev"] != "lower" {
		return false
	}
	switch pos {
	case 0:
		return e["act"] == "idxmiss"
	case 1:
		return e["act"] == "blobput"
	case 2:
		return e["act"] == "metaput" && e["np"] == 1
	case 3:
		return e["act"] == "idxset" && e["p"] == pk.cyc[0]["p"] && e["c"] == pk.cyc[1]["id"]
	case 4:
		return e["ev"] == "op" && e["op"] == "receive" && e["res"] == "ok" && e["b"] == pk.cyc[0]["p"] && e["flt"] != true
	}
	return false
}

// -longraw: no macro lines (measurement aid: one line per lower-layer call over the whole history)
var longRaw bool

func (pk *packer) flushRun() {
	if len(pk.ps) >= 3 && !longRaw {
		pk.seg.emit(gate.Event{"ev": "recvn", "ps": pk.ps, "cs": pk.cs, "ms": pk.ms, "szs": pk.szs})
		pk.cycles += len(pk.ps)
		pk.runs++
	} else {
		for _, c := range pk.raw {
			for _, e := range c {
				pk.seg.emit(e)
			}
		}
	}
	pk.ps, pk.cs, pk.ms, pk.szs, pk.raw = nil, nil, nil, nil, nil
}

func (pk *packer) flush() {
	pk.flushRun()
	for _, e := range pk.cyc {
		pk.seg.emit(e)
	}
	pk.cyc = nil
}

func (pk *packer) emit(e gate.Event) {
	if np, ok := e["np"].(int); ok && e["act"] == "metaput" && np > pk.maxNp {
		pk.maxNp = np
	}
	if !pk.matches(e) {
		pk.flush()
		if !pk.matches(e) {
			pk.seg.emit(e)
			return
		}
	}
	pk.cyc = append(pk.cyc, e)
	if len(pk.cyc) == 5 {
		c := pk.cyc
		pk.ps = append(pk.ps, c[0]["p"])
		pk.cs = append(pk.cs, c[1]["id"])
		pk.ms = append(pk.ms, c[2]["id"])
		pk.szs = append(pk.szs, c[4]["size"])
		pk.raw = append(pk.raw, c)
		pk.cyc = nil
	}
}

// sampled leak scan: the plaintext windows / names of every step-th blob are searched in everything stored
func newLeakScanSample(u *univ.Universe, step int) *leakScan {
	var specs []univ.Blob
	for i, b := range u.Blobs {
		if i%step == 0 {
			specs = append(specs, b)
		}
	}
	return newLeakScan(&univ.Universe{Blobs: specs})
}

// observeLong: the client view after a restart - stat of everything, one enumeration of everything, pages following the
// cursor, a fetch of EVERY blob (acknowledged ones and the few never received) as one "fetchn" line.
func observeLong(w *world, seg *segment, everyFetch int) {
	var all []int
	for _, b := range w.u.Blobs {
		all = append(all, b.Rank)
	}
	do := func(op drv.Op) gate.Event {
		ev := w.r.Do(op)
		w.drain(seg.emit, false)
		seg.emit(ev)
		return ev
	}
	do(drv.Op{Op: "stat", Bs: all})
	do(drv.Op{Op: "enum", After: 0, Limit: len(all) + 5})
	cur := 0
	for step := 0; step < 3; step++ {
		ev := do(drv.Op{Op: "enum", After: cur, Limit: 997, Form: step % 3})
		lst, _ := ev["list"].([]any)
		if ev["res"] != "ok" || len(lst) == 0 {
			break
		}
		last := lst[len(lst)-1].([]any)[0].(int)
		if last <= cur || last%2 != 0 {
			break
		}
		cur = last
	}
	var bs []int
	for i, b := range all {
		if i%everyFetch == 0 {
			bs = append(bs, b)
		}
	}
	seg.emit(fetchN(w, bs, seg.emit))
}

// fetchN fetches the blobs bs (a few workers) and reports every result class and size in one line.
func fetchN(w *world, bs []int, emit func(gate.Event)) gate.Event {
	w.drain(emit, false)
	defer w.drain(emit, false) // (index misses of fetches are no part of the trace)
	outc := make([]any, len(bs))
	var wg sync.WaitGroup
	for k := 0; k < 6; k++ {
		wg.Add(1)
		go func(k int) {
			defer wg.Done()
			for i := k; i < len(bs); i += 6 {
				ev := w.r.Do(drv.Op{Op: "fetch", B: bs[i]})
				outc[i] = []any{ev["res"], ev["size"]}
			}
		}(k)
	}
	wg.Wait()
	return gate.Event{"ev": "fetchn", "bs": intsAny(bs), "out": outc}
}

func runLong(scn *scenario, rng *rand.Rand) {
	// 10^6 gate events (the jobs' index reads) are garbage a moment later
	defer debug.SetGCPercent(debug.SetGCPercent(400))
	tu := time.Now()
	u := universe(rng, scn.N+3)
	scan := newLeakScanSample(u, 50)
	stats["long_ms_universe"] += int(time.Since(tu) / time.Millisecond)
	ids := newIDs()
	w, err := open(u, nil, ids, false, nil)
	if err != nil {
		fatal(err)
	}
	seg := &segment{}
	seg.emit(resetEvent(w, scn, fmt.Sprintf("long/n=%d/restarts=%d", scn.N, len(scn.Restarts)), nil))
	pk := &packer{seg: seg}
	longRaw = longRaw || scn.Raw
	order := rng.Perm(scn.N + 3)[:scn.N]
	rp := map[int]restartPt{}
	for _, r := range scn.Restarts {
		rp[r.At] = r
	}
	var got []int
	t0 := time.Now()
	lap := func(k string) {
		stats["long_ms_"+k] += int(time.Since(t0) / time.Millisecond)
		t0 = time.Now()
	}
	for i, bi := range order {
		rank := u.Blobs[bi].Rank
		ev := w.r.Do(drv.Op{Op: "receive", B: rank})
		w.drain(pk.emit, true)
		if _, ok := ev["flt"]; !ok {
			ev["flt"] = false
		}
		pk.emit(ev)
		got = append(got, rank)
		n := i + 1
		if jobsRunning() == 0 {
			// nobody else is logging: everything has been drained, forget it (the gate log would grow to 10^6 events)
			w.drain(pk.emit, false)
			w.lg.Reset()
		}
		if n%1000 == 500 {
			// the map semantics while the history grows
			pk.flush()
			fb := []int{got[rng.Intn(len(got))], rank, got[0]}
			for _, bi2 := range rng.Perm(len(u.Blobs))[:2] {
				fb = append(fb, u.Blobs[bi2].Rank) // most likely not received yet
			}
			pk.emit(fetchN(w, fb, pk.emit))
			for _, op := range []drv.Op{{Op: "enum", After: 2 * rng.Intn(len(u.Blobs)), Limit: 1 + rng.Intn(5)},
				{Op: "stat", Bs: []int{rank, got[rng.Intn(len(got))], u.Blobs[order[(i+1)%len(order)]].Rank}}} {
				if op.Op == "stat" && (op.Bs[0] == op.Bs[1] || op.Bs[1] == op.Bs[2]) {
					op.Bs = op.Bs[:1]
				}
				ev := w.r.Do(op)
				w.drain(pk.emit, false)
				pk.emit(ev)
			}
		}
		if r, ok := rp[n]; ok {
			waitQuiet()
			w.drain(pk.emit, false)
			pk.flush()
			lap("receives")
			seg.emit(scan.scan(w.dur, fmt.Sprintf("before-restart@%d", n)))
			lap("leak")
			seg.emit(w.stateLine(w.dur, "state"))
			lap("state")
			w.sys.Close()
			w2, ok := restart(w, seg, w.dur, r.Wipe, nil)
			if !ok {
				seg.flush()
				classes["long/restart-failed"]++
				return
			}
			w = w2
			lap("restart")
			seg.emit(w.stateLine(w.dur, "state"))
			lap("state")
			observeLong(w, seg, 1)
			lap("observe")
		}
	}
	waitQuiet()
	w.drain(pk.emit, false)
	pk.flush()
	lap("receives")
	seg.emit(scan.scan(w.dur, "end"))
	lap("leak")
	seg.emit(w.stateLine(w.dur, "state"))
	lap("state")
	observeLong(w, seg, 7)
	lap("observe")
	// and every acknowledged blob is recoverable from the wrapped stores alone
	w.sys.Close()
	w2, ok := restart(w, seg, w.dur, true, nil)
	lap("restart")
	if ok {
		seg.emit(w2.stateLine(w2.dur, "state"))
		lap("state")
		observeLong(w2, seg, 1)
		lap("observe")
		w2.sys.Close()
	}
	seg.flush()
	lap("write")
	stats["long_max_lines_in_a_meta_blob"] = max(stats["long_max_lines_in_a_meta_blob"], pk.maxNp)
	stats["long_cycles_in_macro_lines"] += pk.cycles
	stats["long_macro_lines"] += pk.runs
	// the largest meta blob uploaded: once it has Full - Limit lines the next compaction has more than Full lines to deal with
	cls := "long/below-full"
	if pk.maxNp >= encrypt.FullMetaBlobSize-encrypt.SmallMetaCountLimit {
		cls = "long/reached-full"
	}
	classes[fmt.Sprintf("%s/n=%d/r=%d", cls, scn.N, len(scn.Restarts))]++
}

// ---------------------------------------------------------------- crash

// window: lower-layer call sequence of the receive that triggers the compaction (dry run), until quiescence.
var winSeq []string // the window of the dry run: "layer.call" of every lower-layer call

func dryWindow(rng *rand.Rand, pre int) []string {
	var seq []string
	// a job that lost the race for the index row of the receive that started it gives up: that window has no upload and
	// no removal to aim at - look at another one
	for try := 0; try < 4; try++ {
		seq = dryWindow1(rng, pre)
		for _, c := range seq {
			if c == "r/1.RemoveBlobs" {
				return seq
			}
		}
	}
	return seq
}

func dryWindow1(rng *rand.Rand, pre int) []string {
	u := universe(rng, pre+2)
	w, err := open(u, nil, newIDs(), false, nil)
	if err != nil {
		fatal(err)
	}
	for i := 0; i < pre; i++ {
		w.r.Do(drv.Op{Op: "receive", B: u.Blobs[i].Rank})
	}
	waitQuiet()
	w.plan.RecordSeq = true
	w.r.Do(drv.Op{Op: "receive", B: u.Blobs[pre].Rank})
	waitQuiet()
	seq := w.plan.Seq()
	w.sys.Close()
	return seq
}

func classK(at string, wlen int) int {
	if at == "" {
		return 0
	}
	n, _ := strconv.Atoi(at[1:])
	switch at[0] {
	case 'w':
		return n
	case 'e':
		return wlen + 1 - n // e0 = one past the end (nothing frozen), e1 = last call, ...
	case 'm':
		return 1 + wlen*n/100
	}
	return 0
}

func callClass(c string) string {
	switch c {
	case "r/0.ReceiveBlob":
		return "blobs.put"
	case "r/1.ReceiveBlob":
		return "meta.put"
	case "r/1.RemoveBlobs":
		return "meta.del"
	case "r.idx.Set":
		return "idx.set"
	case "r.idx.Get":
		return "idx.get"
	case "r/1.EnumerateBlobs":
		return "meta.enum"
	case "r/1.Fetch":
		return "meta.fetch"
	}
	return c
}

func runCrash(scn *scenario, rng *rand.Rand, win1 int) {
	pre := scn.Pre
	u := universe(rng, pre+scn.Cont+4)
	scan := newLeakScan(u)
	ids := newIDs()
	w, err := open(u, nil, ids, false, nil)
	if err != nil {
		fatal(err)
	}
	seg := &segment{}
	reset := resetEvent(w, scn, "", nil)
	seg.emit(reset)
	var got []int
	for i := 0; i < pre; i++ {
		ev := receive(w, seg, u.Blobs[i].Rank)
		if ev["res"] == "ok" {
			got = append(got, u.Blobs[i].Rank)
		}
	}
	waitQuiet()
	w.drain(seg.emit, false)
	k := scn.K
	if k == 0 {
		k = classK(scn.At, win1)
	}
	c0 := w.plan.Calls()
	w.plan.RecordSeq = true
	if scn.At == "rmpartial" {
		// the process dies half way through the RemoveBlobs of the small meta blobs
		w.plan.Faults = []*gate.Fault{{Layer: "r/1", Call: "RemoveBlobs", N: 1, Kind: "partial"}}
		k = 1 << 30
	} else {
		w.plan.FreezeAt = c0 + k
	}
	victim := u.Blobs[pre].Rank
	ev := w.r.Do(drv.Op{Op: "receive", B: victim})
	waitQuiet()
	w.plan.Freeze()
	seq := w.plan.Seq()
	cls := "end"
	if scn.At == "rmpartial" {
		cls = "meta.del:partial"
		if w.plan.HitCount() == 0 {
			cls = "end(no-compaction)"
		}
	} else if k-1 < len(seq) {
		cls = callClass(seq[k-1])
		// ordinal of the frozen call among the calls of the same kind in the window
		ord := 0
		for _, c := range seq[:k] {
			if callClass(c) == cls {
				ord++
			}
		}
		if cls == "meta.put" {
			cls = []string{"", "meta.put:single", "meta.put:packed"}[min(ord, 2)]
		} else if cls == "idx.get" {
			if ord == 1 {
				cls = "idx.get:dupcheck"
			} else {
				cls = "idx.get:job"
			}
		}
	}
	w.drain(seg.emit, true)
	if ev["res"] == "ok" {
		got = append(got, victim)
	} else {
		ev["flt"] = true
	}
	seg.emit(ev)
	w.sys.Close()
	dur, err := w.dur.Clone()
	if err != nil {
		fatal(err)
	}
	cl := w.stateLine(dur, "crash")
	cl["class"] = cls
	cl["k"] = k
	seg.emit(scan.scan(dur, "crash@"+cls))
	seg.emit(cl)
	label := fmt.Sprintf("crash@%s/wipe=%v", cls, scn.Wipe)
	// restart; optionally a second crash in the compaction the restart starts
	var plan2 *gate.Plan
	if scn.Second != "" || scn.K2 > 0 {
		// dry run of the restart on a clone to learn its call sequence
		d2, err := dur.Clone()
		if err != nil {
			fatal(err)
		}
		pd := gate.NewPlan()
		pd.RecordSeq = true
		wd, err := open(u, d2, newIDs(), scn.Wipe, pd)
		if err == nil {
			waitQuiet()
			wd.sys.Close()
		}
		k2 := scn.K2
		if k2 == 0 {
			k2 = classK(scn.Second, len(pd.Seq()))
		}
		plan2 = gate.NewPlan()
		plan2.RecordSeq = true
		plan2.FreezeAt = k2
		w2, ok := restart(w, seg, dur, scn.Wipe, plan2)
		waitQuiet()
		plan2.Freeze()
		seq2 := plan2.Seq()
		cls2 := "end"
		if k2-1 < len(seq2) && k2 >= 1 {
			cls2 = callClass(seq2[k2-1])
		}
		label += "/second@" + cls2
		if ok {
			w2.sys.Close()
		}
		dur3, err := dur.Clone()
		if err != nil {
			fatal(err)
		}
		cl2 := w.stateLine(dur3, "crash")
		cl2["class"] = cls2
		cl2["exact"] = false
		seg.emit(scan.scan(dur3, "crash2@"+cls2))
		seg.emit(cl2)
		dur = dur3
	}
	reset["label"] = label
	w3, ok := restart(w, seg, dur, scn.Wipe, nil)
	if !ok {
		seg.flush()
		classes[label+"/restart-failed"]++
		return
	}
	seg.emit(w3.stateLine(w3.dur, "state"))
	observe(w3, seg, append(append([]int{}, got...), victim), false)
	// the client retries the interrupted upload and continues through the next compaction
	for i := pre; i < pre+scn.Cont; i++ {
		ev := receive(w3, seg, u.Blobs[i].Rank)
		if ev["res"] == "ok" && (i > pre || got[len(got)-1] != victim) {
			got = append(got, u.Blobs[i].Rank)
		}
	}
	waitQuiet()
	w3.drain(seg.emit, false)
	if scn.Cont > 0 {
		seg.emit(scan.scan(w3.dur, "continued"))
		seg.emit(w3.stateLine(w3.dur, "state"))
		observe(w3, seg, got, true)
		// recoverable again from the wrapped stores alone
		w3.sys.Close()
		w4, ok := restart(w3, seg, w3.dur, true, nil)
		if ok {
			seg.emit(w4.stateLine(w4.dur, "state"))
			observe(w4, seg, got, true)
			w4.sys.Close()
		}
	} else {
		w3.sys.Close()
	}
	seg.flush()
	classes[label]++
}

// ---------------------------------------------------------------- fault

// runFault: the k-th lower-layer call of the window (the receive that triggers the compaction, and the job it starts;
// same classes as runCrash) returns an injected error once - translated into "the ord-th call of that layer and kind
// from now on", which stays the same call however the job's index reads interleave with the receive's index.Set - and
// the process goes on.
func runFault(scn *scenario, rng *rand.Rand) {
	pre := scn.Pre
	u := universe(rng, pre+scn.Cont+4)
	scan := newLeakScan(u)
	ids := newIDs()
	w, err := open(u, nil, ids, false, nil)
	if err != nil {
		fatal(err)
	}
	seg := &segment{}
	reset := resetEvent(w, scn, "", nil)
	seg.emit(reset)
	var got []int
	have := map[int]bool{}
	ack := func(ev gate.Event, rank int) {
		if ev["res"] == "ok" && !have[rank] {
			have[rank] = true
			got = append(got, rank)
		}
	}
	for i := 0; i < pre; i++ {
		ack(receive(w, seg, u.Blobs[i].Rank), u.Blobs[i].Rank)
	}
	waitQuiet()
	w.drain(seg.emit, false)
	k := scn.K
	if k == 0 {
		k = classK(scn.At, len(winSeq))
	}
	kind := scn.FK
	if kind != "after" {
		kind = "error"
	}
	var flt *gate.Fault
	if scn.At == "rmpartial" {
		kind = "partial"
		flt = &gate.Fault{Layer: "r/1", Call: "RemoveBlobs", N: 1, Kind: "partial"}
	} else if k >= 1 && k <= len(winSeq) {
		ord := 0
		for _, c := range winSeq[:k] {
			if c == winSeq[k-1] {
				ord++
			}
		}
		dot := strings.LastIndex(winSeq[k-1], ".")
		flt = &gate.Fault{Layer: winSeq[k-1][:dot], Call: winSeq[k-1][dot+1:], N: ord, Kind: kind}
		if flt.Call == "Get" {
			kind = "error" // a read has no effect to take
		}
	}
	if flt != nil {
		w.plan.Faults = []*gate.Fault{flt}
	}
	victim := u.Blobs[pre].Rank
	ev := w.r.Do(drv.Op{Op: "receive", B: victim})
	waitQuiet()
	w.plan.Faults = nil // (a job that gave up early never reached the chosen call: nothing is injected later)
	cls := "none"
	if flt != nil && flt.Hit {
		cls = callClass(flt.HitAt)
		switch {
		case cls == "meta.put" && flt.N == 1:
			cls = "meta.put:single"
		case cls == "meta.put":
			cls = "meta.put:packed"
		case cls == "idx.get" && flt.N == 1:
			cls = "idx.get:dupcheck"
		case cls == "idx.get":
			cls = "idx.get:job"
		}
		cls += ":" + kind
	}
	label := fmt.Sprintf("fault@%s/wipe=%v/cont=%d", cls, scn.Wipe, scn.Cont)
	reset["label"] = label
	w.drain(seg.emit, true)
	failed := ev["res"] != "ok"
	if failed {
		ev["flt"] = true
	}
	ack(ev, victim)
	seg.emit(ev)
	seg.emit(scan.scan(w.dur, "fault@"+cls))
	seg.emit(w.stateLine(w.dur, "state"))
	// what is fetched: every acknowledged blob and the victim
	fetch := func() []int {
		f := append([]int{}, got...)
		if !have[victim] {
			f = append(f, victim)
		}
		return f
	}
	observe(w, seg, fetch(), false)
	// the client retries the failed upload - unless the failed one left a meta blob behind (the retry would store a
	// second ciphertext and a second, conflicting meta entry for the same blob: which one a start-up scan keeps is
	// the scan's order) - and continues through the next compaction
	var more []int
	if failed && cls != "meta.put:single:after" && cls != "idx.set:error" {
		more = append(more, victim)
	}
	for i := pre + 1; i <= pre+scn.Cont; i++ {
		more = append(more, u.Blobs[i].Rank)
	}
	for _, rank := range more {
		ack(receive(w, seg, rank), rank)
	}
	waitQuiet()
	w.drain(seg.emit, true)
	if len(more) > 0 {
		seg.emit(scan.scan(w.dur, "continued"))
		seg.emit(w.stateLine(w.dur, "state"))
		observe(w, seg, fetch(), true)
	}
	// the store's own recovery: a fresh instance, the index kept or wiped
	w.sys.Close()
	w2, ok := restart(w, seg, w.dur, scn.Wipe, nil)
	if !ok {
		seg.flush()
		classes[label+"/restart-failed"]++
		return
	}
	seg.emit(w2.stateLine(w2.dur, "state"))
	observe(w2, seg, fetch(), false)
	seg.emit(scan.scan(w2.dur, "end"))
	w2.sys.Close()
	seg.flush()
	classes[label]++
}

// ---------------------------------------------------------------- tamper

type base struct {
	u     *univ.Universe
	dur   *stores.Durable
	scan  *leakScan
	got   []int
	ciph  map[int]string   // plain rank -> ciphertext ref
	metas map[string][]int // meta ref -> plain ranks
	ids   *idmap
}

func buildBase(rng *rand.Rand, n int, forge bool) (*base, error) {
	b := &base{ciph: map[int]string{}, metas: map[string][]int{}, ids: newIDs()}
	if !forge {
		b.u = universe(rng, n)
	}
	u0 := b.u
	if forge {
		u0 = universe(rng, n)
	}
	w, err := open(u0, nil, b.ids, false, nil)
	if err != nil {
		return nil, err
	}
	for _, bl := range u0.Blobs {
		if ev := w.r.Do(drv.Op{Op: "receive", B: bl.Rank}); ev["res"] != "ok" {
			return nil, fmt.Errorf("base receive: %v", ev)
		}
	}
	waitQuiet()
	w.sys.Close()
	b.dur = w.dur
	if forge {
		// the attacker sees the names in the wrapped stores and knows two plain refs (say, public files):
		// "victim v is stored as the ciphertext of w". The user then uploads this crafted blob.
		rows := gate.Dump(b.dur.KV["r.idx"])
		// v: one of the last blobs received (it still has its own one-entry meta blob); w: an early one
		v, wv := u0.Blobs[len(u0.Blobs)-2], u0.Blobs[2]
		for len(v.Data) < 16 || len(wv.Data) < 16 || bytes.Equal(v.Data, wv.Data) {
			v, wv = u0.Blobs[rng.Intn(len(u0.Blobs))], u0.Blobs[rng.Intn(len(u0.Blobs))]
		}
		crafted := "#camlistore/encmeta=2\n" + v.Ref.String() + "/" + rows[wv.Ref.String()] + "\n"
		var specs []univ.Spec
		for _, bl := range u0.Blobs {
			specs = append(specs, univ.Spec{Hash: bl.Ref.HashName(), Data: bl.Data, Kind: "rnd"})
		}
		specs = append(specs, univ.Spec{Hash: "sha224", Data: []byte(crafted), Kind: "crafted:" + v.Ref.String()})
		b.u = univ.New(specs)
		w2, err := open(b.u, b.dur, b.ids, false, nil)
		if err != nil {
			waitQuiet()
			return nil, err
		}
		for _, bl := range b.u.Blobs {
			if strings.HasPrefix(bl.Kind, "crafted") {
				if ev := w2.r.Do(drv.Op{Op: "receive", B: bl.Rank}); ev["res"] != "ok" {
					return nil, fmt.Errorf("crafted receive: %v", ev)
				}
			}
		}
		waitQuiet()
		w2.sys.Close()
	}
	b.scan = newLeakScan(b.u)
	for _, bl := range b.u.Blobs {
		b.got = append(b.got, bl.Rank)
	}
	wv := &world{u: b.u, ids: b.ids, dur: b.dur}
	for k, v := range gate.Dump(b.dur.KV["r.idx"]) {
		_, encRef, _ := strings.Cut(v, "/")
		b.ciph[wv.rankOfText(k)] = encRef
	}
	for _, br := range b.dur.Mem["r/1"].Refs() {
		var ps []int
		for _, e := range wv.metaEntries(b.dur, br.String()) {
			ps = append(ps, wv.rankOfText(e.plain))
		}
		b.metas[br.String()] = ps
	}
	return b, nil
}

func mustRef(s string) blob.Ref {
	br, ok := blob.Parse(s)
	if !ok {
		fatal(fmt.Errorf("bad ref %q", s))
	}
	return br
}

func damage(data []byte, tk string, pos int) []byte {
	d := append([]byte(nil), data...)
	switch tk {
	case "flip":
		d[pos] ^= 0x01 << uint(pos%8)
	case "trunc1":
		d = d[:len(d)-1]
	case "trunchalf":
		d = d[:len(d)/2]
	case "trunc0":
		d = d[:0]
	case "extend":
		d = append(d, 0)
	}
	return d
}

// positions of a flip: classes of the age file layout (version byte, textual header, header MAC line, payload nonce/body, last byte)
func flipPositions(data []byte, pos string) []int {
	n := len(data)
	macAt := bytes.Index(data, []byte("\n--- "))
	switch pos {
	case "version":
		return []int{0}
	case "header":
		return []int{1, 12, 40}
	case "mac":
		if macAt > 0 {
			return []int{macAt + 6, macAt + 20}
		}
		return []int{n / 3}
	case "body":
		if macAt > 0 && macAt+70 < n {
			return []int{macAt + 50, macAt + 70, (macAt + 70 + n) / 2}
		}
		return []int{n / 2}
	case "last":
		return []int{n - 1, n - 2}
	case "all":
		out := make([]int, n)
		for i := range out {
			out[i] = i
		}
		return out
	}
	return []int{n / 2}
}

// tamperOnce applies one modification to a clone of the base, builds a fresh instance, fetches every plain blob.
func tamperOnce(b *base, seg *segment, scn *scenario, wipe bool, desc gate.Event, apply func(d *stores.Durable)) {
	dur, err := b.dur.Clone()
	if err != nil {
		fatal(err)
	}
	apply(dur)
	w, err := open(b.u, dur, b.ids, wipe, nil)
	// target / kind in the vocabulary of Encrypt.tla; cls / tk / pos / at say exactly what was done
	tgt := "meta"
	if strings.HasPrefix(fmt.Sprint(desc["target"]), "blob") {
		tgt = "blob"
	}
	kind := map[string]string{"flip": "flip", "trunc1": "truncate", "trunchalf": "truncate", "trunc0": "truncate", "extend": "extend",
		"swap": "swap", "xswap": "xswap", "forge": "xswap"}[fmt.Sprint(desc["kind"])]
	line := gate.Event{"ev": "tamper", "target": tgt, "kind": kind, "cls": desc["target"], "tk": desc["kind"], "pos": desc["pos"], "at": desc["at"],
		"crafted": desc["kind"] == "forge", "wipe": wipe, "build": "ok", "affected": desc["affected"], "out": []any{}, "nwrong": 0, "nfail": 0, "norig": 0}
	outc := []any{}
	if err != nil {
		line["build"] = "failed"
		line["detail"] = err.Error()
		for _, r := range b.got {
			outc = append(outc, []any{r, "fail"})
		}
		line["nfail"] = len(b.got)
	} else {
		waitQuiet()
		nw, nf, no := 0, 0, 0
		for _, r := range b.got {
			ev := w.r.Do(drv.Op{Op: "fetch", B: r})
			o := "fail"
			switch ev["res"] {
			case "ok":
				o = "orig"
				no++
			case "wrongbytes":
				o = "wrong"
				nw++
				line["detail"] = fmt.Sprintf("fetch of rank %d: %v", r, ev["detail"])
			case "notexist":
				// the store answers as if the blob had never been stored: the damage went unnoticed
				o = "gone"
				nf++
				line["detail"] = fmt.Sprintf("fetch of rank %d: %v", r, ev["detail"])
			default:
				nf++
			}
			outc = append(outc, []any{r, o})
		}
		line["nwrong"], line["nfail"], line["norig"] = nw, nf, no
		waitQuiet()
		w.sys.Close()
	}
	line["out"] = outc
	seg.emit(line)
	stats["tamper_runs"]++
}

func runTamper(scn *scenario, rng *rand.Rand, bases map[string]*base) {
	key := "plain"
	if scn.TK == "forge" {
		key = "forge"
	}
	b := bases[key]
	if b == nil {
		var err error
		b, err = buildBase(rng, 110, key == "forge")
		if err != nil {
			// the untampered store could not be filled / restarted: an observation, reported as a failed restart
			seg := &segment{}
			seg.emit(gate.Event{"ev": "reset", "cfg": "encrypt", "sizes": []any{}, "canRemove": false, "readOnly": false, "subfetch": "no",
				"scn": scn, "label": "tamper/base", "pre": []any{}, "kind": "tamper"})
			seg.emit(gate.Event{"ev": "restart", "wipe": false, "res": "failed", "groups": []any{}, "frozen": false, "detail": err.Error()})
			seg.flush()
			classes["tamper/base-failed"]++
			return
		}
		bases[key] = b
	}
	seg := &segment{}
	wv := &world{u: b.u, ids: b.ids, dur: b.dur}
	wv.r = &drv.Runner{U: b.u, Caps: drv.Caps{SubFetch: "no"}}
	reset := resetEvent(wv, scn, fmt.Sprintf("tamper/%s/%s/%s/wipe=%v", scn.Target, scn.TK, scn.Pos, scn.Wipe), b.got)
	seg.emit(reset)
	seg.emit(b.scan.scan(b.dur, "tamper-base"))
	// choose the objects
	var singles, packed []string
	for ref, ps := range b.metas {
		if len(ps) == 1 {
			singles = append(singles, ref)
		} else if len(ps) > 1 {
			packed = append(packed, ref)
		}
	}
	sort.Strings(singles)
	sort.Strings(packed)
	var bigPlain, tinyPlain []int
	for _, bl := range b.u.Blobs {
		if strings.HasPrefix(bl.Kind, "crafted") {
			continue
		}
		if len(bl.Data) >= 32 {
			bigPlain = append(bigPlain, bl.Rank)
		} else {
			tinyPlain = append(tinyPlain, bl.Rank)
		}
	}
	// no object of the wanted class (e.g. the store never compacted): nothing to tamper with; the leak line stands
	if scn.Target == "metapacked" && len(packed) == 0 || strings.HasPrefix(scn.Target, "meta") && len(singles) == 0 ||
		len(bigPlain) < 2 || len(tinyPlain) == 0 {
		seg.flush()
		classes["tamper/skipped-no-target"]++
		return
	}
	pick := func(l []int) int { return l[rng.Intn(len(l))] }
	pickS := func(l []string) string { return l[rng.Intn(len(l))] }
	node, ref := "r/0", ""
	var affected []int
	switch scn.Target {
	case "blob":
		p := pick(bigPlain)
		ref, affected = b.ciph[p], []int{p}
	case "blobtiny":
		p := pick(tinyPlain)
		ref, affected = b.ciph[p], []int{p}
	case "metasingle":
		node, ref = "r/1", pickS(singles)
		affected = b.metas[ref]
	case "metapacked":
		node, ref = "r/1", pickS(packed)
		affected = b.metas[ref]
	}
	desc := func(pos string, at int, aff []int) gate.Event {
		return gate.Event{"target": scn.Target, "kind": scn.TK, "pos": pos, "at": at, "affected": intsAny(aff)}
	}
	data, _ := b.dur.Mem[node].Get(mustRef(ref))
	switch scn.TK {
	case "flip":
		for _, at := range flipPositions(data, scn.Pos) {
			at := at
			tamperOnce(b, seg, scn, scn.Wipe, desc(scn.Pos, at, affected), func(d *stores.Durable) {
				d.Mem[node].Put(mustRef(ref), damage(data, "flip", at))
			})
		}
	case "trunc1", "trunchalf", "trunc0", "extend":
		tamperOnce(b, seg, scn, scn.Wipe, desc("-", 0, affected), func(d *stores.Durable) {
			d.Mem[node].Put(mustRef(ref), damage(data, scn.TK, 0))
		})
	case "swap":
		// contents of two objects of the same store exchanged, names kept
		var other string
		var aff2 []int
		if node == "r/0" {
			p2 := pick(bigPlain)
			for p2 == affected[0] {
				p2 = pick(bigPlain)
			}
			other, aff2 = b.ciph[p2], []int{p2}
		} else {
			cands := append(append([]string{}, singles...), packed...)
			other = pickS(cands)
			for other == ref {
				other = pickS(cands)
			}
			aff2 = b.metas[other]
		}
		od, _ := b.dur.Mem[node].Get(mustRef(other))
		tamperOnce(b, seg, scn, scn.Wipe, desc("-", 0, append(append([]int{}, affected...), aff2...)), func(d *stores.Durable) {
			d.Mem[node].Put(mustRef(ref), od)
			d.Mem[node].Put(mustRef(other), data)
		})
	case "xswap":
		// ciphertext <-> meta blob (for a meta target the partner is a ciphertext and vice versa)
		var onode, other string
		var aff2 []int
		if node == "r/0" {
			onode, other = "r/1", pickS(append(append([]string{}, singles...), packed...))
			aff2 = b.metas[other]
		} else {
			p2 := pick(bigPlain)
			onode, other, aff2 = "r/0", b.ciph[p2], []int{p2}
		}
		od, _ := b.dur.Mem[onode].Get(mustRef(other))
		tamperOnce(b, seg, scn, scn.Wipe, desc("-", 0, append(append([]int{}, affected...), aff2...)), func(d *stores.Durable) {
			d.Mem[node].Put(mustRef(ref), od)
			d.Mem[onode].Put(mustRef(other), data)
		})
	case "forge":
		// the ciphertext of the crafted user blob is copied over a meta blob
		var crafted *univ.Blob
		for i := range b.u.Blobs {
			if strings.HasPrefix(b.u.Blobs[i].Kind, "crafted") {
				crafted = &b.u.Blobs[i]
			}
		}
		victim := wv.rankOfText(strings.TrimPrefix(crafted.Kind, "crafted:"))
		cdata, _ := b.dur.Mem["r/0"].Get(mustRef(b.ciph[crafted.Rank]))
		target := ""
		for ref, ps := range b.metas {
			for _, p := range ps {
				if p == victim && (scn.Pos == "own") == (len(ps) == 1 || true) {
					target = ref
				}
			}
		}
		if scn.Pos == "other" {
			// a meta blob that does not list the victim: the scan order decides which row wins
			for _, s := range singles {
				if b.metas[s][0] != victim {
					target = s
				}
			}
		}
		tamperOnce(b, seg, scn, scn.Wipe, gate.Event{"target": "metasingle", "kind": "forge", "pos": scn.Pos, "at": 0,
			"affected": intsAny(append([]int{victim}, b.metas[target]...))}, func(d *stores.Durable) {
			d.Mem["r/1"].Put(mustRef(target), cdata)
		})
	}
	seg.flush()
	classes[fmt.Sprintf("tamper/%s/%s/%s", scn.Target, scn.TK, scn.Pos)]++
}

// ---------------------------------------------------------------- main

func main() {
	scnF := flag.String("scn", "", "scenarios (JSON lines)")
	outF := flag.String("out", "trace.ndjson", "trace output")
	seed := flag.Int64("seed", 1, "seed")
	random := flag.Int("random", 0, "additional seeded random scenarios")
	sc := flag.String("scratch", "", "scratch dir")
	verbose := flag.Bool("v", false, "perkeep logs to stderr")
	limit := flag.Bool("limit", false, "print the code's compaction threshold (encrypt.SmallMetaCountLimit) and exit")
	flag.BoolVar(&longRaw, "longraw", false, "long family without macro lines (measurement aid)")
	prof := flag.String("cpuprofile", "", "write a CPU profile (development aid)")
	flag.Parse()
	if *prof != "" {
		pf, err := os.Create(*prof)
		if err != nil {
			fatal(err)
		}
		pprof.StartCPUProfile(pf)
		defer pprof.StopCPUProfile()
	}
	if *limit {
		fmt.Printf("limit=%d full=%d\n", encrypt.SmallMetaCountLimit, encrypt.FullMetaBlobSize)
		return
	}
	if !*verbose {
		log.SetOutput(io.Discard)
	}
	scratch = *sc
	if scratch == "" {
		d, err := os.MkdirTemp("", "verif-c11-")
		if err != nil {
			fatal(err)
		}
		defer os.RemoveAll(d)
		scratch = d
	}
	of, err := os.Create(*outF)
	if err != nil {
		fatal(err)
	}
	out = bufio.NewWriterSize(of, 1<<20)
	var scns []scenario
	if *scnF != "" {
		f, err := os.Open(*scnF)
		if err != nil {
			fatal(err)
		}
		s := bufio.NewScanner(f)
		s.Buffer(make([]byte, 1<<20), 1<<26)
		for s.Scan() {
			if len(bytes.TrimSpace(s.Bytes())) == 0 {
				continue
			}
			var x scenario
			if err := json.Unmarshal(s.Bytes(), &x); err != nil {
				fatal(fmt.Errorf("bad scenario: %v", err))
			}
			scns = append(scns, x)
		}
		f.Close()
	}
	rng := rand.New(rand.NewSource(*seed))
	win := 0
	needWin := *random > 0
	for _, s := range scns {
		if s.Kind == "crash" || s.Kind == "fault" {
			needWin = true
		}
	}
	if needWin {
		winSeq = dryWindow(rng, encrypt.SmallMetaCountLimit)
		win = len(winSeq)
		stats["window_calls"] = win
	}
	for i := 0; i < *random; i++ {
		switch rng.Intn(6) {
		case 5:
			scns = append(scns, scenario{Kind: "fault", Pre: encrypt.SmallMetaCountLimit, K: 1 + rng.Intn(win+1), Wipe: rng.Intn(2) == 0,
				FK: []string{"error", "after"}[rng.Intn(2)], Cont: []int{0, 3, 105}[rng.Intn(3)]})
		case 0:
			n := 101 + rng.Intn(225)
			s := scenario{Kind: "hist", N: n}
			for j := 0; j < rng.Intn(3); j++ {
				s.Restarts = append(s.Restarts, restartPt{At: 1 + rng.Intn(n), Wipe: rng.Intn(2) == 0})
			}
			scns = append(scns, s)
		case 1, 2:
			s := scenario{Kind: "crash", Pre: encrypt.SmallMetaCountLimit, K: 1 + rng.Intn(win+1), Wipe: rng.Intn(2) == 0, Cont: []int{0, 3, 105}[rng.Intn(3)]}
			if rng.Intn(3) == 0 {
				s.Second = fmt.Sprintf("e%d", rng.Intn(4))
			}
			scns = append(scns, s)
		default:
			tg := []string{"blob", "blobtiny", "metasingle", "metapacked"}[rng.Intn(4)]
			tk := []string{"flip", "flip", "flip", "trunc1", "trunchalf", "extend", "swap", "xswap", "trunc0"}[rng.Intn(9)]
			scns = append(scns, scenario{Kind: "tamper", Target: tg, TK: tk, Wipe: rng.Intn(2) == 0,
				Pos: []string{"version", "header", "mac", "body", "last"}[rng.Intn(5)]})
		}
	}
	bases := map[string]*base{}
	baseRng := rand.New(rand.NewSource(*seed*7919 + 13))
	for i := range scns {
		s := &scns[i]
		// every scenario has its own generator (a replay of one scenario sees the same blobs)
		sj, _ := json.Marshal(s)
		h := fnv.New64a()
		h.Write(sj)
		rng := rand.New(rand.NewSource(*seed*1000003 + int64(h.Sum64()>>1)))
		if s.Kind == "tamper" {
			rng = baseRng // the quiescent base store is shared by the tamper scenarios of one process
		}
		switch s.Kind {
		case "hist":
			runHist(s, rng)
		case "long":
			runLong(s, rng)
		case "crash":
			s.Pre = encrypt.SmallMetaCountLimit // the next receive is the one that triggers the compaction
			runCrash(s, rng, win)
		case "fault":
			s.Pre = encrypt.SmallMetaCountLimit
			runFault(s, rng)
		case "tamper":
			runTamper(s, rng, bases)
		default:
			fatal(fmt.Errorf("unknown scenario kind %q", s.Kind))
		}
	}
	out.Flush()
	of.Close()
	cl, _ := json.Marshal(classes)
	st, _ := json.Marshal(stats)
	fmt.Printf("segments=%d\nclasses=%s\nstats=%s\n", nSeg, cl, st)
}
