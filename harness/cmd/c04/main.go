//go:build verif

// c04 explores blobpacked's packing of a file into zips: every crash point
// between the writes of a pack (zip stored, meta batch committed, loose-blob
// deletion - also half done -, final whole-file row), restart in the three
// recovery modes, later removals and re-receives, full recovery from the zips
// alone. Client-view events go to Trace_BlobStoreFault.tla, the recorded write
// sequence of fault-free packs to Trace_BlobPacked.tla.
package main

import (
	"archive/zip"
	"bufio"
	"bytes"
	"context"
	"encoding/json"
	"flag"
	"fmt"
	"io"
	"log"
	"math/rand"
	"os"
	"sort"
	"strings"
	"sync"

	"perkeep.org/pkg/blob"
	"perkeep.org/pkg/blobserver"
	"perkeep.org/pkg/blobserver/blobpacked"
	"perkeep.org/pkg/schema"

	"verif/drv"
	"verif/gate"
	"verif/stores"
	"verif/univ"
)

func fatal(err error) {
	fmt.Fprintln(os.Stderr, "c04:", err)
	os.Exit(2)
}

var (
	out    *bufio.Writer
	pkOut  *bufio.Writer
	nSeg   int
	nClass = map[string]int{}
)

func emitAll(evs []gate.Event) {
	for _, ev := range evs {
		if _, ok := ev["flt"]; !ok && ev["ev"] == "op" {
			ev["flt"] = false
		}
		b, _ := json.Marshal(ev)
		out.Write(b)
		out.WriteByte('\n')
	}
	nSeg++
}

type scenario struct {
	Name    string
	Files   []fileSpec
	MaxZip  int
	Shuffle bool // deliver chunks in a shuffled order (schema blob still last)
}

type fileSpec struct {
	Name    string
	Content []byte
	// Pattern, if set, gives the file's chunk list explicitly instead of letting the rolling checksum cut Content:
	// one letter per part, each letter a 200 KiB slice of Content ("AABC": the first slice twice, then two more).
	Pattern string
}

const patternChunk = 200 << 10

// writeFile uploads the file's chunks and schema blob and returns the schema blob's ref.
func writeFile(sto blobserver.StatReceiver, f fileSpec) (blob.Ref, error) {
	ctx := context.Background()
	if f.Pattern == "" {
		return schema.WriteFileFromReader(ctx, sto, f.Name, bytes.NewReader(f.Content))
	}
	var parts []schema.BytesPart
	var total int64
	for _, c := range f.Pattern {
		i := int(c - 'A')
		data := f.Content[i*patternChunk : (i+1)*patternChunk]
		br := blob.RefFromBytes(data)
		if _, err := blobserver.ReceiveNoHash(ctx, sto, br, bytes.NewReader(data)); err != nil {
			return blob.Ref{}, err
		}
		parts = append(parts, schema.BytesPart{Size: uint64(len(data)), BlobRef: br})
		total += int64(len(data))
	}
	m := schema.NewFileMap(f.Name)
	if err := m.PopulateParts(total, parts); err != nil {
		return blob.Ref{}, err
	}
	js, err := m.JSON()
	if err != nil {
		return blob.Ref{}, err
	}
	br := blob.RefFromString(js)
	_, err = blobserver.ReceiveNoHash(ctx, sto, br, strings.NewReader(js))
	return br, err
}

// fileBytes is what reading the file back must give.
func fileBytes(f fileSpec) []byte {
	if f.Pattern == "" {
		return f.Content
	}
	var out []byte
	for _, c := range f.Pattern {
		i := int(c - 'A')
		out = append(out, f.Content[i*patternChunk:(i+1)*patternChunk]...)
	}
	return out
}

type recorder struct {
	blobserver.Storage
	mu    sync.Mutex // the file writer uploads chunks from several goroutines
	order []blob.Ref
	data  map[blob.Ref][]byte
}

func (r *recorder) ReceiveBlob(ctx context.Context, br blob.Ref, src io.Reader) (blob.SizedRef, error) {
	b, err := io.ReadAll(src)
	if err != nil {
		return blob.SizedRef{}, err
	}
	r.mu.Lock()
	defer r.mu.Unlock()
	if _, dup := r.data[br]; !dup {
		r.order = append(r.order, br)
		r.data[br] = b
	}
	return blob.SizedRef{Ref: br, Size: uint32(len(b))}, nil
}

func (r *recorder) StatBlobs(ctx context.Context, blobs []blob.Ref, fn func(blob.SizedRef) error) error {
	for _, br := range blobs {
		r.mu.Lock()
		b, ok := r.data[br]
		r.mu.Unlock()
		if ok {
			if err := fn(blob.SizedRef{Ref: br, Size: uint32(len(b))}); err != nil {
				return err
			}
		}
	}
	return nil
}

func (r *recorder) Fetch(ctx context.Context, br blob.Ref) (io.ReadCloser, uint32, error) {
	r.mu.Lock()
	b, ok := r.data[br]
	r.mu.Unlock()
	if !ok {
		return nil, 0, os.ErrNotExist
	}
	return io.NopCloser(bytes.NewReader(b)), uint32(len(b)), nil
}

func content(rng *rand.Rand, n int) []byte {
	b := make([]byte, n)
	rng.Read(b)
	return b
}

func main() {
	outF := flag.String("out", "trace.ndjson", "client-view trace")
	pkF := flag.String("packlog", "pack.ndjson", "pack write-sequence trace")
	seed := flag.Int64("seed", 1, "seed")
	thorough := flag.Bool("thorough", false, "more scenarios")
	scratch := flag.String("scratch", "", "scratch dir")
	flag.Parse()
	log.SetOutput(io.Discard)
	if *scratch == "" {
		d, err := os.MkdirTemp("", "verif-c04-")
		if err != nil {
			fatal(err)
		}
		defer os.RemoveAll(d)
		*scratch = d
	}
	of, err := os.Create(*outF)
	if err != nil {
		fatal(err)
	}
	out = bufio.NewWriterSize(of, 1<<20)
	pf, err := os.Create(*pkF)
	if err != nil {
		fatal(err)
	}
	pkOut = bufio.NewWriterSize(pf, 1<<20)
	rng := rand.New(rand.NewSource(*seed))
	half := content(rng, 330<<10)
	same := content(rng, 560<<10)
	scs := []scenario{
		{Name: "single-zip", Files: []fileSpec{{Name: "a.bin", Content: content(rng, 600<<10)}}},
		{Name: "multi-zip", Files: []fileSpec{{Name: "b.bin", Content: content(rng, 900<<10)}}, MaxZip: 400 << 10},
		{Name: "repeated-chunks", Files: []fileSpec{{Name: "c.bin", Content: append(append([]byte{}, half...), half...)}}, Shuffle: true},
		// the same run of chunks twice and THEN new content in the same zip (chunk list A.. A.. B..): offsets of what
		// follows a repeated chunk
		{Name: "repeat-then-new", Files: []fileSpec{{Name: "r.bin", Content: content(rng, 3*patternChunk), Pattern: "AABC"}}},
		{Name: "identical-files", Files: []fileSpec{{Name: "d1.bin", Content: same}, {Name: "d2.bin", Content: same}}},
	}
	if *thorough {
		scs = append(scs,
			scenario{Name: "multi-zip-3", Files: []fileSpec{{Name: "e.bin", Content: content(rng, 1500<<10)}}, MaxZip: 450 << 10, Shuffle: true},
			scenario{Name: "threshold", Files: []fileSpec{{Name: "f.bin", Content: content(rng, 512<<10)}}},
			scenario{Name: "below-threshold", Files: []fileSpec{{Name: "g.bin", Content: content(rng, 512<<10-1)}}},
			scenario{Name: "two-files-multi", Files: []fileSpec{{Name: "h1.bin", Content: content(rng, 700<<10)}, {Name: "h2.bin", Content: content(rng, 650<<10)}}, MaxZip: 500 << 10},
		)
	}
	for _, sc := range scs {
		if err := runScenario(&sc, rng, *scratch); err != nil {
			fatal(fmt.Errorf("scenario %s: %v", sc.Name, err))
		}
	}
	out.Flush()
	of.Close()
	pkOut.Flush()
	pf.Close()
	cl, _ := json.Marshal(nClass)
	fmt.Printf("segments=%d classes=%s\n", nSeg, cl)
}

// needsOf: file blob rank -> ranks of every blob a whole-file read needs (file blob, bytes blobs, chunks)
var needsOf = map[int][]any{}

type world struct {
	sys  *stores.Sys
	plan *gate.Plan
	mem  *gate.Log
	dur  *stores.Durable
	r    *drv.Runner
}

var wseq int

func newWorld(u *univ.Universe, dur *stores.Durable, maxZip int, recMode int, scratch string) (*world, error) {
	wseq++
	if dur == nil {
		dir, err := os.MkdirTemp(scratch, "w")
		if err != nil {
			return nil, err
		}
		dur = stores.NewDurable(dir)
	}
	w := &world{plan: gate.NewPlan(), mem: gate.NewLog(), dur: dur}
	cfg, _ := stores.Parse("blobpacked")
	env := &stores.Env{P: w.plan, L: w.mem, D: dur, Rank: u.RankAny, PackedRecovery: recMode}
	sys, err := stores.Build(cfg, env)
	if err != nil {
		return nil, err
	}
	if maxZip > 0 {
		if !blobpacked.VerifSetMaxZipBlobSize(sys.Sto, maxZip) {
			return nil, fmt.Errorf("not a blobpacked storage")
		}
	}
	w.sys = sys
	w.r = &drv.Runner{U: u, Sto: sys.Sto, Caps: drv.Caps{CanRemove: true, SubFetch: "yes"}}
	return w, nil
}

func isMutating(call string) bool {
	for _, s := range []string{".ReceiveBlob", ".RemoveBlobs", ".Set", ".Delete", ".CommitBatch"} {
		if strings.HasSuffix(call, s) {
			return true
		}
	}
	return false
}

// whole reads the file through the schema reader over the store.
func whole(w *world, fileRank int, want []byte) gate.Event {
	ev := gate.Event{"ev": "op", "op": "whole", "b": fileRank, "size": 0, "list": []any{}, "needs": needsOf[fileRank], "wholeref": false}
	fr, err := schema.NewFileReader(context.Background(), w.sys.Sto, w.r.U.ByRank(fileRank).Ref)
	if err != nil {
		ev["res"] = drv.Classify(err)
		if ev["res"] == "other" && strings.Contains(err.Error(), "not exist") {
			ev["res"] = "notexist"
		}
		ev["detail"] = err.Error()
		return ev
	}
	defer fr.Close()
	got, err := io.ReadAll(fr)
	switch {
	case err != nil:
		ev["res"] = "readerr"
		ev["detail"] = err.Error()
	case !bytes.Equal(got, want):
		ev["res"] = "wrongbytes"
	default:
		ev["res"] = "ok"
		ev["size"] = len(got)
	}
	// the fast path, from offset 0 and from offsets inside / at the edges of every zip part
	if wf, ok := w.sys.Sto.(blobserver.WholeRefFetcher); ok && ev["res"] == "ok" {
		h := blob.NewHash()
		h.Write(want)
		wref := blob.RefFromHash(h)
		n := len(want)
		offs := []int{0, 1, n / 7, n / 3, n / 2, n/2 + 1, 2 * n / 3, n - 70000, n - 1, n}
		for z := 1; z < 6; z++ { // around multiples of typical forced zip sizes
			for _, d := range []int{-1, 0, 1, 4097} {
				offs = append(offs, z*(400<<10)+d, z*(450<<10)+d, z*(500<<10)+d)
			}
		}
		tried := 0
		for _, off := range offs {
			if off < 0 || off > n {
				continue
			}
			rc, sz, err := wf.OpenWholeRef(wref, int64(off))
			if err != nil {
				if off == 0 {
					ev["wholeref"] = false // not packed (yet): the fast path is legitimately unavailable
					break
				}
				ev["res"] = "wrongbytes"
				ev["detail"] = fmt.Sprintf("OpenWholeRef(offset %d): %v", off, err)
				break
			}
			got, rerr := io.ReadAll(rc)
			rc.Close()
			tried++
			if rerr != nil || sz != int64(n) || !bytes.Equal(got, want[off:]) {
				ev["res"] = "wrongbytes"
				ev["detail"] = fmt.Sprintf("OpenWholeRef(offset %d) returned %d bytes (err %v), want %d", off, len(got), rerr, n-off)
				break
			}
			ev["wholeref"] = true
		}
		ev["wholeref_offsets"] = tried
	}
	return ev
}

func observe(w *world, emit func(gate.Event), files map[int][]byte) {
	var all []int
	for _, b := range w.r.U.Blobs {
		all = append(all, b.Rank)
	}
	emit(w.r.Do(drv.Op{Op: "stat", Bs: all}))
	for _, b := range w.r.U.Blobs {
		emit(w.r.Do(drv.Op{Op: "fetch", B: b.Rank}))
	}
	emit(w.r.Do(drv.Op{Op: "enum", After: 0, Limit: len(all) + 2}))
	emit(w.r.Do(drv.Op{Op: "enum", After: 5, Limit: 3}))
	emit(w.r.Do(drv.Op{Op: "enum", After: 2 * len(all) / 2, Limit: 2}))
	// page through everything with small limits, every cursor being the exact ref of the last blob of the page
	// before (packed or loose): the packed and the loose enumeration are merged per page
	for _, lim := range []int{1, 2, 3} {
		cur := 0
		for step := 0; step <= len(all)+1; step++ {
			ev := w.r.Do(drv.Op{Op: "enum", After: cur, Limit: lim})
			emit(ev)
			lst, _ := ev["list"].([]any)
			if ev["res"] != "ok" || len(lst) == 0 {
				break
			}
			last, _ := lst[len(lst)-1].([]any)
			nx, _ := last[0].(int)
			if nx <= cur {
				break
			}
			cur = nx
		}
	}
	emit(w.r.Do(drv.Op{Op: "subfetch", B: w.r.U.Blobs[0].Rank, Off: 2, Len: 2}))
	emit(w.r.Do(drv.Op{Op: "subfetch", B: w.r.U.Blobs[len(all)/2].Rank, Off: 1, Len: 4}))
	var fr []int
	for rk := range files {
		fr = append(fr, rk)
	}
	sort.Ints(fr)
	for _, rk := range fr {
		emit(whole(w, rk, files[rk]))
	}
}

func checkZips(w *world, maxZip int, contents [][]byte) gate.Event {
	ev := gate.Event{"ev": "zips", "res": "ok", "n": 0}
	limit := 16 << 20
	if maxZip > 0 {
		limit = maxZip
	}
	g := w.sys.Gates["r/1"]
	n := 0
	for _, br := range g.B.Refs() {
		data, _ := g.B.Get(br)
		n++
		if len(data) > limit {
			ev["res"] = "toolarge"
			ev["detail"] = fmt.Sprintf("zip %v has %d bytes > %d", br, len(data), limit)
		}
		zr, err := zip.NewReader(bytes.NewReader(data), int64(len(data)))
		if err != nil || len(zr.File) == 0 {
			ev["res"] = "badzip"
			continue
		}
		rc, err := zr.File[0].Open()
		if err != nil {
			ev["res"] = "badzip"
			continue
		}
		first, _ := io.ReadAll(rc)
		rc.Close()
		found := false
		for _, c := range contents {
			if bytes.Contains(c, first) {
				found = true
			}
		}
		if !found || len(first) == 0 {
			ev["res"] = "notcontiguous"
			ev["detail"] = fmt.Sprintf("first entry of %v (%d bytes) is not a contiguous part of the file", br, len(first))
		}
	}
	ev["n"] = n
	return ev
}

func runScenario(sc *scenario, rng *rand.Rand, scratch string) error {
	// dry upload into a recorder: the logical blobs of the scenario
	rec := &recorder{data: map[blob.Ref][]byte{}}
	var fileRefs []blob.Ref
	var contents [][]byte
	for _, f := range sc.Files {
		fr, err := writeFile(rec, f)
		if err != nil {
			return err
		}
		fileRefs = append(fileRefs, fr)
		contents = append(contents, fileBytes(f))
	}
	// the writer's upload order depends on goroutine scheduling: use the order of the refs
	sort.Slice(rec.order, func(i, j int) bool { return rec.order[i].String() < rec.order[j].String() })
	var specs []univ.Spec
	for _, br := range rec.order {
		specs = append(specs, univ.Spec{Hash: br.HashName(), Data: rec.data[br], Kind: "chunk"})
	}
	u := univ.New(specs)
	files := map[int][]byte{}
	for i, fr := range fileRefs {
		files[u.RankOf(fr)] = contents[i]
	}
	// which blobs does each file need? re-run the writer per file into a private recorder
	var perFile [][]blob.Ref
	for i, f := range sc.Files {
		r1 := &recorder{data: map[blob.Ref][]byte{}}
		if _, err := writeFile(r1, f); err != nil {
			return err
		}
		var need []int
		for _, br := range r1.order {
			need = append(need, u.RankOf(br))
		}
		perFile = append(perFile, append([]blob.Ref(nil), r1.order...))
		sort.Ints(need)
		na := make([]any, len(need))
		for j, v := range need {
			na[j] = v
		}
		needsOf[u.RankOf(fileRefs[i])] = na
	}
	isFile := func(br blob.Ref) bool { _, ok := files[u.RankOf(br)]; return ok }
	// delivery order: chunks (optionally shuffled), each file's schema blob after its chunks
	var order []blob.Ref
	placed := map[blob.Ref]bool{}
	for i, blobs := range perFile {
		sort.Slice(blobs, func(a, b int) bool { return blobs[a].String() < blobs[b].String() })
		for _, br := range blobs {
			if br != fileRefs[i] && !placed[br] {
				placed[br] = true
				order = append(order, br)
			}
		}
		if !placed[fileRefs[i]] {
			placed[fileRefs[i]] = true
			order = append(order, fileRefs[i])
		}
	}
	if sc.Shuffle {
		var chunks, fs []blob.Ref
		for _, br := range order {
			if isFile(br) {
				fs = append(fs, br)
			} else {
				chunks = append(chunks, br)
			}
		}
		rng.Shuffle(len(chunks), func(i, j int) { chunks[i], chunks[j] = chunks[j], chunks[i] })
		order = append(chunks, fs...)
	}
	// ---- fault-free run: pack write sequence (T leg), zip validity, baseline observation
	w0, err := newWorld(u, nil, sc.MaxZip, 0, scratch)
	if err != nil {
		return err
	}
	head := []gate.Event{}
	reset := w0.r.ResetEvent("blobpacked/" + sc.Name)
	reset["pre"] = []any{}
	reset["scn"] = sc.Name
	head = append(head, reset)
	type packInfo struct {
		idx   int // index in order of the file blob
		calls []string
		base  int
	}
	var packs []packInfo
	var base []gate.Event
	for i, br := range order {
		w0.mem.Reset()
		w0.plan.RecordSeq = true
		w0.plan.SeqLog = nil
		c0 := w0.plan.Calls()
		ev := w0.r.Do(drv.Op{Op: "receive", B: u.RankOf(br)})
		base = append(base, ev)
		if isFile(br) {
			packs = append(packs, packInfo{idx: i, calls: w0.plan.Seq(), base: c0})
			packLog(w0, u, sc.Name, u.RankOf(br))
		}
	}
	seg := append(cloneEvents(head), cloneEvents(base)...)
	emit0 := func(ev gate.Event) { seg = append(seg, ev) }
	emit0(checkZips(w0, sc.MaxZip, contents))
	observe(w0, emit0, files)
	// later removals / re-receives on the packed store, then full recovery from the zips alone
	laterOps(w0, u, emit0, files, order)
	emitAll(seg)
	nClass["faultfree/"+sc.Name]++
	w0.sys.Close()
	full, err := newWorld(u, w0.dur, sc.MaxZip, 2, scratch)
	if err == nil {
		seg2 := append(cloneEvents(seg), gate.Event{"ev": "recover", "res": "ok", "what": "full"})
		observe(full, func(ev gate.Event) { seg2 = append(seg2, ev) }, files)
		seg2[0]["crash"] = map[string]any{"class": "none+laterops", "mode": "full"}
		emitAll(seg2)
		nClass["faultfree+full/"+sc.Name]++
		full.sys.Close()
	} else {
		seg2 := append(cloneEvents(seg), gate.Event{"ev": "recover", "res": "failed", "what": "full", "detail": err.Error()})
		emitAll(seg2)
	}
	// ---- crash sweep over the mutating lower calls of every pack
	for _, pk := range packs {
		for k, call := range pk.calls {
			if !isMutating(call) {
				continue
			}
			variants := []string{"before"}
			if strings.HasSuffix(call, "r/0.RemoveBlobs") {
				variants = append(variants, "partial")
			}
			for _, v := range variants {
				if err := crashRun(sc, u, order, files, pk.idx, k+1, call, v, head, scratch); err != nil {
					return err
				}
			}
		}
		// and death right after the last write of the pack
		if err := crashRun(sc, u, order, files, pk.idx, len(pk.calls)+1, "end", "before", head, scratch); err != nil {
			return err
		}
	}
	return nil
}

func laterOps(w *world, u *univ.Universe, emit func(gate.Event), files map[int][]byte, order []blob.Ref) {
	// remove one packed chunk, observe, receive it again, observe; remove a file blob, observe
	first := u.RankOf(order[0])
	emit(w.r.Do(drv.Op{Op: "remove", Bs: []int{first}}))
	observe(w, emit, files)
	emit(w.r.Do(drv.Op{Op: "receive", B: first}))
	observe(w, emit, files)
	second := u.RankOf(order[1%len(order)])
	emit(w.r.Do(drv.Op{Op: "remove", Bs: []int{second}}))
	observe(w, emit, files)
}

func crashRun(sc *scenario, u *univ.Universe, order []blob.Ref, files map[int][]byte, fileIdx, k int, call, variant string,
	head []gate.Event, scratch string) error {
	if err := crashRun1(sc, u, order, files, fileIdx, k, call, variant, false, head, scratch); err != nil {
		return err
	}
	if fileIdx < len(order)-1 {
		// the client uploads the blobs after the interrupted one first and retries the interrupted one last (another
		// file with the same content is then packed while the first pack is still half-recorded)
		return crashRun1(sc, u, order, files, fileIdx, k, call, variant, true, head, scratch)
	}
	return nil
}

func crashRun1(sc *scenario, u *univ.Universe, order []blob.Ref, files map[int][]byte, fileIdx, k int, call, variant string, retryLast bool,
	head []gate.Event, scratch string) error {
	w, err := newWorld(u, nil, sc.MaxZip, 0, scratch)
	if err != nil {
		return err
	}
	evs := cloneEvents(head)
	cls := fmt.Sprintf("%s:%s", strings.TrimPrefix(call, "r"), variant)
	if retryLast {
		cls += "+retry-last"
	}
	evs[0]["crash"] = map[string]any{"class": cls, "k": k, "file": fileIdx}
	for i := 0; i < fileIdx; i++ {
		evs = append(evs, w.r.Do(drv.Op{Op: "receive", B: u.RankOf(order[i])}))
	}
	c0 := w.plan.Calls()
	if variant == "partial" {
		w.plan.Faults = []*gate.Fault{{N: k, Kind: "partial"}} // Fault.N counts the calls since installation
		w.plan.FreezeAt = c0 + k + 1
	} else {
		w.plan.FreezeAt = c0 + k
	}
	ev := w.r.Do(drv.Op{Op: "receive", B: u.RankOf(order[fileIdx])})
	ev["flt"] = true
	ev["res"] = "failed" // the process died: whatever the call returned was never seen
	ev["size"] = 0
	evs = append(evs, ev)
	if variant == "partial" && !w.plan.Faults[0].Hit {
		return fmt.Errorf("conformance: the half-done RemoveBlobs of %s (call %d) never happened", cls, k)
	}
	w.plan.Freeze()
	w.sys.Close()
	for mode, name := range []string{"none", "fast", "full"} {
		dur, err := w.dur.Clone()
		if err != nil {
			return err
		}
		seg := cloneEvents(evs)
		seg[0]["mode"] = name
		emit := func(ev gate.Event) { seg = append(seg, ev) }
		w2, err := newWorld(u, dur, sc.MaxZip, mode, scratch)
		if err != nil {
			emit(gate.Event{"ev": "recover", "res": "failed", "what": name, "detail": err.Error()})
			emitAll(seg)
			continue
		}
		emit(gate.Event{"ev": "recover", "res": "ok", "what": name})
		observe(w2, emit, files)
		// the client retries the interrupted upload and uploads the remaining blobs
		for i := fileIdx; i < len(order); i++ {
			if retryLast && i == fileIdx {
				continue
			}
			emit(w2.r.Do(drv.Op{Op: "receive", B: u.RankOf(order[i])}))
		}
		if retryLast {
			emit(w2.r.Do(drv.Op{Op: "receive", B: u.RankOf(order[fileIdx])}))
		}
		observe(w2, emit, files)
		// a second restart with an index rebuild, now that the interrupted upload was retried (an interrupted pack
		// followed by a retry can leave more than one zip for the same file): nothing may change
		if dur3, err := w2.dur.Clone(); err == nil {
			again := 2 // full rebuild, except after a full rebuild: fast
			if mode == 2 {
				again = 1
			}
			w3, err := newWorld(u, dur3, sc.MaxZip, again, scratch)
			if err != nil {
				emit(gate.Event{"ev": "recover", "res": "failed", "side": true, "what": []string{"none", "fast", "full"}[again], "detail": err.Error()})
			} else {
				emit(gate.Event{"ev": "recover", "res": "ok", "side": true, "what": []string{"none", "fast", "full"}[again]})
				observe(w3, emit, files)
				w3.sys.Close()
			}
		} else {
			return err
		}
		laterOps(w2, u, emit, files, order)
		emitAll(seg)
		nClass["crash/"+cls+"/"+name]++
		w2.sys.Close()
	}
	return nil
}

func cloneEvents(evs []gate.Event) []gate.Event {
	out := make([]gate.Event, len(evs))
	for i, e := range evs {
		c := gate.Event{}
		for k, v := range e {
			c[k] = v
		}
		out[i] = c
	}
	return out
}

// packLog projects the gate events of one fault-free pack into the actions of BlobPacked.tla.
func packLog(w *world, u *univ.Universe, scn string, fileRank int) {
	wr := func(m map[string]any) {
		b, _ := json.Marshal(m)
		pkOut.Write(b)
		pkOut.WriteByte('\n')
	}
	var lines []map[string]any
	zipN := 0
	zipOf := map[string]int{}
	inZip := map[int][]any{}
	for _, ev := range w.mem.Events() {
		layer, _ := ev["layer"].(string)
		call, _ := ev["call"].(string)
		if ev["res"] != "ok" {
			continue
		}
		switch {
		case layer == "r/1" && call == "ReceiveBlob":
			zipN++
			zipOf[fmt.Sprint(ev["b"])] = zipN
			lines = append(lines, map[string]any{"act": "ZipStore", "z": zipN, "bs": []any{}, "rows": 0})
		case layer == "r.meta" && call == "CommitBatch":
			sets, _ := ev["sets"].([]any)
			var bs []any
			z := 0
			wrow, zrow := 0, 0
			for _, s := range sets {
				kv := s.([]any)
				key := kv[0].(string)
				val := kv[1].(string)
				switch {
				case strings.HasPrefix(key, "b:"):
					if br, ok := blob.Parse(key[2:]); ok {
						bs = append(bs, u.RankOf(br))
					}
					f := strings.Fields(val)
					if len(f) == 3 {
						z = zipOf[f[1]]
					}
				case strings.HasPrefix(key, "w:"):
					wrow++
				case strings.HasPrefix(key, "z:"):
					zrow++
				}
			}
			inZip[z] = bs
			lines = append(lines, map[string]any{"act": "MetaBatch", "z": z, "bs": sortAny(bs), "rows": wrow*10 + zrow})
		case layer == "r/0" && call == "RemoveBlobs":
			bs, _ := ev["bs"].([]any)
			lines = append(lines, map[string]any{"act": "DeleteLoose", "z": zipN, "bs": sortAny(bs), "rows": 0})
		case layer == "r.meta" && call == "Set":
			if k, _ := ev["k"].(string); strings.HasPrefix(k, "w:") {
				lines = append(lines, map[string]any{"act": "WholeRow", "z": zipN, "bs": []any{}, "rows": 0})
			}
		}
	}
	wr(map[string]any{"act": "reset", "scn": scn, "f": fileRank, "nzips": zipN, "z": 0, "bs": []any{}, "rows": 0})
	for _, l := range lines {
		wr(l)
	}
}

func sortAny(x []any) []any {
	var ints []int
	for _, v := range x {
		if i, ok := v.(int); ok {
			ints = append(ints, i)
		}
	}
	sort.Ints(ints)
	out := make([]any, len(ints))
	for i, v := range ints {
		out[i] = v
	}
	return out
}
