//go:build verif

// worldtest: smoke test of world + idx (not a check).
package main

import (
	"fmt"
	"os"

	"verif/idx"
	"verif/world"
)

func main() {
	s, err := world.LoadSigners(os.Args[1])
	if err != nil {
		panic(err)
	}
	w := &world.World{Values: []string{"A", "B"}, Items: []world.Item{
		{ID: 1, Kind: "key", Signer: 1},
		{ID: 2, Kind: "permanode", Signer: 1, Data: "x"},
		{ID: 3, Kind: "claim", Claim: "set", PN: 2, Attr: "title", Val: 1, Date: 10, Signer: 1},
		{ID: 4, Kind: "delete", Target: 3, Date: 20, Signer: 1},
		{ID: 5, Kind: "chunk", Data: "hello world"},
		{ID: 6, Kind: "file", Name: "f.txt", Parts: []world.Part{{Kind: "blob", Ref: 5, Size: 11}}},
		{ID: 7, Kind: "staticset", Children: []int{6}},
		{ID: 8, Kind: "dir", Name: "d", Children: []int{7}},
		{ID: 9, Kind: "share", Target: 8, Transitive: true, Signer: 1, Date: 30},
		{ID: 10, Kind: "key", Signer: 2},
		{ID: 11, Kind: "claim", Claim: "add", PN: 2, Attr: "tag", Val: 2, Date: 15, Signer: 2},
	}}
	w.Normalize()
	b, err := world.Build(w, s)
	if err != nil {
		panic(err)
	}
	e, err := idx.NewMem(true)
	if err != nil {
		panic(err)
	}
	if err := e.DeliverAll(b); err != nil {
		panic(err)
	}
	for _, r := range idx.Rows(e.KV) {
		fmt.Printf("%.150s = %.80s\n", r[0], r[1])
	}
	w.Save("/dev/stdout")
}
