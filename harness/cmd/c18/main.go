// c18 brings up a whole perkeep server in-process (serverinit.Load of a
// HIGH-LEVEL configuration, handlers installed on an httptest server) and
// replays abstract storage histories through two protocol clients:
//
//	via=client  pkg/client.Client (ReceiveBlob/Upload, StatBlobs, EnumerateBlobs*, Fetch, RemoveBlobs)
//	via=raw     a net/http client speaking the documented blob protocol
//
// Every reply is projected (ranks, classes, status codes, continueAfter) into
// one ndjson line for Trace_HTTPProto.tla. The driver never computes an
// expected value.
package main

import (
	"bufio"
	"encoding/json"
	"flag"
	"fmt"
	"io"
	"log"
	"math/rand"
	"net/http"
	"net/http/httptest"
	"net/url"
	"os"
	"path/filepath"
	"strings"
	"sync"

	"go4.org/jsonconfig"

	"perkeep.org/pkg/auth"
	"perkeep.org/pkg/blob"
	"perkeep.org/pkg/blobserver"
	"perkeep.org/pkg/client"
	"perkeep.org/pkg/serverinit"
	"perkeep.org/pkg/types/serverconfig"

	// what perkeepd imports (storage, KV, handlers, importers)
	_ "perkeep.org/pkg/blobserver/blobpacked"
	_ "perkeep.org/pkg/blobserver/cond"
	_ "perkeep.org/pkg/blobserver/diskpacked"
	_ "perkeep.org/pkg/blobserver/encrypt"
	_ "perkeep.org/pkg/blobserver/localdisk"
	_ "perkeep.org/pkg/blobserver/memory"
	_ "perkeep.org/pkg/blobserver/overlay"
	_ "perkeep.org/pkg/blobserver/proxycache"
	_ "perkeep.org/pkg/blobserver/remote"
	_ "perkeep.org/pkg/blobserver/replica"
	_ "perkeep.org/pkg/blobserver/shard"
	_ "perkeep.org/pkg/blobserver/union"
	_ "perkeep.org/pkg/importer/allimporters"
	_ "perkeep.org/pkg/search"
	_ "perkeep.org/pkg/server"
	_ "perkeep.org/pkg/sorted/kvfile"
	_ "perkeep.org/pkg/sorted/leveldb"
	_ "perkeep.org/pkg/sorted/sqlite"

	"verif/gate"
	"verif/univ"
)

// Op is one abstract operation: the BlobStoreGen vocabulary plus wire details.
type Op struct {
	Op    string `json:"op"`
	B     int    `json:"b,omitempty"`
	Bs    []int  `json:"bs,omitempty"`
	After int    `json:"after,omitempty"`
	Limit int    `json:"limit,omitempty"` // raw enum: 0 = parameter absent
	Form  int    `json:"form,omitempty"`
	Off   int    `json:"off,omitempty"`
	Len   int    `json:"len,omitempty"`
	Src   int    `json:"src,omitempty"`
	N     int    `json:"n,omitempty"`     // raw stat: total number of blobN parameters (padded with foreign refs)
	Wait  int    `json:"wait,omitempty"`  // raw enum: 0 absent, 1 maxwaitsec=0, 2 maxwaitsec=1; -1 = derive
	NoVer bool   `json:"nover,omitempty"` // raw stat: omit camliversion
	Get   bool   `json:"get,omitempty"`   // raw stat: GET instead of POST
}

// Job is one leg of the plan.
type Job struct {
	Leg     string   `json:"leg"`     // mut | sim | rnd | extra | big | replay
	Hist    string   `json:"hist"`    // file of histories (mut, sim, replay)
	Observe bool     `json:"observe"` // full observation after every mutator
	Stride  int      `json:"stride"`
	Offset  int      `json:"offset"`
	Vias    []string `json:"vias"`
	N       int      `json:"n"`      // universe size
	Univ    string   `json:"univ"`   // std | thr | tiny
	Random  int      `json:"random"` // rnd: number of histories
	Rlen    int      `json:"rlen"`
	Out     string   `json:"out"`    // trace file of this job ("" = the default one)
	Direct  int      `json:"direct"` // big: blobs injected through the side door instead of uploads
	Root    string   `json:"root"`   // "bs" | "root" | "" (alternate between histories)
	Tag     string   `json:"tag"`    // name of the leg in reset lines (default: Leg)
}

type Plan struct {
	Jobs []Job `json:"jobs"`
}

type server struct {
	url      string
	side     blobserver.Storage // the storage behind /bs/
	rootPath string             // discovered blob root path, e.g. /bs-and-maybe-also-index
	low      map[string]any
	canSide  bool // blobs can be removed through the side door
	hubMu    sync.Mutex
	hubGot   []blob.Ref
}

var sideDoor struct {
	sync.Mutex
	sto blobserver.Storage
}

func init() {
	// A handler type whose only job is to hand the harness the storage object that serves /bs/, so that
	// histories can be separated by removing every blob (the HTTP remove handler of the high-level
	// configuration is not deletable) and removals can be part of a history.
	blobserver.RegisterHandlerConstructor("verif-sidedoor", func(ld blobserver.Loader, conf jsonconfig.Obj) (http.Handler, error) {
		p := conf.RequiredString("storage")
		if err := conf.Validate(); err != nil {
			return nil, err
		}
		sto, err := ld.GetStorage(p)
		if err != nil {
			return nil, err
		}
		sideDoor.Lock()
		sideDoor.sto = sto
		sideDoor.Unlock()
		return http.NotFoundHandler(), nil
	})
}

func secring() string {
	for _, p := range []string{os.Getenv("VERIF_SECRING"), "/repo/pkg/jsonsign/testdata/test-secring.gpg"} {
		if p != "" {
			if _, err := os.Stat(p); err == nil {
				return p
			}
		}
	}
	return ""
}

func startServer(store, index, dir string) (*server, error) {
	hc := serverconfig.Config{Listen: "localhost:0", Identity: "26F5ABDA", IdentitySecretRing: secring(),
		Auth: "userpass:u:p", ShareHandler: true}
	bp := filepath.Join(dir, "blobs")
	switch store {
	case "memory":
		hc.MemoryStorage = true
	case "localdisk":
		hc.BlobPath = bp
	case "diskpacked":
		hc.BlobPath = bp
		hc.PackBlobs = true
	case "blobpacked":
		hc.BlobPath = bp
		hc.PackRelated = true
	default:
		return nil, fmt.Errorf("unknown store %q", store)
	}
	if hc.BlobPath != "" {
		for _, d := range []string{bp, filepath.Join(bp, "packed"), filepath.Join(bp, "cache")} {
			if err := os.MkdirAll(d, 0700); err != nil {
				return nil, err
			}
		}
	}
	switch index {
	case "memory":
		hc.MemoryIndex = true
	case "leveldb":
		hc.LevelDB = filepath.Join(dir, "index.leveldb")
	case "kv":
		hc.KVFile = filepath.Join(dir, "index.kv")
	case "sqlite":
		hc.SQLite = filepath.Join(dir, "index.sqlite")
	default:
		return nil, fmt.Errorf("unknown index %q", index)
	}
	js, err := json.Marshal(hc)
	if err != nil {
		return nil, err
	}
	os.Setenv("CAMLI_CONFIG_DIR", filepath.Join(dir, "cfgdir"))
	cfg, err := serverinit.Load(js)
	if err != nil {
		return nil, fmt.Errorf("serverinit.Load: %v", err)
	}
	// LowLevelJSONConfig returns a shallow copy: its "prefixes" map IS the one InstallHandlers reads.
	low := cfg.LowLevelJSONConfig()
	prefixes, ok := low["prefixes"].(map[string]any)
	if !ok {
		return nil, fmt.Errorf("generated low-level config has no prefixes map (%T)", low["prefixes"])
	}
	prefixes["/verif-sidedoor/"] = map[string]any{"handler": "verif-sidedoor", "handlerArgs": map[string]any{"storage": "/bs/"}}
	mux := http.NewServeMux()
	ts := httptest.NewServer(mux)
	if _, err := cfg.InstallHandlers(mux, ts.URL); err != nil {
		return nil, fmt.Errorf("InstallHandlers: %v", err)
	}
	sideDoor.Lock()
	side := sideDoor.sto
	sideDoor.Unlock()
	if side == nil {
		return nil, fmt.Errorf("side door not installed")
	}
	s := &server{url: ts.URL, side: side, low: low}
	blobserver.GetHub(side).AddReceiveHook(func(sb blob.SizedRef) error {
		s.hubMu.Lock()
		s.hubGot = append(s.hubGot, sb.Ref)
		s.hubMu.Unlock()
		return nil
	})
	return s, nil
}

func (s *server) takeHub() []blob.Ref {
	s.hubMu.Lock()
	defer s.hubMu.Unlock()
	g := s.hubGot
	s.hubGot = nil
	return g
}

func fatal(err error) {
	fmt.Fprintln(os.Stderr, "c18:", err)
	os.Exit(2)
}

func readHists(path string) ([][]Op, error) {
	f, err := os.Open(path)
	if err != nil {
		return nil, err
	}
	defer f.Close()
	var out [][]Op
	sc := bufio.NewScanner(f)
	sc.Buffer(make([]byte, 1<<20), 1<<26)
	for sc.Scan() {
		var h []Op
		if err := json.Unmarshal(sc.Bytes(), &h); err != nil {
			return nil, fmt.Errorf("bad history line: %v", err)
		}
		out = append(out, h)
	}
	return out, sc.Err()
}

func main() {
	store := flag.String("store", "memory", "blob storage: memory | localdisk | diskpacked | blobpacked")
	index := flag.String("index", "memory", "index: memory | leveldb | kv | sqlite")
	planF := flag.String("plan", "", "plan file (JSON)")
	out := flag.String("out", "trace.ndjson", "default trace output")
	seed := flag.Int64("seed", 1, "seed")
	verbose := flag.Bool("v", false, "perkeep logs to stderr")
	dumpLow := flag.String("dumplow", "", "write the generated low-level configuration here")
	flag.Parse()
	if !*verbose {
		log.SetOutput(io.Discard)
	}
	var plan Plan
	pb, err := os.ReadFile(*planF)
	if err != nil {
		fatal(err)
	}
	if err := json.Unmarshal(pb, &plan); err != nil {
		fatal(err)
	}
	base, err := os.MkdirTemp("", "verif-c18-")
	if err != nil {
		fatal(err)
	}
	// diskpacked.RemoveBlobs deadlocks over a sqlite metaIndex (BeginBatch holds sqlkv's gate of 1 while
	// delete() -> meta() -> Get waits for it): no side-door removal there; every history gets a new server.
	canSide := !(*store == "diskpacked" && *index == "sqlite")
	nsrv := 0
	var srv *server
	var cl, clBS *client.Client
	newServer := func() {
		nsrv++
		dir := filepath.Join(base, fmt.Sprintf("s%d", nsrv))
		if err := os.MkdirAll(dir, 0700); err != nil {
			fatal(err)
		}
		s, err := startServer(*store, *index, dir)
		if err != nil {
			os.RemoveAll(base)
			fatal(err)
		}
		s.canSide = canSide
		srv = s
		cl, err = client.New(client.OptionServer(srv.url), client.OptionAuthMode(auth.NewBasicAuth("u", "p")), client.OptionNoExternalConfig())
		if err != nil {
			fatal(err)
		}
		root, err := cl.BlobRoot()
		if err != nil {
			fatal(fmt.Errorf("discovery: %v", err))
		}
		if u, err := url.Parse(root); err == nil && u.Path != "" {
			root = u.Path
		}
		srv.rootPath = strings.TrimRight(root, "/")
		clBS, err = client.New(client.OptionServer(srv.url+"/bs"), client.OptionAuthMode(auth.NewBasicAuth("u", "p")), client.OptionNoExternalConfig())
		if err != nil {
			fatal(err)
		}
	}
	newServer()
	if *dumpLow != "" {
		b, _ := json.MarshalIndent(srv.low, "", " ")
		os.WriteFile(*dumpLow, b, 0600)
	}
	logs := map[string]*gate.Log{}
	getLog := func(p string) *gate.Log {
		if p == "" {
			p = *out
		}
		if l, ok := logs[p]; ok {
			return l
		}
		l, err := gate.NewFileLog(p)
		if err != nil {
			fatal(err)
		}
		logs[p] = l
		return l
	}
	cfgName := *store + "+" + *index
	nh := 0
	for _, job := range plan.Jobs {
		lg := getLog(job.Out)
		u := makeUniverse(job, *seed)
		var hists [][]Op
		switch job.Leg {
		case "mut", "sim", "replay":
			hs, err := readHists(job.Hist)
			if err != nil {
				fatal(err)
			}
			hists = hs
		case "rnd":
			rng := rand.New(rand.NewSource(*seed*7919 + int64(len(cfgName))))
			for i := 0; i < job.Random; i++ {
				hists = append(hists, randomHist(rng, u.N(), job.Rlen))
			}
		case "extra":
			hists = [][]Op{nil}
		case "big":
			hists = [][]Op{nil}
		default:
			fatal(fmt.Errorf("unknown leg %q", job.Leg))
		}
		legName := job.Leg
		if job.Tag != "" {
			legName = job.Tag
		}
		stride := job.Stride
		if stride <= 0 {
			stride = 1
		}
		vias := job.Vias
		if len(vias) == 0 {
			vias = []string{"client", "raw"}
		}
		for hi, h := range hists {
			if hi%stride != job.Offset%stride {
				continue
			}
			for vi, via := range vias {
				// the blob root alternates between /bs/ and the discovered root
				useRoot := (hi/stride+vi)%2 == 1
				if job.Root != "" {
					useRoot = job.Root == "root"
				}
				if !canSide && nh > 0 {
					newServer()
				}
				r := &runner{srv: srv, u: u, lg: lg, via: via, cfg: cfgName, leg: legName, hi: hi, believed: map[int]bool{}}
				if via == "client" {
					r.cl = clBS
					r.rootName = "/bs"
					if useRoot {
						r.cl = cl
						r.rootName = srv.rootPath
					}
				} else if via == "clienthc" {
					r.rootName = "/bs"
					if useRoot {
						r.rootName = srv.rootPath
					}
					c, err := client.New(client.OptionServer(srv.url+r.rootName), client.OptionAuthMode(auth.NewBasicAuth("u", "p")), client.OptionNoExternalConfig())
					if err != nil {
						fatal(err)
					}
					r.hc = &memHaveCache{m: map[blob.Ref]uint32{}}
					c.SetHaveCache(r.hc)
					r.cl = c
				} else {
					r.rootName = "/bs"
					if useRoot {
						r.rootName = srv.rootPath
					}
					r.raw = newRaw(srv.url+r.rootName, u)
				}
				if err := r.cleanup(); err != nil {
					fatal(err)
				}
				r.reset()
				switch job.Leg {
				case "extra":
					r.extras()
				case "big":
					r.big(job.Direct)
				default:
					r.play(h, job.Observe)
				}
				if err := r.cleanup(); err != nil {
					fatal(err)
				}
				nh++
			}
		}
	}
	total := int64(0)
	for _, l := range logs {
		total += l.Len()
		if err := l.Close(); err != nil {
			fatal(err)
		}
	}
	fmt.Printf("histories=%d events=%d\n", nh, total)
	// The server is not shut down: closing the index under the still-running sync handler makes perkeep
	// panic (nil *sql.Tx in sqlkv.CommitBatch), which has nothing to do with the protocol.
	os.RemoveAll(base)
	os.Exit(0)
}

func makeUniverse(job Job, seed int64) *univ.Universe {
	n := job.N
	switch job.Univ {
	case "thr":
		// sizes around the 32 KiB threshold below which the get handler slurps and sniffs the blob
		mk := func(sz int, salt byte) []byte {
			b := make([]byte, sz)
			for i := range b {
				b[i] = byte((int64(i)*31+seed*17)%249) ^ salt
			}
			return b
		}
		specs := []univ.Spec{
			{Hash: "sha224", Data: []byte{}, Kind: "empty"},
			{Hash: "sha224", Data: []byte{byte('a' + seed%20)}, Kind: "one"},
			{Hash: "sha224", Data: mk(32767, 1), Kind: "thr-1"},
			{Hash: "sha224", Data: mk(32768, 2), Kind: "thr"},
			{Hash: "sha1", Data: mk(32769, 3), Kind: "thr+1"},
			{Hash: "sha256", Data: []byte(fmt.Sprintf("plain utf8 text %d", seed)), Kind: "small"},
			{Hash: "sha224", Data: []byte(fmt.Sprintf(`{"camliVersion": 1, "camliType": "bytes", "parts": [], "y": %d}`, seed)), Kind: "schema"},
			{Hash: "sha224", Data: mk(1<<20+77, 4), Kind: "big"},
		}
		return univ.New(specs)
	case "tiny":
		specs := make([]univ.Spec, n)
		for i := range specs {
			h := "sha224"
			if i%5 == 1 {
				h = "sha1"
			} else if i%5 == 3 {
				h = "sha256"
			}
			specs[i] = univ.Spec{Hash: h, Data: []byte(fmt.Sprintf("tiny-%d-%d", i, seed)), Kind: "small"}
		}
		return univ.New(specs)
	}
	if n == 0 {
		n = 4
	}
	return univ.Standard(n, seed)
}

func randomHist(rng *rand.Rand, n, ln int) []Op {
	var h []Op
	rk := func() int { return 2 * (1 + rng.Intn(n)) }
	set := func() []int {
		var s []int
		for i := 1; i <= n; i++ {
			if rng.Intn(3) == 0 {
				s = append(s, 2*i)
			}
		}
		if len(s) == 0 {
			s = []int{rk()}
		}
		return s
	}
	for i := 0; i < ln; i++ {
		switch x := rng.Intn(20); {
		case x < 5:
			h = append(h, Op{Op: "receive", B: rk(), Src: rng.Intn(3)})
		case x < 7:
			k := 2 + rng.Intn(3)
			var bs []int
			for j := 0; j < k; j++ {
				bs = append(bs, rk())
			}
			h = append(h, Op{Op: "upload", Bs: bs})
		case x < 9:
			h = append(h, Op{Op: "fetch", B: rk()})
		case x < 10:
			h = append(h, Op{Op: "head", B: rk()})
		case x < 12:
			h = append(h, Op{Op: "subfetch", B: rk(), Off: rng.Intn(7), Len: 1 + rng.Intn(6)})
		case x < 14:
			o := Op{Op: "stat", Bs: set(), Get: rng.Intn(2) == 0}
			if rng.Intn(4) == 0 {
				o.N = []int{len(o.Bs) + 1, 37, 999, 1000, 1001}[rng.Intn(5)]
			}
			h = append(h, o)
		case x < 18:
			lim := []int{0, 1, 2, 3, 1 + rng.Intn(n+1), 20000}[rng.Intn(6)]
			h = append(h, Op{Op: "enum", After: rng.Intn(2*n + 3), Limit: lim, Form: rng.Intn(6), Wait: rng.Intn(3)})
		default:
			h = append(h, Op{Op: "remove", Bs: set()})
		}
	}
	return h
}
