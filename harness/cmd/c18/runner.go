package main

import (
	"bytes"
	"context"
	"errors"
	"fmt"
	"io"
	"os"
	"sort"
	"strings"
	"sync"
	"time"

	"perkeep.org/pkg/blob"
	"perkeep.org/pkg/blobserver"
	"perkeep.org/pkg/client"

	"verif/drv"
	"verif/gate"
	"verif/univ"
)

// fastWithin: a reply that took longer is logged fast=false. maxwaitsec=1 that wrongly waits takes >= 1 s.
const fastWithin = 900 * time.Millisecond

type runner struct {
	srv      *server
	u        *univ.Universe
	lg       *gate.Log
	via      string
	cl       *client.Client
	raw      *rawClient
	cfg      string
	leg      string
	hi       int
	rootName string
	// believed: ranks acknowledged as uploaded and not removed since. Used ONLY to choose inputs (a
	// long poll on an empty store costs a full second), never to judge a reply.
	believed   map[int]bool
	hc         *memHaveCache // via "clienthc" only
	slowBudget int
	opIndex    int
}

func (r *runner) refs(ranks []int) []blob.Ref {
	out := make([]blob.Ref, len(ranks))
	for i, k := range ranks {
		out[i] = r.u.ByRank(k).Ref
	}
	return out
}

func (r *runner) allRanks() []int {
	var all []int
	for _, b := range r.u.Blobs {
		all = append(all, b.Rank)
	}
	return all
}

// cleanup empties the storage behind /bs/ through the side door and checks that it is empty.
func (r *runner) cleanup() error {
	if !r.srv.canSide {
		return nil // a new server per history instead
	}
	ctx, cancel := context.WithTimeout(context.Background(), 60*time.Second)
	defer cancel()
	done := make(chan error, 1)
	go func() { done <- r.cleanup1(ctx) }()
	select {
	case err := <-done:
		return err
	case <-time.After(60 * time.Second):
		return fmt.Errorf("side-door cleanup hangs")
	}
}

func (r *runner) cleanup1(ctx context.Context) error {
	var have []blob.Ref
	if err := blobserver.EnumerateAll(ctx, r.srv.side, func(sb blob.SizedRef) error {
		have = append(have, sb.Ref)
		return nil
	}); err != nil {
		return fmt.Errorf("side-door enumerate: %v", err)
	}
	for len(have) > 0 {
		n := len(have)
		if n > 500 {
			n = 500
		}
		if err := r.srv.side.RemoveBlobs(ctx, have[:n]); err != nil {
			return fmt.Errorf("side-door cleanup remove: %v", err)
		}
		have = have[n:]
	}
	left := 0
	if err := blobserver.EnumerateAll(ctx, r.srv.side, func(sb blob.SizedRef) error { left++; return nil }); err != nil {
		return err
	}
	if left != 0 {
		return fmt.Errorf("side-door cleanup left %d blobs behind", left)
	}
	r.srv.takeHub()
	return nil
}

func (r *runner) reset() {
	sizes := make([]any, len(r.u.Blobs))
	kinds := make([]any, len(r.u.Blobs))
	for i, b := range r.u.Blobs {
		sizes[i] = len(b.Data)
		kinds[i] = b.Kind
	}
	r.lg.Emit(gate.Event{"ev": "reset", "cfg": r.cfg, "via": r.wireVia(), "cl": r.via, "root": map[bool]string{true: "bs", false: "root"}[r.rootName == "/bs"], "leg": r.leg, "h": r.hi,
		"sizes": sizes, "kinds": kinds, "canRemove": false, "readOnly": false, "subfetch": "no", "pre": []any{}})
}

func fill(ev gate.Event) gate.Event {
	def := map[string]any{"size": 0, "list": []any{}, "status": 0, "cont": 0, "fast": true}
	for k, v := range def {
		if _, ok := ev[k]; !ok {
			ev[k] = v
		}
	}
	return ev
}

func (r *runner) emit(ev gate.Event) gate.Event {
	ev["ev"] = "op"
	ev["via"] = r.wireVia()
	// promptness is part of the protocol only for long polls (maxwaitsec > 0)
	if !(ev["op"] == "enumwait" || ev["op"] == "enum" && ev["wait"] == 2) {
		ev["fast"] = true
	}
	fill(ev)
	r.lg.Emit(ev)
	// blob-hub notifications observed during the call (the hook runs synchronously inside Receive)
	for _, br := range r.srv.takeHub() {
		rk := r.u.RankOf(br)
		r.lg.Emit(gate.Event{"ev": "hub", "b": rk, "ref": br.String()})
	}
	if ev["res"] == "ok" {
		switch ev["op"] {
		case "receive":
			r.believed[ev["b"].(int)] = true
		case "upload":
			for _, b := range ev["bs"].([]any) {
				r.believed[b.(int)] = true
			}
		}
	}
	return ev
}

func (r *runner) sizedList(srs []blob.SizedRef, sortIt bool) []any {
	if sortIt {
		sort.Slice(srs, func(i, j int) bool { return srs[i].Ref.String() < srs[j].Ref.String() })
	}
	out := make([]any, 0, len(srs))
	for _, sr := range srs {
		rk := r.u.RankOf(sr.Ref)
		if rk < 0 {
			rk = 2*r.u.CursorRank(sr.Ref.String()) + 100001 // a rank no blob has
		}
		out = append(out, []any{rk, int(sr.Size)})
	}
	return out
}

func intsAny(x []int) []any {
	out := make([]any, len(x))
	for i, v := range x {
		out[i] = v
	}
	return out
}

func classify(err error) string {
	if err == nil {
		return "ok"
	}
	if errors.Is(err, os.ErrNotExist) {
		return "notexist"
	}
	return "other"
}

type oneByteReader struct{ r io.Reader }

func (o oneByteReader) Read(p []byte) (int, error) {
	if len(p) == 0 {
		return 0, nil
	}
	return o.r.Read(p[:1])
}

// xremove removes blobs through direct storage access (the environment's move in HTTPProto).
func (r *runner) xremove(ranks []int) {
	if !r.srv.canSide {
		return
	}
	r.hc.forget(r.refs(ranks))
	err := r.srv.side.RemoveBlobs(context.Background(), r.refs(ranks))
	ev := gate.Event{"ev": "xremove", "bs": intsAny(ranks), "res": classify(err)}
	if err != nil {
		ev["detail"] = err.Error()
	}
	r.lg.Emit(ev)
	for _, k := range ranks {
		delete(r.believed, k)
	}
	r.srv.takeHub()
}

func (r *runner) play(h []Op, observe bool) {
	if (r.cl != nil || r.raw != nil) && observe {
		r.observe()
	}
	for _, op := range h {
		r.opIndex++
		evs := r.do(op)
		bad := false
		for _, ev := range evs {
			if ev["res"] == "hang" || ev["res"] == "panic" {
				bad = true
			}
		}
		if bad {
			break
		}
		if observe && (op.Op == "receive" || op.Op == "remove" || op.Op == "upload") {
			r.observe()
		}
	}
}

// isClient: the history goes through pkg/client ("clienthc": a fresh client that has a have-cache, as pk-put's).
func (r *runner) isClient() bool { return r.via == "client" || r.via == "clienthc" }

// wireVia is the protocol client class the trace specification knows ("client" or "raw").
func (r *runner) wireVia() string {
	if r.isClient() {
		return "client"
	}
	return r.via
}

// memHaveCache is a client.HaveCache kept in memory. The harness forgets an entry when the blob is removed
// (by the history or through the side door): the cache promises nothing about blobs removed behind its back.
type memHaveCache struct {
	mu sync.Mutex
	m  map[blob.Ref]uint32
}

func (c *memHaveCache) StatBlobCache(br blob.Ref) (uint32, bool) {
	c.mu.Lock()
	defer c.mu.Unlock()
	size, ok := c.m[br]
	return size, ok
}

func (c *memHaveCache) NoteBlobExists(br blob.Ref, size uint32) {
	c.mu.Lock()
	defer c.mu.Unlock()
	c.m[br] = size
}

func (c *memHaveCache) forget(refs []blob.Ref) {
	if c == nil {
		return
	}
	c.mu.Lock()
	defer c.mu.Unlock()
	for _, br := range refs {
		delete(c.m, br)
	}
}

// do executes one abstract operation through the runner's client and logs its event(s).
func (r *runner) do(op Op) []gate.Event {
	if r.isClient() {
		return r.doClient(op)
	}
	return r.doRaw(op)
}

func (r *runner) timed(fn func()) bool {
	t0 := time.Now()
	fn()
	return time.Since(t0) < fastWithin
}

func (r *runner) doClient(op Op) []gate.Event {
	ctx, cancel := context.WithTimeout(context.Background(), 30*time.Second)
	defer cancel()
	switch op.Op {
	case "receive":
		b := r.u.ByRank(op.B)
		ev := gate.Event{"op": "receive", "b": op.B, "src": op.Src}
		var sr blob.SizedRef
		var err error
		switch op.Src % 3 {
		case 0:
			sr, err = r.cl.ReceiveBlob(ctx, b.Ref, bytes.NewReader(b.Data))
		case 1:
			// the pk-put path: stat first, skip when the server has it
			var pr *client.PutResult
			pr, err = r.cl.Upload(ctx, &client.UploadHandle{BlobRef: b.Ref, Size: uint32(len(b.Data)), Contents: bytes.NewReader(b.Data)})
			if err == nil {
				sr = pr.SizedBlobRef()
				ev["skipped"] = pr.Skipped
			}
		default:
			sr, err = r.cl.ReceiveBlob(ctx, b.Ref, oneByteReader{bytes.NewReader(b.Data)})
		}
		ev["res"] = classify(err)
		if err != nil {
			ev["detail"] = err.Error()
		} else {
			ev["size"] = int(sr.Size)
			if sr.Ref != b.Ref {
				ev["res"] = "wrongref"
			}
		}
		return []gate.Event{r.emit(ev)}
	case "upload":
		var out []gate.Event
		for _, k := range op.Bs {
			out = append(out, r.doClient(Op{Op: "receive", B: k, Src: 1})...)
		}
		return out
	case "fetch", "head":
		b := r.u.ByRank(op.B)
		ev := gate.Event{"op": "fetch", "b": op.B}
		rc, size, err := r.cl.Fetch(ctx, b.Ref)
		ev["res"] = classify(err)
		if err != nil {
			ev["detail"] = err.Error()
			return []gate.Event{r.emit(ev)}
		}
		data, rerr := io.ReadAll(rc)
		rc.Close()
		ev["size"] = int(size)
		if rerr != nil {
			ev["res"] = "readerr"
			ev["detail"] = rerr.Error()
		} else if !bytes.Equal(data, b.Data) {
			ev["res"] = "wrongbytes"
			ev["detail"] = fmt.Sprintf("got %d bytes, want %d", len(data), len(b.Data))
		}
		return []gate.Event{r.emit(ev)}
	case "subfetch":
		return nil // pkg/client has no SubFetch
	case "stat":
		ev := gate.Event{"op": "stat", "bs": intsAny(op.Bs)}
		var got []blob.SizedRef
		err := r.cl.StatBlobs(ctx, r.refs(op.Bs), func(sr blob.SizedRef) error {
			got = append(got, sr)
			return nil
		})
		ev["res"] = classify(err)
		if err != nil {
			ev["detail"] = err.Error()
		} else {
			ev["list"] = r.sizedList(got, true)
		}
		return []gate.Event{r.emit(ev)}
	case "enum":
		after := r.u.CursorString(op.After, op.Form)
		arank := r.u.CursorRank(after)
		limit := op.Limit
		if limit == 0 {
			limit = r.u.N() + 3
		}
		ev := gate.Event{"op": "enum", "after": arank, "limit": limit, "cursor": after}
		got, err := r.clientEnum(func(ch chan<- blob.SizedRef) error { return r.cl.EnumerateBlobs(ctx, ch, after, limit) })
		ev["res"] = classify(err)
		if err != nil {
			ev["detail"] = err.Error()
		} else {
			ev["list"] = r.sizedList(got, false)
		}
		return []gate.Event{r.emit(ev)}
	case "enumall":
		ev := gate.Event{"op": "enumall"}
		got, err := r.clientEnum(func(ch chan<- blob.SizedRef) error { return r.cl.SimpleEnumerateBlobs(ctx, ch) })
		ev["res"] = classify(err)
		if err != nil {
			ev["detail"] = err.Error()
		} else {
			ev["list"] = r.sizedList(got, false)
		}
		return []gate.Event{r.emit(ev)}
	case "enumwait":
		ev := gate.Event{"op": "enumwait"}
		var got []blob.SizedRef
		var err error
		call := func() {
			got, err = r.clientEnum(func(ch chan<- blob.SizedRef) error {
				return r.cl.EnumerateBlobsOpts(ctx, ch, client.EnumerateOpts{MaxWait: time.Second})
			})
		}
		fast := r.timed(call)
		for try := 0; try < 3 && !fast && len(got) > 0; try++ {
			// a transient stall of the machine is not a long poll that waits: a server that waits does so every time
			ev["retried"] = true
			fast = r.timed(call)
		}
		ev["fast"] = fast
		ev["res"] = classify(err)
		if err != nil {
			ev["detail"] = err.Error()
		} else {
			ev["list"] = r.sizedList(got, false)
		}
		return []gate.Event{r.emit(ev)}
	case "remove":
		ev := gate.Event{"op": "remove", "bs": intsAny(op.Bs)}
		err := r.cl.RemoveBlobs(ctx, r.refs(op.Bs))
		ev["res"] = classify(err)
		if err != nil {
			ev["detail"] = err.Error()
			if strings.Contains(err.Error(), "403") {
				ev["res"] = "refused"
			}
		}
		out := []gate.Event{r.emit(ev)}
		r.hc.forget(r.refs(op.Bs))
		r.xremove(op.Bs)
		return out
	}
	panic("c18: unknown op " + op.Op)
}

func (r *runner) clientEnum(call func(chan<- blob.SizedRef) error) ([]blob.SizedRef, error) {
	ch := make(chan blob.SizedRef)
	errc := make(chan error, 1)
	go func() { errc <- call(ch) }()
	var got []blob.SizedRef
	for sr := range ch {
		got = append(got, sr)
	}
	return got, <-errc
}

func (r *runner) doRaw(op Op) []gate.Event {
	switch op.Op {
	case "receive":
		b := r.u.ByRank(op.B)
		switch op.Src % 3 {
		case 0:
			return []gate.Event{r.emit(r.raw.multipart([]int{op.B}))}
		case 1:
			return []gate.Event{r.emit(r.raw.put(b, false))}
		default:
			return []gate.Event{r.emit(r.raw.put(b, true))}
		}
	case "upload":
		return []gate.Event{r.emit(r.raw.multipart(op.Bs))}
	case "fetch":
		return []gate.Event{r.emit(r.raw.get(r.u.ByRank(op.B)))}
	case "head":
		return []gate.Event{r.emit(r.raw.head(r.u.ByRank(op.B)))}
	case "subfetch":
		b := r.u.ByRank(op.B)
		off, ln := drv.OffLen(op.Off, op.Len, len(b.Data))
		if ln < 1 {
			return nil
		}
		return []gate.Event{r.emit(r.raw.rangeGet(b, off, ln))}
	case "stat":
		n := op.N
		if n < len(op.Bs) {
			n = len(op.Bs)
		}
		return []gate.Event{r.emit(r.raw.stat(op.Bs, n, !op.NoVer, op.Get))}
	case "enum":
		after := r.u.CursorString(op.After, op.Form)
		wait := op.Wait
		if wait < 0 {
			wait = (op.After + op.Limit + op.Form + r.opIndex) % 3
		}
		if wait == 2 && after == "" && len(r.believed) == 0 {
			// a long poll on a (believed) empty store blocks for the whole second: only a few of them
			if r.slowBudget <= 0 {
				wait = 1
			} else {
				r.slowBudget--
			}
		}
		ev := r.raw.enum(after, op.Limit, wait)
		for try := 0; try < 3; try++ {
			lst, _ := ev["list"].([]any)
			if !(wait == 2 && ev["fast"] == false && len(lst) > 0) {
				break
			}
			// a transient stall of the machine is not a long poll that waits: a server that waits does so every time
			ev = r.raw.enum(after, op.Limit, wait)
			ev["retried"] = true
		}
		return []gate.Event{r.emit(ev)}
	case "remove":
		out := []gate.Event{r.emit(r.raw.remove(op.Bs))}
		r.xremove(op.Bs)
		return out
	}
	panic("c18: unknown op " + op.Op)
}

// observe makes a full observation of the server's blob root through the runner's client.
func (r *runner) observe() {
	all := r.allRanks()
	n := len(all)
	if r.isClient() {
		r.do(Op{Op: "stat", Bs: all})
		for _, k := range all {
			r.do(Op{Op: "fetch", B: k})
		}
		for _, lim := range []int{1, 2, n + 3} {
			cur := 0
			for step := 0; step <= n+1; step++ {
				ev := r.do(Op{Op: "enum", After: cur, Limit: lim})[0]
				lst, _ := ev["list"].([]any)
				if ev["res"] != "ok" || len(lst) == 0 {
					break
				}
				last := lst[len(lst)-1].([]any)[0].(int)
				if last <= cur || last%2 != 0 || last > 2*n {
					break // the validator reports it
				}
				cur = last
			}
		}
		r.do(Op{Op: "enumall"})
		if len(r.believed) > 0 {
			r.do(Op{Op: "enumwait"})
		}
		return
	}
	r.do(Op{Op: "stat", Bs: all, Get: r.opIndex%2 == 0})
	for i, k := range all {
		r.do(Op{Op: "fetch", B: k})
		if (i+r.opIndex)%2 == 0 {
			r.do(Op{Op: "head", B: k})
		}
	}
	// pages: follow continueAfter, and nothing else, as a protocol client does
	for _, lim := range []int{1, 2, 0} {
		cur := 0
		for step := 0; step <= n+1; step++ {
			ev := r.do(Op{Op: "enum", After: cur, Limit: lim, Wait: step % 2})[0]
			c, _ := ev["cont"].(int)
			if ev["res"] != "ok" || c == 0 || c <= cur || c%2 != 0 || c > 2*n {
				break
			}
			cur = c
		}
	}
	if len(r.believed) > 0 {
		r.do(Op{Op: "enum", Limit: 0, Wait: 2})
	}
	k := all[r.opIndex%n]
	r.do(Op{Op: "subfetch", B: k, Off: 1 + r.opIndex%4, Len: 1 + r.opIndex%5})
}

// extras: the wire-level cases the generated histories do not contain.
func (r *runner) extras() {
	all := r.allRanks()
	n := len(all)
	r.slowBudget = 1
	if r.isClient() {
		r.do(Op{Op: "enumall"})
		r.do(Op{Op: "enumwait"}) // empty store: may take the whole second
		for i, k := range all {
			r.do(Op{Op: "receive", B: k, Src: i})
		}
		for _, k := range all {
			r.do(Op{Op: "receive", B: k, Src: 1}) // stat says present: skipped
		}
		r.observe()
		r.do(Op{Op: "enum", After: 0, Limit: 20000})
		r.do(Op{Op: "remove", Bs: all[:n/2]})
		r.observe()
		return
	}
	r.do(Op{Op: "enum", Limit: 0, Wait: 2}) // long poll on the empty store
	r.do(Op{Op: "stat", Bs: nil, N: 0})
	r.do(Op{Op: "stat", Bs: all, N: n})
	r.do(Op{Op: "upload", Bs: all[:3]})
	for i, k := range all[3:] {
		r.do(Op{Op: "receive", B: k, Src: i})
	}
	r.do(Op{Op: "upload", Bs: []int{all[0], all[0], all[n-1]}}) // re-upload, a part twice
	for _, k := range all {
		b := r.u.ByRank(k)
		r.do(Op{Op: "fetch", B: k})
		r.do(Op{Op: "head", B: k})
		s := int64(len(b.Data))
		for _, ol := range [][2]int64{{0, 1}, {s - 1, 5}, {s, 1}, {s / 2, s}, {32767, 2}, {32768, 1 << 20}, {s + 9, 3}} {
			if ol[0] < 0 || ol[1] < 1 {
				continue
			}
			r.emit(r.raw.rangeGet(b, ol[0], ol[1]))
		}
	}
	for _, pad := range []int{1, 2, n, n + 1, 37, 999, 1000, 1001, 1500} {
		bs := all
		if pad < n {
			bs = all[:pad]
		}
		r.do(Op{Op: "stat", Bs: bs, N: pad})
		r.do(Op{Op: "stat", Bs: bs, N: pad, Get: true})
	}
	r.do(Op{Op: "stat", Bs: all, NoVer: true})
	r.do(Op{Op: "stat", Bs: []int{all[1], all[1], all[2]}, N: 3}) // a ref twice
	for _, lim := range []int{0, 1, 2, 3, n - 1, n, n + 1, 100, 10000, 10001, 20000} {
		for _, w := range []int{0, 1, 2} {
			cur := 0
			for step := 0; step <= n+1; step++ {
				ev := r.do(Op{Op: "enum", After: cur, Limit: lim, Wait: w})[0]
				c, _ := ev["cont"].(int)
				if ev["res"] != "ok" || c == 0 || c <= cur || c%2 != 0 || c > 2*n {
					break
				}
				cur = c
				if w == 2 {
					// maxwaitsec>0 with after is refused: show it once, then go on without
					r.do(Op{Op: "enum", After: cur, Limit: lim, Wait: 2})
					w = 0
				}
			}
		}
	}
	for a := 0; a <= 2*n+1; a++ {
		for f := 0; f < 3; f++ {
			r.do(Op{Op: "enum", After: a, Limit: 2, Form: f, Wait: f % 2})
		}
	}
	r.do(Op{Op: "remove", Bs: all[:n/2]})
	r.observe()
}

// big: a universe large enough to fill default-sized pages and whole stat batches.
func (r *runner) big(direct int) {
	all := r.allRanks()
	n := len(all)
	ctx := context.Background()
	if direct > 0 {
		// blobs put into the storage behind the server's back (fast); the server must serve them
		for i := 0; i < n; i++ {
			b := r.u.ByRank(all[i])
			if _, err := blobserver.Receive(ctx, r.srv.side, b.Ref, bytes.NewReader(b.Data)); err != nil {
				fatal(fmt.Errorf("big: direct receive: %v", err))
			}
		}
		r.srv.takeHub()
		pre := intsAny(all)
		r.lg.Emit(gate.Event{"ev": "reset", "cfg": r.cfg, "via": r.wireVia(), "cl": r.via, "root": map[bool]string{true: "bs", false: "root"}[r.rootName == "/bs"], "leg": r.leg, "h": r.hi,
			"sizes": func() []any {
				s := make([]any, n)
				for i, b := range r.u.Blobs {
					s[i] = len(b.Data)
				}
				return s
			}(), "kinds": []any{}, "canRemove": false, "readOnly": false, "subfetch": "no", "pre": pre})
		for _, k := range all {
			r.believed[k] = true
		}
	} else if r.via == "raw" {
		for i := 0; i < n; i += 50 {
			j := i + 50
			if j > n {
				j = n
			}
			r.do(Op{Op: "upload", Bs: all[i:j]})
		}
	} else {
		for i, k := range all {
			r.do(Op{Op: "receive", B: k, Src: i % 3})
		}
	}
	if r.isClient() {
		r.do(Op{Op: "enumall"})
		r.do(Op{Op: "enumwait"})
		r.do(Op{Op: "enum", After: 0, Limit: n/2 + 1})
		r.do(Op{Op: "enum", After: all[n/3], Limit: 20000})
		if n <= 2000 {
			r.do(Op{Op: "stat", Bs: all})
		}
		return
	}
	for _, lim := range []int{0, 7, 100, 101, 10000, 20000} {
		if lim == 7 && n > 2000 {
			continue
		}
		cur := 0
		for step := 0; step <= n+1; step++ {
			ev := r.do(Op{Op: "enum", After: cur, Limit: lim, Wait: step % 2})[0]
			c, _ := ev["cont"].(int)
			if ev["res"] != "ok" || c == 0 || c <= cur || c%2 != 0 || c > 2*n {
				break
			}
			cur = c
		}
	}
	r.do(Op{Op: "enum", Limit: 0, Wait: 2})
	for i := 0; i < n; i += 1000 {
		j := i + 1000
		if j > n {
			j = n
		}
		r.do(Op{Op: "stat", Bs: all[i:j], N: j - i})
	}
	if n < 1000 {
		r.do(Op{Op: "stat", Bs: all, N: 1000})
		r.do(Op{Op: "stat", Bs: all, N: 999})
		r.do(Op{Op: "stat", Bs: all, N: 1001})
	} else {
		r.do(Op{Op: "stat", Bs: all[:1001], N: 1001})
	}
	for _, k := range []int{all[0], all[n/2], all[n-1]} {
		r.do(Op{Op: "fetch", B: k})
		r.do(Op{Op: "head", B: k})
	}
}
