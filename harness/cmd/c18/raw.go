package main

import (
	"bytes"
	"crypto/sha256"
	"encoding/json"
	"fmt"
	"io"
	"mime/multipart"
	"net/http"
	"net/textproto"
	"net/url"
	"sort"
	"strings"
	"time"

	"perkeep.org/pkg/blob"

	"verif/gate"
	"verif/univ"
)

// rawClient speaks the documented protocol (doc/protocol/blob-*.md) with net/http only.
type rawClient struct {
	base string // e.g. http://127.0.0.1:1234/bs
	hc   *http.Client
	u    *univ.Universe
}

func newRaw(base string, u *univ.Universe) *rawClient {
	tr := &http.Transport{DisableCompression: true, MaxIdleConnsPerHost: 4}
	return &rawClient{base: base, u: u, hc: &http.Client{Transport: tr, Timeout: 40 * time.Second}}
}

type rawResp struct {
	status int
	clen   int64
	body   []byte
	fast   bool
	err    error
}

func (c *rawClient) do(req *http.Request) rawResp {
	req.SetBasicAuth("u", "p")
	t0 := time.Now()
	resp, err := c.hc.Do(req)
	if err != nil {
		return rawResp{err: err}
	}
	defer resp.Body.Close()
	body, err := io.ReadAll(resp.Body)
	// only a long poll (maxwaitsec > 0) has a latency the protocol speaks about; everything else is "fast" by definition
	// (a loaded machine may need a second for a 10 000-blob page)
	fast := true
	if mw := req.URL.Query().Get("maxwaitsec"); mw != "" && mw != "0" {
		fast = time.Since(t0) < fastWithin
	}
	return rawResp{status: resp.StatusCode, clen: resp.ContentLength, body: body, fast: fast, err: err}
}

func transportErr(ev gate.Event, rr rawResp) gate.Event {
	ev["res"] = "transport"
	ev["detail"] = rr.err.Error()
	ev["status"] = rr.status
	return ev
}

type sizedJSON struct {
	BlobRef string `json:"blobRef"`
	Size    int    `json:"size"`
}

func (c *rawClient) rankOfText(s string) int {
	if br, ok := blob.Parse(s); ok {
		if rk := c.u.RankOf(br); rk >= 0 {
			return rk
		}
	}
	return 2*c.u.CursorRank(s) + 100001 // not a blob of the universe: a rank no blob has
}

func (c *rawClient) list(items []sizedJSON, sortIt bool) []any {
	if sortIt {
		sort.SliceStable(items, func(i, j int) bool { return items[i].BlobRef < items[j].BlobRef })
	}
	out := make([]any, 0, len(items))
	for _, it := range items {
		out = append(out, []any{c.rankOfText(it.BlobRef), it.Size})
	}
	return out
}

// multipart POSTs the given blobs (ranks, in order) to $root/camli/upload.
func (c *rawClient) multipart(ranks []int) gate.Event {
	ev := gate.Event{"op": "upload", "bs": intsAny(ranks)}
	var buf bytes.Buffer
	mw := multipart.NewWriter(&buf)
	for i, k := range ranks {
		b := c.u.ByRank(k)
		h := textproto.MIMEHeader{}
		h.Set("Content-Disposition", fmt.Sprintf(`form-data; name="%s"; filename="blob%d"`, b.Ref, i+1))
		h.Set("Content-Type", "application/octet-stream")
		pw, err := mw.CreatePart(h)
		if err != nil {
			panic(err)
		}
		pw.Write(b.Data)
	}
	mw.Close()
	req, _ := http.NewRequest("POST", c.base+"/camli/upload", &buf)
	req.Header.Set("Content-Type", mw.FormDataContentType())
	rr := c.do(req)
	if rr.err != nil {
		return transportErr(ev, rr)
	}
	ev["status"] = rr.status
	ev["fast"] = rr.fast
	if rr.status != 200 {
		ev["res"] = fmt.Sprintf("http%d", rr.status)
		ev["detail"] = string(rr.body)
		return ev
	}
	var ur struct {
		Received  []sizedJSON `json:"received"`
		ErrorText string      `json:"errorText"`
	}
	if err := json.Unmarshal(rr.body, &ur); err != nil || ur.Received == nil {
		ev["res"] = "badjson"
		ev["detail"] = string(rr.body)
		return ev
	}
	ev["res"] = "ok"
	if ur.ErrorText != "" {
		ev["res"] = "errortext"
		ev["detail"] = ur.ErrorText
	}
	ev["list"] = c.list(ur.Received, false)
	return ev
}

// put PUTs one blob to its URL.
func (c *rawClient) put(b *univ.Blob, chunked bool) gate.Event {
	ev := gate.Event{"op": "receive", "b": b.Rank, "chunked": chunked}
	var body io.Reader = bytes.NewReader(b.Data)
	if chunked {
		body = struct{ io.Reader }{body} // unknown length: chunked transfer encoding
	}
	req, _ := http.NewRequest("PUT", c.base+"/camli/"+b.Ref.String(), body)
	rr := c.do(req)
	if rr.err != nil {
		return transportErr(ev, rr)
	}
	ev["status"] = rr.status
	ev["fast"] = rr.fast
	switch {
	case rr.status == 204 || rr.status == 200 || rr.status == 201:
		ev["res"] = "ok"
	default:
		ev["res"] = fmt.Sprintf("http%d", rr.status)
		ev["detail"] = string(rr.body)
	}
	return ev
}

func (c *rawClient) get(b *univ.Blob) gate.Event {
	ev := gate.Event{"op": "fetch", "b": b.Rank, "clen": 0}
	req, _ := http.NewRequest("GET", c.base+"/camli/"+b.Ref.String(), nil)
	rr := c.do(req)
	if rr.err != nil && rr.status == 0 {
		return transportErr(ev, rr)
	}
	ev["status"] = rr.status
	ev["fast"] = rr.fast
	switch rr.status {
	case 200:
		ev["size"] = len(rr.body)
		ev["clen"] = int(rr.clen)
		ev["res"] = "ok"
		if rr.err != nil {
			ev["res"] = "readerr"
			ev["detail"] = rr.err.Error()
		} else if !bytes.Equal(rr.body, b.Data) {
			ev["res"] = "wrongbytes"
			ev["detail"] = fmt.Sprintf("got %d bytes, want %d", len(rr.body), len(b.Data))
		}
	case 404:
		ev["res"] = "notexist"
	default:
		ev["res"] = fmt.Sprintf("http%d", rr.status)
		ev["detail"] = string(rr.body)
	}
	return ev
}

func (c *rawClient) head(b *univ.Blob) gate.Event {
	ev := gate.Event{"op": "head", "b": b.Rank}
	req, _ := http.NewRequest("HEAD", c.base+"/camli/"+b.Ref.String(), nil)
	rr := c.do(req)
	if rr.err != nil {
		return transportErr(ev, rr)
	}
	ev["status"] = rr.status
	ev["fast"] = rr.fast
	switch rr.status {
	case 200:
		ev["res"] = "ok"
		ev["size"] = int(rr.clen)
		if len(rr.body) != 0 {
			ev["res"] = "headbody"
		}
	case 404:
		ev["res"] = "notexist"
	default:
		ev["res"] = fmt.Sprintf("http%d", rr.status)
	}
	return ev
}

// rangeGet asks for bytes off..off+ln-1.
func (c *rawClient) rangeGet(b *univ.Blob, off, ln int64) gate.Event {
	ev := gate.Event{"op": "range", "b": b.Rank, "off": off, "len": ln}
	req, _ := http.NewRequest("GET", c.base+"/camli/"+b.Ref.String(), nil)
	req.Header.Set("Range", fmt.Sprintf("bytes=%d-%d", off, off+ln-1))
	rr := c.do(req)
	if rr.err != nil && rr.status == 0 {
		return transportErr(ev, rr)
	}
	ev["status"] = rr.status
	ev["fast"] = rr.fast
	switch rr.status {
	case 200, 206:
		ev["size"] = len(rr.body)
		ev["res"] = "ok"
		want := b.Data
		if rr.status == 206 {
			if off > int64(len(b.Data)) {
				want = nil
			} else {
				end := off + ln
				if end > int64(len(b.Data)) {
					end = int64(len(b.Data))
				}
				want = b.Data[off:end]
			}
			// the slice is judged by TLC through its length; the bytes here
			if int64(len(rr.body)) != rr.clen {
				ev["res"] = "clenmismatch"
			}
		}
		if rr.err != nil {
			ev["res"] = "readerr"
		} else if len(rr.body) == len(want) && !bytes.Equal(rr.body, want) {
			ev["res"] = "wrongbytes"
		}
	case 404:
		ev["res"] = "notexist"
	case 416:
		ev["res"] = "outofrange"
	default:
		ev["res"] = fmt.Sprintf("http%d", rr.status)
	}
	return ev
}

// foreignRef returns a well-formed ref that is not a blob of the universe and was never uploaded.
func foreignRef(i int) string {
	s := sha256.Sum224([]byte(fmt.Sprintf("verif-foreign-%d", i)))
	return fmt.Sprintf("sha224-%x", s[:])
}

// stat sends blob1..blobN: the universe members first, then foreign refs up to n parameters.
func (c *rawClient) stat(ranks []int, n int, ver, useGet bool) gate.Event {
	ev := gate.Event{"op": "stat", "bs": intsAny(ranks), "n": n, "ver": ver, "method": map[bool]string{true: "GET", false: "POST"}[useGet]}
	v := url.Values{}
	if ver {
		v.Set("camliversion", "1")
	}
	for i := 0; i < n; i++ {
		if i < len(ranks) {
			v.Set(fmt.Sprintf("blob%d", i+1), c.u.ByRank(ranks[i]).Ref.String())
		} else {
			v.Set(fmt.Sprintf("blob%d", i+1), foreignRef(i))
		}
	}
	var req *http.Request
	if useGet {
		req, _ = http.NewRequest("GET", c.base+"/camli/stat?"+v.Encode(), nil)
	} else {
		req, _ = http.NewRequest("POST", c.base+"/camli/stat", strings.NewReader(v.Encode()))
		req.Header.Set("Content-Type", "application/x-www-form-urlencoded")
	}
	rr := c.do(req)
	if rr.err != nil {
		return transportErr(ev, rr)
	}
	ev["status"] = rr.status
	ev["fast"] = rr.fast
	switch rr.status {
	case 200:
		var sr struct {
			Stat []sizedJSON `json:"stat"`
		}
		if err := json.Unmarshal(rr.body, &sr); err != nil || sr.Stat == nil {
			ev["res"] = "badjson"
			ev["detail"] = string(rr.body)
			return ev
		}
		ev["res"] = "ok"
		ev["list"] = c.list(sr.Stat, true)
	case 400:
		ev["res"] = "badrequest"
		ev["detail"] = string(rr.body)
	default:
		ev["res"] = fmt.Sprintf("http%d", rr.status)
	}
	return ev
}

// enum requests one page. limit 0 = no limit parameter; wait 0 absent, 1 maxwaitsec=0, 2 maxwaitsec=1.
func (c *rawClient) enum(after string, limit, wait int) gate.Event {
	ev := gate.Event{"op": "enum", "after": c.u.CursorRank(after), "limit": limit, "wait": wait, "cursor": after}
	v := url.Values{}
	if after != "" {
		v.Set("after", after)
	}
	if limit > 0 {
		v.Set("limit", fmt.Sprint(limit))
	}
	switch wait {
	case 1:
		v.Set("maxwaitsec", "0")
	case 2:
		v.Set("maxwaitsec", "1")
	}
	req, _ := http.NewRequest("GET", c.base+"/camli/enumerate-blobs?"+v.Encode(), nil)
	rr := c.do(req)
	if rr.err != nil {
		return transportErr(ev, rr)
	}
	ev["status"] = rr.status
	ev["fast"] = rr.fast
	switch rr.status {
	case 200:
		var er struct {
			Blobs         []sizedJSON `json:"blobs"`
			ContinueAfter *string     `json:"continueAfter"`
		}
		if err := json.Unmarshal(rr.body, &er); err != nil || er.Blobs == nil {
			ev["res"] = "badjson"
			ev["detail"] = string(rr.body)
			return ev
		}
		ev["res"] = "ok"
		ev["list"] = c.list(er.Blobs, false)
		if er.ContinueAfter != nil {
			ev["cont"] = c.rankOfText(*er.ContinueAfter)
			if *er.ContinueAfter == "" {
				ev["cont"] = 100000 // key present but empty
			}
		}
	case 400:
		ev["res"] = "badrequest"
		ev["detail"] = string(rr.body)
	default:
		ev["res"] = fmt.Sprintf("http%d", rr.status)
	}
	return ev
}

func (c *rawClient) remove(ranks []int) gate.Event {
	ev := gate.Event{"op": "remove", "bs": intsAny(ranks)}
	v := url.Values{}
	for i, k := range ranks {
		v.Set(fmt.Sprintf("blob%d", i+1), c.u.ByRank(k).Ref.String())
	}
	req, _ := http.NewRequest("POST", c.base+"/camli/remove", strings.NewReader(v.Encode()))
	req.Header.Set("Content-Type", "application/x-www-form-urlencoded")
	rr := c.do(req)
	if rr.err != nil {
		return transportErr(ev, rr)
	}
	ev["status"] = rr.status
	switch rr.status {
	case 200:
		ev["res"] = "ok"
	case 403:
		ev["res"] = "refused"
	default:
		ev["res"] = fmt.Sprintf("http%d", rr.status)
	}
	return ev
}
