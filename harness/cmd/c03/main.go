// c03 explores process death at any instant for the file-per-blob store
// (over the harness VFS: freeze at every VFS call, un-synced data optionally
// lost) and for diskpacked (crash states materialised byte-exactly on a real
// directory: every prefix of the appended record, every combination of the
// three steps of a removal), followed by reopen, pack re-index and further
// operations. Events go to Trace_BlobStoreFault.tla; the VFS call log goes
// to Trace_FilesVFS.tla.
package main

import (
	"bufio"
	"context"
	"encoding/json"
	"flag"
	"fmt"
	"io"
	"log"
	"os"
	"path/filepath"
	"sort"
	"strconv"
	"strings"

	"go4.org/jsonconfig"
	"perkeep.org/pkg/blobserver"
	"perkeep.org/pkg/blobserver/diskpacked"
	"perkeep.org/pkg/blobserver/files"
	"perkeep.org/pkg/sorted"

	"verif/drv"
	"verif/gate"
	"verif/univ"
)

func fatal(err error) {
	fmt.Fprintln(os.Stderr, "c03:", err)
	os.Exit(2)
}

var (
	out     *bufio.Writer
	vfsOut  *bufio.Writer
	nSeg    int
	nStates = map[string]int{}
)

func emitAll(evs []gate.Event) {
	for _, ev := range evs {
		if _, ok := ev["flt"]; !ok && ev["ev"] == "op" {
			ev["flt"] = false
		}
		b, _ := json.Marshal(ev)
		out.Write(b)
		out.WriteByte('\n')
	}
	nSeg++
}

func main() {
	mode := flag.String("mode", "files", "files | diskpacked | dporder (fault-free diskpacked run with index markers, to be run under strace)")
	markerF := flag.String("marker", "", "dporder: file that receives the index-update markers")
	histF := flag.String("hist", "", "histories (JSON lines)")
	outF := flag.String("out", "trace.ndjson", "trace output")
	vfsF := flag.String("vfslog", "", "VFS call log output (files mode)")
	seed := flag.Int64("seed", 1, "seed")
	every := flag.Bool("everybyte", false, "diskpacked: every byte prefix of the appended record (thorough)")
	maxFile := flag.Int("max", 0, "diskpacked maxFileSize (0 = default)")
	scratch := flag.String("scratch", "", "scratch dir")
	flag.Parse()
	log.SetOutput(io.Discard)
	if *scratch == "" {
		d, err := os.MkdirTemp("", "verif-c03-")
		if err != nil {
			fatal(err)
		}
		defer os.RemoveAll(d)
		*scratch = d
	}
	of, err := os.Create(*outF)
	if err != nil {
		fatal(err)
	}
	out = bufio.NewWriterSize(of, 1<<20)
	if *vfsF != "" {
		vf, err := os.Create(*vfsF)
		if err != nil {
			fatal(err)
		}
		vfsOut = bufio.NewWriterSize(vf, 1<<20)
		defer func() { vfsOut.Flush(); vf.Close() }()
	}
	var hists [][]drv.Op
	f, err := os.Open(*histF)
	if err != nil {
		fatal(err)
	}
	sc := bufio.NewScanner(f)
	sc.Buffer(make([]byte, 1<<20), 1<<26)
	for sc.Scan() {
		var h []drv.Op
		if err := json.Unmarshal(sc.Bytes(), &h); err != nil {
			fatal(err)
		}
		hists = append(hists, h)
	}
	f.Close()
	u := univ.Standard(4, *seed)
	for hi, h := range hists {
		switch *mode {
		case "files":
			if err := filesSweep(u, hi, h); err != nil {
				fatal(err)
			}
		case "diskpacked":
			if err := dpSweep(u, hi, h, *scratch, *every, *maxFile); err != nil {
				fatal(err)
			}
		case "dporder":
			if err := dpOrder(u, hi, h, *scratch, *maxFile, *markerF); err != nil {
				fatal(err)
			}
		}
	}
	out.Flush()
	of.Close()
	cl, _ := json.Marshal(nStates)
	fmt.Printf("segments=%d classes=%s\n", nSeg, cl)
}

// ---------------------------------------------------------------- files over the harness VFS

func vfsEvent(ev gate.Event) {
	if vfsOut == nil {
		return
	}
	p, _ := ev["p"].(string)
	e := map[string]any{"call": ev["call"], "p": p, "to": "", "len": 0, "dat": strings.HasSuffix(p, ".dat"), "todat": false}
	switch ev["call"] {
	case "Rename":
		from, _ := ev["from"].(string)
		to, _ := ev["to"].(string)
		e["p"], e["to"] = from, to
		e["dat"] = strings.HasSuffix(from, ".dat")
		e["todat"] = strings.HasSuffix(to, ".dat")
	case "Write", "Sync":
		if n, ok := ev["len"].(int); ok {
			e["len"] = n
		}
	case "TempFile", "Close", "Remove":
	default:
		return
	}
	if ev["res"] != "ok" {
		return
	}
	b, _ := json.Marshal(e)
	vfsOut.Write(b)
	vfsOut.WriteByte('\n')
}

func vfsMark(call string) {
	if vfsOut == nil {
		return
	}
	b, _ := json.Marshal(map[string]any{"call": call, "p": "", "to": "", "len": 0, "dat": false, "todat": false})
	vfsOut.Write(b)
	vfsOut.WriteByte('\n')
}

type filesWorld struct {
	disk *gate.Disk
	plan *gate.Plan
	mem  *gate.Log
	r    *drv.Runner
}

func newFilesWorld(u *univ.Universe, disk *gate.Disk) *filesWorld {
	w := &filesWorld{disk: disk, plan: gate.NewPlan(), mem: gate.NewLog()}
	v := gate.NewVFS(disk, w.plan, w.mem)
	v.MkdirAll("/root", 0700)
	w.mem.Reset()
	sto := files.NewStorage(v, "/root")
	w.r = &drv.Runner{U: u, Sto: sto, Caps: drv.Caps{CanRemove: true, SubFetch: "yes"}}
	return w
}

func compactObserve(r *drv.Runner, emit func(gate.Event), stream bool) {
	var all []int
	for _, b := range r.U.Blobs {
		all = append(all, b.Rank)
	}
	emit(r.Do(drv.Op{Op: "stat", Bs: all}))
	for _, b := range r.U.Blobs {
		emit(r.Do(drv.Op{Op: "fetch", B: b.Rank}))
	}
	emit(r.Do(drv.Op{Op: "enum", After: 0, Limit: len(all) + 2}))
	emit(r.Do(drv.Op{Op: "enum", After: 3, Limit: 1}))
	emit(r.Do(drv.Op{Op: "subfetch", B: r.U.Blobs[1].Rank, Off: 1, Len: 3}))
	if stream {
		emit(r.Do(drv.Op{Op: "stream"}))
	}
}

func filesSweep(u *univ.Universe, hi int, h []drv.Op) error {
	// fault-free run: count VFS calls per op, and validate its VFS log
	w0 := newFilesWorld(u, gate.NewDisk())
	var bounds []int // VFS call count after each op
	vfsMark("reset")
	for _, op := range h {
		w0.mem.Reset()
		w0.r.Do(op)
		for _, ev := range w0.mem.Events() {
			vfsEvent(ev)
		}
		vfsMark("end")
		bounds = append(bounds, w0.plan.Calls())
	}
	K := w0.plan.Calls()
	for k := 1; k <= K; k++ {
		// which op does call k belong to?
		j := sort.SearchInts(bounds, k)
		if j >= len(h) {
			break
		}
		if h[j].Op != "receive" && h[j].Op != "remove" {
			continue // death during a read changes nothing durable
		}
		w := newFilesWorld(u, gate.NewDisk())
		base := w.plan.Calls()
		w.plan.FreezeAt = base + k
		var prefix []gate.Event
		reset := w.r.ResetEvent("filesvfs")
		reset["h"] = hi
		reset["pre"] = []any{}
		prefix = append(prefix, reset)
		for x := 0; x <= j; x++ {
			ev := w.r.Do(h[x])
			if x == j {
				if !w.plan.Frozen() {
					// the call sequence differed from the fault-free run; nothing to crash here
					prefix = nil
					break
				}
				ev["flt"] = true
				ev["res"] = "failed"
				ev["size"] = 0
				ev["list"] = []any{}
			}
			prefix = append(prefix, ev)
		}
		if prefix == nil {
			continue
		}
		// un-synced data: kept / lost down to the synced prefix / half way
		unsynced := false
		for _, fst := range w.disk.Files() {
			if fst.Synced < fst.Len {
				unsynced = true
			}
		}
		patterns := []string{"keep"}
		if unsynced {
			patterns = append(patterns, "synced", "half")
		}
		for _, pat := range patterns {
			clone := w.disk.CrashClone(func(path string, synced, n int) int {
				switch pat {
				case "synced":
					return synced
				case "half":
					return synced + (n-synced)/2
				}
				return n
			})
			evs := append([]gate.Event(nil), cloneEvents(prefix)...)
			evs[0]["crash"] = map[string]any{"k": k, "op": h[j].Op, "loss": pat}
			w2 := newFilesWorld(u, clone)
			emit := func(ev gate.Event) { evs = append(evs, ev) }
			emit(gate.Event{"ev": "recover", "res": "ok"})
			compactObserve(w2.r, emit, false)
			for x := j; x < len(h); x++ { // the client retries the interrupted call, then goes on
				emit(w2.r.Do(h[x]))
			}
			compactObserve(w2.r, emit, false)
			emitAll(evs)
			nStates["files/"+h[j].Op+"/"+pat]++
		}
	}
	return nil
}

func cloneEvents(evs []gate.Event) []gate.Event {
	out := make([]gate.Event, len(evs))
	for i, e := range evs {
		c := gate.Event{}
		for k, v := range e {
			c[k] = v
		}
		out[i] = c
	}
	return out
}

// ---------------------------------------------------------------- diskpacked on a real directory

type dpWorld struct {
	dir string
	kv  sorted.KeyValue
	sto blobserver.Storage
	r   *drv.Runner
}

var dpSeq int

func openDP(u *univ.Universe, dir string, kv sorted.KeyValue, maxFile int) (*dpWorld, error) {
	dpSeq++
	name := fmt.Sprintf("dp%d", dpSeq)
	gate.RegisterNamedKV(name, kv)
	conf := jsonconfig.Obj{"path": dir, "metaIndex": map[string]any(gate.KVConfig(name))}
	if maxFile > 0 {
		conf["maxFileSize"] = float64(maxFile)
	}
	sto, err := blobserver.CreateStorage("diskpacked", nil, conf)
	if err != nil {
		return nil, err
	}
	return &dpWorld{dir: dir, kv: kv, sto: sto,
		r: &drv.Runner{U: u, Sto: sto, Caps: drv.Caps{CanRemove: true, SubFetch: "yes"}}}, nil
}

func (w *dpWorld) close() {
	if c, ok := w.sto.(io.Closer); ok {
		c.Close()
	}
}

func packFiles(dir string) map[string][]byte {
	m := map[string][]byte{}
	ents, _ := os.ReadDir(dir)
	for _, e := range ents {
		if strings.HasSuffix(e.Name(), ".blobs") {
			b, _ := os.ReadFile(filepath.Join(dir, e.Name()))
			m[e.Name()] = b
		}
	}
	return m
}

func writeState(dir string, packs map[string][]byte) error {
	os.RemoveAll(dir)
	if err := os.MkdirAll(dir, 0700); err != nil {
		return err
	}
	for n, b := range packs {
		if err := os.WriteFile(filepath.Join(dir, n), b, 0600); err != nil {
			return err
		}
	}
	return nil
}

type crashState struct {
	class string
	packs map[string][]byte
	kv    sorted.KeyValue
}

func clonePacks(p map[string][]byte) map[string][]byte {
	c := map[string][]byte{}
	for k, v := range p {
		c[k] = append([]byte(nil), v...)
	}
	return c
}

// receiveStates: every (class of) prefix of the bytes the receive appended, index row absent;
// plus the complete record with and without its index row.
func receiveStates(pa, pb map[string][]byte, ka, kb sorted.KeyValue, every bool) []crashState {
	var out []crashState
	// the pack that grew
	grew := ""
	for n, b := range pb {
		if len(b) > len(pa[n]) {
			grew = n
		}
	}
	if grew == "" {
		return nil // duplicate receive: nothing was appended
	}
	s0, s1 := len(pa[grew]), len(pb[grew])
	rec := pb[grew][s0:s1]
	hdr := strings.IndexByte(string(rec), ']') + 1
	pos := map[int]string{}
	if every {
		for p := 0; p < len(rec); p++ {
			c := "torn-body"
			if p < hdr {
				c = "torn-header"
			}
			if p == 0 {
				c = "nothing"
			}
			if p == hdr {
				c = "header-only"
			}
			pos[p] = c
		}
	} else {
		pos[0] = "nothing"
		pos[1] = "torn-header"
		pos[hdr/2] = "torn-header"
		pos[hdr-1] = "torn-header"
		pos[hdr] = "header-only"
		if len(rec) > hdr+1 {
			pos[hdr+1] = "torn-body"
			pos[hdr+(len(rec)-hdr)/2] = "torn-body"
			pos[len(rec)-1] = "torn-body"
		}
	}
	var ps []int
	for p := range pos {
		ps = append(ps, p)
	}
	sort.Ints(ps)
	for _, p := range ps {
		if p >= len(rec) && len(rec) > 0 {
			continue
		}
		st := clonePacks(pa)
		st[grew] = append(append([]byte(nil), pa[grew]...), rec[:p]...)
		out = append(out, crashState{"recv/" + pos[p], st, gate.CloneKV(ka)})
	}
	// complete record; pack files created by a roll-over exist or not
	out = append(out, crashState{"recv/complete-noindex", clonePacks(pb), gate.CloneKV(ka)})
	st := clonePacks(pa)
	st[grew] = append([]byte(nil), pb[grew]...)
	out = append(out, crashState{"recv/complete-noindex-noroll", st, gate.CloneKV(ka)})
	out = append(out, crashState{"recv/complete-indexed", clonePacks(pb), gate.CloneKV(kb)})
	// index row written, but the process died before a due roll-over created the next pack file:
	// the store reopens with its last pack already over maxFileSize
	st2 := clonePacks(pa)
	st2[grew] = append([]byte(nil), pb[grew]...)
	out = append(out, crashState{"recv/complete-indexed-noroll", st2, gate.CloneKV(kb)})
	return out
}

// removeStates: all combinations of {header x-ed, body zeroed (fully / half), index row deleted}.
func removeStates(u *univ.Universe, pa, pb map[string][]byte, ka, kb sorted.KeyValue, refs []string) []crashState {
	var out []crashState
	type region struct {
		file           string
		hdrLo, hdrHi   int
		bodyLo, bodyHi int
	}
	var regs []region
	for _, ref := range refs {
		v, err := ka.Get(ref)
		if err != nil {
			continue
		}
		f := strings.Fields(v) // "file offset size"
		if len(f) != 3 {
			continue
		}
		fi, _ := strconv.Atoi(f[0])
		off, _ := strconv.Atoi(f[1])
		sz, _ := strconv.Atoi(f[2])
		name := fmt.Sprintf("pack-%05d.blobs", fi)
		hl := len(fmt.Sprintf("[%s %d]", ref, sz))
		// an index row that does not point at the blob's record (wrong pack, offset beyond the file) is the code's
		// problem and shows in the ordinary observations; this function only derives removal crash states from
		// rows that do
		if off-hl < 0 || off+sz > len(pa[name]) || off+sz > len(pb[name]) {
			continue
		}
		regs = append(regs, region{name, off - hl, off, off, off + sz})
	}
	if len(regs) == 0 {
		return nil
	}
	for mask := 0; mask < 12; mask++ {
		hdrX := mask&1 != 0
		idxDel := mask&2 != 0
		body := mask >> 2 // 0 none, 1 half, 2 full
		st := clonePacks(pa)
		for _, rg := range regs {
			a, b := st[rg.file], pb[rg.file]
			if hdrX {
				copy(a[rg.hdrLo:rg.hdrHi], b[rg.hdrLo:rg.hdrHi])
			}
			hi := rg.bodyLo
			switch body {
			case 1:
				hi = rg.bodyLo + (rg.bodyHi-rg.bodyLo)/2
			case 2:
				hi = rg.bodyHi
			}
			copy(a[rg.bodyLo:hi], b[rg.bodyLo:hi])
		}
		kv := gate.CloneKV(ka)
		if idxDel {
			kv = gate.CloneKV(kb)
		}
		out = append(out, crashState{fmt.Sprintf("rm/hdr=%v/body=%d/idx=%v", hdrX, body, idxDel), st, kv})
	}
	return out
}

func dpSweep(u *univ.Universe, hi int, h []drv.Op, scratch string, every bool, maxFile int) error {
	base := filepath.Join(scratch, fmt.Sprintf("dp-h%d", hi))
	live := filepath.Join(base, "live")
	if err := os.MkdirAll(live, 0700); err != nil {
		return err
	}
	defer os.RemoveAll(base)
	w, err := openDP(u, live, sorted.NewMemoryKeyValue(), maxFile)
	if err != nil {
		return err
	}
	defer w.close()
	var prefix []gate.Event
	reset := w.r.ResetEvent(fmt.Sprintf("diskpacked[max=%d]", maxFile))
	reset["h"] = hi
	reset["pre"] = []any{}
	prefix = append(prefix, reset)
	for j, op := range h {
		pa, ka := packFiles(live), gate.CloneKV(w.kv)
		ev := w.r.Do(op)
		pb, kb := packFiles(live), gate.CloneKV(w.kv)
		if op.Op == "receive" || op.Op == "remove" {
			var states []crashState
			if op.Op == "receive" {
				states = receiveStates(pa, pb, ka, kb, every)
			} else {
				var refs []string
				for _, rk := range op.Bs {
					refs = append(refs, u.ByRank(rk).Ref.String())
				}
				states = removeStates(u, pa, pb, ka, kb, refs)
			}
			for si, st := range states {
				evs := cloneEvents(prefix)
				evs[0]["crash"] = map[string]any{"op": op.Op, "class": st.class, "j": j}
				fe := gate.Event{"ev": "op", "op": op.Op, "flt": true, "res": "failed", "size": 0, "list": []any{}}
				if op.Op == "receive" {
					fe["b"] = op.B
				} else {
					fe["bs"] = ev["bs"]
				}
				evs = append(evs, fe)
				if err := dpExplore(u, st, filepath.Join(base, fmt.Sprintf("s%d_%d", j, si)), h[j:], maxFile, &evs); err != nil {
					return err
				}
				emitAll(evs)
				nStates["diskpacked/"+st.class]++
			}
		}
		prefix = append(prefix, ev)
	}
	return nil
}

// dpOrder runs the history fault-free on a real directory with a marking index KV; the orchestrator runs this
// mode under strace and checks the order of write / fsync on the pack files relative to the index updates.
func dpOrder(u *univ.Universe, hi int, h []drv.Op, scratch string, maxFile int, marker string) error {
	dir := filepath.Join(scratch, fmt.Sprintf("dporder-h%d", hi))
	if err := os.MkdirAll(dir, 0700); err != nil {
		return err
	}
	defer os.RemoveAll(dir)
	mf, err := os.OpenFile(marker, os.O_CREATE|os.O_WRONLY|os.O_APPEND, 0600)
	if err != nil {
		return err
	}
	defer mf.Close()
	kv := gate.NewKV("dporder", sorted.NewMemoryKeyValue(), nil, nil)
	kv.Marker = mf
	mf.Write([]byte(fmt.Sprintf("VERIFMARK History %d\n", hi)))
	w, err := openDP(u, dir, kv, maxFile)
	if err != nil {
		return err
	}
	defer w.close()
	for _, op := range h {
		mf.Write([]byte("VERIFMARK Call " + op.Op + "\n"))
		ev := w.r.Do(op)
		mf.Write([]byte(fmt.Sprintf("VERIFMARK Ret %s %v\n", op.Op, ev["res"])))
	}
	nSeg++
	return nil
}

// reindexObserve: the pack files alone must rebuild the index (fresh KV), then the store is observed.
func reindexObserve(u *univ.Universe, packs map[string][]byte, dir string, maxFile int, emit func(gate.Event)) (*dpWorld, error) {
	if err := writeState(dir, packs); err != nil {
		return nil, err
	}
	dpSeq++
	rk := sorted.NewMemoryKeyValue()
	name := fmt.Sprintf("dpre%d", dpSeq)
	gate.RegisterNamedKV(name, rk)
	if err := diskpacked.Reindex(context.Background(), dir, true, jsonconfig.Obj(gate.KVConfig(name))); err != nil {
		emit(gate.Event{"ev": "recover", "res": "failed", "what": "reindex", "detail": err.Error()})
		return nil, nil
	}
	w2, err := openDP(u, dir, rk, maxFile)
	if err != nil {
		emit(gate.Event{"ev": "recover", "res": "failed", "what": "open-after-reindex", "detail": err.Error()})
		return nil, nil
	}
	emit(gate.Event{"ev": "recover", "res": "ok", "what": "reindex"})
	compactObserve(w2.r, emit, true)
	return w2, nil
}

// dpExplore emits two segments per crash state:
//
//	A: rebuild the index from the pack files alone, observe;
//	B: reopen with the surviving index, observe, go on with further operations (the client retries the
//	   interrupted call and continues), observe, then rebuild the index from the packs and observe again.
func dpExplore(u *univ.Universe, st crashState, dir string, rest []drv.Op, maxFile int, evs *[]gate.Event) error {
	defer os.RemoveAll(dir)
	defer os.RemoveAll(dir + ".re")
	head := cloneEvents(*evs)
	// ---- segment A
	segA := cloneEvents(head)
	segA[0]["seg"] = "A"
	wa, err := reindexObserve(u, st.packs, dir+".re", maxFile, func(ev gate.Event) { segA = append(segA, ev) })
	if err != nil {
		return err
	}
	if wa != nil {
		wa.close()
	}
	emitAll(segA)
	// ---- segment B
	(*evs)[0]["seg"] = "B"
	emit := func(ev gate.Event) { *evs = append(*evs, ev) }
	if err := writeState(dir, st.packs); err != nil {
		return err
	}
	w, err := openDP(u, dir, gate.CloneKV(st.kv), maxFile)
	if err != nil {
		emit(gate.Event{"ev": "recover", "res": "failed", "what": "reopen", "detail": err.Error()})
		return nil
	}
	emit(gate.Event{"ev": "recover", "res": "ok", "what": "reopen"})
	compactObserve(w.r, emit, true)
	for _, op := range rest {
		emit(w.r.Do(op))
	}
	compactObserve(w.r, emit, true)
	// and every blob is uploaded (again): whatever the reopened writer state is, new records must be readable
	for _, bl := range u.Blobs {
		emit(w.r.Do(drv.Op{Op: "receive", B: bl.Rank}))
	}
	compactObserve(w.r, emit, true)
	// fresh appends after the restart: remove and upload one blob after the other
	for _, bl := range u.Blobs {
		emit(w.r.Do(drv.Op{Op: "remove", Bs: []int{bl.Rank}}))
		emit(w.r.Do(drv.Op{Op: "receive", B: bl.Rank}))
		emit(w.r.Do(drv.Op{Op: "fetch", B: bl.Rank}))
	}
	compactObserve(w.r, emit, true)
	w.close()
	wb, err := reindexObserve(u, packFiles(dir), dir+".re", maxFile, emit)
	if err != nil {
		return err
	}
	if wb != nil {
		wb.close()
	}
	return nil
}
