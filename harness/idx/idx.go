//go:build verif

// Package idx wires a real index.Index (and optionally its in-memory corpus)
// over a sorted.KeyValue and a harness blob source, and delivers world blobs.
package idx

import (
	"bytes"
	"context"
	"fmt"
	"sort"

	"perkeep.org/pkg/blob"
	"perkeep.org/pkg/blobserver"
	"perkeep.org/pkg/index"
	"perkeep.org/pkg/sorted"

	"verif/gate"
	"verif/world"
)

type Env struct {
	KV     sorted.KeyValue
	Src    blobserver.Storage // blob source (usually a *gate.Storage)
	Ix     *index.Index
	Corpus *index.Corpus
}

// New opens an index over kv with src as blob source. If corpus is set the
// in-memory corpus is loaded (KeepInMemory).
func New(kv sorted.KeyValue, src blobserver.Storage, corpus bool) (*Env, error) {
	ix, err := index.New(kv)
	if err != nil {
		return nil, err
	}
	ix.InitBlobSource(src)
	e := &Env{KV: kv, Src: src, Ix: ix}
	if corpus {
		c, err := ix.KeepInMemory()
		if err != nil {
			return nil, err
		}
		e.Corpus = c
	}
	return e, nil
}

// NewMem is New over a fresh memory KV and a fresh quiet gate store.
func NewMem(corpus bool) (*Env, error) {
	g := gate.NewStorage("src", nil, nil, nil)
	g.Quiet = true
	return New(sorted.NewMemoryKeyValue(), g, corpus)
}

// Store puts item id into the blob source only.
func (e *Env) Store(b *world.Built, id int) error {
	_, err := e.Src.ReceiveBlob(context.Background(), b.Refs[id], bytes.NewReader(b.Blobs[id]))
	return err
}

// Deliver puts item id into the blob source and then hands it to the index,
// as the server wiring does.
func (e *Env) Deliver(b *world.Built, id int) error {
	if err := e.Store(b, id); err != nil {
		return fmt.Errorf("storing item %d: %v", id, err)
	}
	return e.Index(b, id)
}

// Index hands item id to the index (the blob must already be in the source).
func (e *Env) Index(b *world.Built, id int) error {
	_, err := e.Ix.ReceiveBlob(context.Background(), b.Refs[id], bytes.NewReader(b.Blobs[id]))
	return err
}

// Await waits for asynchronous out-of-order indexing to drain.
func (e *Env) Await() { e.Ix.VerifAwaitAsyncIndexing() }

// DeliverAll delivers every item in creation order and waits for quiescence.
func (e *Env) DeliverAll(b *world.Built) error {
	for _, it := range b.W.Items {
		if err := e.Deliver(b, it.ID); err != nil {
			return fmt.Errorf("delivering item %d (%s): %v", it.ID, it.Kind, err)
		}
	}
	e.Await()
	return nil
}

// Reopen opens a fresh index (and corpus) over the same persisted rows.
func (e *Env) Reopen(corpus bool) (*Env, error) { return New(e.KV, e.Src, corpus) }

// Rows dumps all rows of kv, sorted by key.
func Rows(kv sorted.KeyValue) [][2]string {
	var out [][2]string
	it := kv.Find("", "")
	for it.Next() {
		out = append(out, [2]string{it.Key(), it.Value()})
	}
	it.Close()
	sort.Slice(out, func(i, j int) bool { return out[i][0] < out[j][0] })
	return out
}

var _ = blob.Ref{}
