// Package univ is the finite blob universe of one run and the
// order-preserving map from blobrefs / cursor strings to integer ranks (§3 of
// DESIGN.md): blob i (1-based, in byte order of the ref text) has rank 2i; a
// cursor string has the rank it sorts at (0 = before everything, odd =
// strictly between two refs, even = equal to a ref).
package univ

import (
	"crypto/sha1"
	"crypto/sha256"
	"fmt"
	"hash"
	"sort"
	"strings"

	"perkeep.org/pkg/blob"
)

type Blob struct {
	Ref  blob.Ref
	Data []byte
	Rank int
	Kind string // "empty","one","small","chunk","schema",...
}

type Universe struct {
	Blobs []Blob // sorted by ref text
	byRef map[blob.Ref]int
}

func refOf(hashName string, data []byte) blob.Ref {
	var h hash.Hash
	switch hashName {
	case "sha1":
		h = sha1.New()
	case "sha256":
		h = sha256.New()
	default:
		h = sha256.New224()
	}
	h.Write(data)
	return blob.RefFromHash(h)
}

// Spec describes a blob to create.
type Spec struct {
	Hash string
	Data []byte
	Kind string
}

func New(specs []Spec) *Universe {
	u := &Universe{byRef: map[blob.Ref]int{}}
	for _, s := range specs {
		u.Blobs = append(u.Blobs, Blob{Ref: refOf(s.Hash, s.Data), Data: s.Data, Kind: s.Kind})
	}
	sort.Slice(u.Blobs, func(i, j int) bool { return u.Blobs[i].Ref.String() < u.Blobs[j].Ref.String() })
	for i := range u.Blobs {
		u.Blobs[i].Rank = 2 * (i + 1)
		if _, dup := u.byRef[u.Blobs[i].Ref]; dup {
			panic("univ: duplicate blob")
		}
		u.byRef[u.Blobs[i].Ref] = i
	}
	return u
}

// Standard builds a universe of n blobs mixing sizes, hashes and schema-ness.
// seed varies the contents.
func Standard(n int, seed int64) *Universe { return New(standardSpecs(n, seed)) }

func standardSpecs(n int, seed int64) []Spec {
	var specs []Spec
	chunk := make([]byte, 70000)
	for i := range chunk {
		chunk[i] = byte((int64(i)*7 + seed) % 251)
	}
	// a legal blob well above the 1 MiB chunk size (blobs may be up to 16 MiB)
	big := make([]byte, 1<<20+4099)
	for i := range big {
		big[i] = byte((int64(i)*13 + seed*7) % 253)
	}
	all := []Spec{
		{"sha224", []byte{}, "empty"},
		{"sha224", []byte{byte('a' + seed%20)}, "one"},
		{"sha1", []byte(fmt.Sprintf("small-sha1-%d", seed)), "small"},
		{"sha224", []byte(fmt.Sprintf(`{"camliVersion": 1, "camliType": "bytes", "parts": [], "x": %d}`, seed)), "schema"},
		{"sha256", []byte(fmt.Sprintf("small-sha256-%d", seed)), "small"},
		{"sha224", chunk, "chunk"},
		{"sha224", big, "big"},
		{"sha1", []byte(fmt.Sprintf(`{"camliVersion": 1, "camliType": "file", "fileName": "f%d", "parts": []}`, seed)), "schema"},
	}
	for i := 0; i < n; i++ {
		if i < len(all) {
			specs = append(specs, all[i])
		} else {
			specs = append(specs, Spec{"sha224", []byte(fmt.Sprintf("extra-%d-%d", i, seed)), "small"})
		}
	}
	return specs
}

// Packable is Standard(n >= 8) with the file schema blob (index 7) describing a file whose only part is the big
// blob (index 6, > 512 KiB): a blobpacked store that holds both packs them into a zip, so that packed and loose
// blobs coexist in the histories of the universe.
func Packable(n int, seed int64) *Universe {
	if n < 8 {
		n = 8
	}
	specs := standardSpecs(n, seed)
	big := specs[6]
	specs[7].Data = []byte(fmt.Sprintf(`{"camliVersion": 1, "camliType": "file", "fileName": "f%d", "parts": [{"blobRef": "%s", "size": %d}]}`,
		seed, refOf(big.Hash, big.Data).String(), len(big.Data)))
	return New(specs)
}

func (u *Universe) N() int { return len(u.Blobs) }

// ByRank returns the blob with the given even rank.
func (u *Universe) ByRank(r int) *Blob {
	if r%2 != 0 || r < 2 || r/2 > len(u.Blobs) {
		panic(fmt.Sprintf("univ: bad blob rank %d", r))
	}
	return &u.Blobs[r/2-1]
}

// RankOf returns the rank of a ref of the universe (or -1).
func (u *Universe) RankOf(br blob.Ref) int {
	i, ok := u.byRef[br]
	if !ok {
		return -1
	}
	return u.Blobs[i].Rank
}

// RankAny is RankOf as an `any` for gate logs (foreign refs log as text).
func (u *Universe) RankAny(br blob.Ref) any {
	if r := u.RankOf(br); r >= 0 {
		return r
	}
	return br.String()
}

// CursorRank maps any string to the rank it sorts at.
func (u *Universe) CursorRank(s string) int {
	if s == "" {
		return 0
	}
	// number of refs <= s decides.
	i := sort.Search(len(u.Blobs), func(i int) bool { return u.Blobs[i].Ref.String() >= s })
	// i = first index with ref >= s
	if i < len(u.Blobs) && u.Blobs[i].Ref.String() == s {
		return 2 * (i + 1)
	}
	return 2*i + 1 // strictly between blob i (1-based) and i+1; i==0 -> 1
}

// CursorString concretises a rank into a cursor string. form selects among
// equivalent strings: 0 = canonical ("" / the ref / ref+"!"), 1 = a proper
// prefix of the next ref that still sorts after the previous one (odd ranks
// only; falls back to form 0), 2 = StringMinusOne of the next ref when that
// sorts in the gap, 3 / 4 / 5 = the next ref's hash name with "-" and 0 / 2 / 4 digits when that sorts in the gap.
// Rank 0 is "" (only the empty cursor sorts before everything incl. rank 1
// strings; rank 1 = strictly before the first ref but non-empty).
func (u *Universe) CursorString(rank, form int) string {
	if rank <= 0 {
		return ""
	}
	if rank%2 == 0 {
		if rank/2 > len(u.Blobs) {
			rank = 2*len(u.Blobs) + 1
		} else {
			return u.Blobs[rank/2-1].Ref.String()
		}
	}
	i := (rank - 1) / 2 // blobs[0..i) are below
	if i > len(u.Blobs) {
		i = len(u.Blobs)
	}
	prev := ""
	if i > 0 {
		prev = u.Blobs[i-1].Ref.String()
	}
	if i == len(u.Blobs) {
		if form == 1 {
			return "sha9"
		}
		return prev + "!"
	}
	next := u.Blobs[i].Ref.String()
	var c string
	switch form {
	case 1:
		for k := 1; k < len(next); k++ {
			if next[:k] > prev {
				c = next[:k]
				break
			}
		}
	case 2:
		c = u.Blobs[i].Ref.StringMinusOne()
	case 3, 4, 5:
		// the prefixes a directory-sharded store names its directories with: "<hash>-", "<hash>-xx", "<hash>-xxxx"
		if d := strings.IndexByte(next, '-'); d > 0 && d+1+2*(form-3) <= len(next) {
			c = next[:d+1+2*(form-3)]
		}
	}
	if c != "" && c > prev && c < next {
		return c
	}
	if prev == "" {
		return "s" // sorts before "sha..." and after ""
	}
	return prev + "!"
}
