// Package world turns abstract worlds (JSON: permanodes, claims, deletes,
// shares, files, bytes trees, directories, static sets, keys, opaque blobs)
// into real, signed perkeep schema blobs. The same abstract world is what the
// TLA+ modules (Claims, Search, Paging, Share, IndexOOO) are evaluated on, so
// nothing is parsed back out of perkeep to build the oracle.
package world

import (
	"context"
	"encoding/json"
	"fmt"
	"io"
	"os"
	"sort"
	"strings"
	"sync"
	"time"

	"golang.org/x/crypto/openpgp"

	"perkeep.org/pkg/blob"
	"perkeep.org/pkg/jsonsign"
	"perkeep.org/pkg/schema"
)

// Part of a file/bytes item.
type Part struct {
	Kind string `json:"kind"` // "blob" | "bytes"
	Ref  int    `json:"ref"`
	Off  int    `json:"off"`
	Size int    `json:"size"`
}

// Item is one abstract blob. IDs are 1..n; references between items are IDs.
// All fields are always present in JSON (uniform records for TLC).
type Item struct {
	ID   int    `json:"id"`
	Kind string `json:"kind"` // key | permanode | claim | delete | share | chunk | file | bytes | staticset | dir
	// claims: Claim = set | add | del ; PN target permanode; Attr; Val (value id, 0 = none); ValRef (item id used as value, 0 = none)
	Claim  string `json:"claim"`
	PN     int    `json:"pn"`
	Attr   string `json:"attr"`
	Val    int    `json:"val"`
	ValRef int    `json:"valref"`
	Date   int    `json:"date"`   // claim date, seconds relative to Epoch (may be negative)
	Nano   int    `json:"nano"`   // additional nanoseconds
	Signer int    `json:"signer"` // 1 or 2 (0 for unsigned kinds)
	Target int    `json:"target"` // delete / share target
	// share
	Transitive bool `json:"transitive"`
	Expires    int  `json:"expires"` // 0 = never; else seconds relative to Epoch
	// file / bytes
	Parts []Part `json:"parts"`
	Name  string `json:"name"`
	// staticset members / dir -> staticset (one element)
	Children []int `json:"children"`
	// chunk / opaque data ; permanode random
	Data string `json:"data"`
	// filled by Build:
	Ref  string `json:"ref"`
	Rank int    `json:"rank"` // 2*position in byte order of ref text among all items
	Size int    `json:"size"`
}

type World struct {
	Items []Item `json:"items"`
	// Values maps value ids to the strings used as attribute values.
	Values []string `json:"values"`
}

// Epoch is the origin of the abstract time axis.
var Epoch = time.Date(2011, 11, 28, 1, 32, 37, 0, time.UTC)

func (it *Item) Time() time.Time {
	return Epoch.Add(time.Duration(it.Date)*time.Second + time.Duration(it.Nano))
}

// Signers holds the two signing identities.
type Signers struct {
	ent    [3]*openpgp.Entity
	PubRef [3]blob.Ref
	PubArm [3]string
	KeyID  [3]string
}

var (
	signersOnce sync.Once
	signers     *Signers
	signersErr  error
)

// LoadSigners reads signer 1 from the repository's test key ring and creates
// signer 2.
func LoadSigners(secring string) (*Signers, error) {
	signersOnce.Do(func() {
		s := &Signers{}
		e1, err := jsonsign.EntityFromSecring("26F5ABDA", secring)
		if err != nil {
			signersErr = err
			return
		}
		e2, err := jsonsign.NewEntity()
		if err != nil {
			signersErr = err
			return
		}
		for i, e := range []*openpgp.Entity{e1, e2} {
			arm, err := jsonsign.ArmoredPublicKey(e)
			if err != nil {
				signersErr = err
				return
			}
			s.ent[i+1] = e
			s.PubArm[i+1] = arm
			s.PubRef[i+1] = blob.RefFromString(arm)
			s.KeyID[i+1] = e.PrivateKey.KeyIdString()
		}
		signers = s
	})
	return signers, signersErr
}

type entFetcher struct{ e *openpgp.Entity }

func (f entFetcher) FetchEntity(string) (*openpgp.Entity, error) { return f.e, nil }

// Built is a world with real blobs.
type Built struct {
	W     *World
	S     *Signers
	Blobs map[int][]byte   // id -> bytes
	Refs  map[int]blob.Ref // id -> ref
	ByRef map[blob.Ref]int
}

func (s *Signers) sign(ctx context.Context, bb *schema.Builder, signer int, sigTime time.Time) (string, error) {
	bb.SetSigner(s.PubRef[signer])
	unsigned, err := bb.JSON()
	if err != nil {
		return "", err
	}
	sr := &jsonsign.SignRequest{
		UnsignedJSON:  unsigned,
		Fetcher:       memFetcher{s.PubRef[signer]: s.PubArm[signer]},
		EntityFetcher: entFetcher{s.ent[signer]},
		SignatureTime: sigTime,
	}
	return sr.Sign(ctx)
}

type memFetcher map[blob.Ref]string

func (m memFetcher) Fetch(ctx context.Context, br blob.Ref) (io.ReadCloser, uint32, error) {
	s, ok := m[br]
	if !ok {
		return nil, 0, os.ErrNotExist
	}
	return io.NopCloser(strings.NewReader(s)), uint32(len(s)), nil
}

// Build creates the real blobs. Items must be listed so that every reference
// points to an earlier item (creation order; delivery order is free).
func Build(w *World, s *Signers) (*Built, error) {
	ctx := context.Background()
	b := &Built{W: w, S: s, Blobs: map[int][]byte{}, Refs: map[int]blob.Ref{}, ByRef: map[blob.Ref]int{}}
	val := func(it *Item) string {
		if it.ValRef != 0 {
			return b.Refs[it.ValRef].String()
		}
		if it.Val == 0 {
			return ""
		}
		return w.Values[it.Val-1]
	}
	for i := range w.Items {
		it := &w.Items[i]
		for _, dep := range deps(it) {
			if _, ok := b.Refs[dep]; !ok {
				return nil, fmt.Errorf("world: item %d references %d which is not built yet", it.ID, dep)
			}
		}
		var data string
		var err error
		switch it.Kind {
		case "key":
			data = s.PubArm[it.Signer]
		case "permanode":
			bb := schema.NewPlannedPermanode(fmt.Sprintf("pn-%d-%s", it.ID, it.Data))
			data, err = s.sign(ctx, bb, it.Signer, it.Time())
		case "claim":
			var bb *schema.Builder
			switch it.Claim {
			case "set":
				bb = schema.NewSetAttributeClaim(b.Refs[it.PN], it.Attr, val(it))
			case "add":
				bb = schema.NewAddAttributeClaim(b.Refs[it.PN], it.Attr, val(it))
			case "del":
				bb = schema.NewDelAttributeClaim(b.Refs[it.PN], it.Attr, val(it))
			default:
				return nil, fmt.Errorf("world: bad claim type %q", it.Claim)
			}
			bb.SetClaimDate(it.Time())
			// distinguish otherwise identical claims
			data, err = s.sign(ctx, bb, it.Signer, it.Time().Add(time.Duration(it.ID)*time.Second))
		case "delete":
			bb := schema.NewDeleteClaim(b.Refs[it.Target])
			bb.SetClaimDate(it.Time())
			data, err = s.sign(ctx, bb, it.Signer, it.Time().Add(time.Duration(it.ID)*time.Second))
		case "share":
			bb := schema.NewShareRef(schema.ShareHaveRef, it.Transitive)
			bb.SetShareTarget(b.Refs[it.Target])
			if it.Expires != 0 {
				bb.SetShareExpiration(Epoch.Add(time.Duration(it.Expires) * time.Second))
			}
			bb.SetClaimDate(it.Time())
			data, err = s.sign(ctx, bb, it.Signer, it.Time().Add(time.Duration(it.ID)*time.Second))
		case "chunk":
			data = it.Data
		case "file", "bytes":
			m := map[string]any{"camliVersion": 1, "camliType": it.Kind}
			if it.Kind == "file" {
				m["fileName"] = it.Name
				m["unixMtime"] = schema.RFC3339FromTime(it.Time())
			}
			var parts []map[string]any
			for _, p := range it.Parts {
				mp := map[string]any{"size": p.Size}
				if p.Kind == "bytes" {
					mp["bytesRef"] = b.Refs[p.Ref].String()
				} else {
					mp["blobRef"] = b.Refs[p.Ref].String()
				}
				if p.Off != 0 {
					mp["offset"] = p.Off
				}
				parts = append(parts, mp)
			}
			if parts == nil {
				parts = []map[string]any{}
			}
			m["parts"] = parts
			if it.Data != "" {
				m["verifNote"] = it.Data // a non-link field (may mention refs)
			}
			j, _ := json.MarshalIndent(m, "", " ")
			data = string(j)
		case "staticset":
			var ms []string
			for _, c := range it.Children {
				ms = append(ms, b.Refs[c].String())
			}
			if ms == nil {
				ms = []string{}
			}
			j, _ := json.MarshalIndent(map[string]any{"camliVersion": 1, "camliType": "static-set", "members": ms}, "", " ")
			data = string(j)
		case "dir":
			if len(it.Children) != 1 {
				return nil, fmt.Errorf("world: dir %d needs exactly one static-set child", it.ID)
			}
			j, _ := json.MarshalIndent(map[string]any{"camliVersion": 1, "camliType": "directory", "fileName": it.Name,
				"entries": b.Refs[it.Children[0]].String()}, "", " ")
			data = string(j)
		default:
			return nil, fmt.Errorf("world: unknown kind %q", it.Kind)
		}
		if err != nil {
			return nil, fmt.Errorf("world: building item %d: %v", it.ID, err)
		}
		br := blob.RefFromString(data)
		if other, dup := b.ByRef[br]; dup {
			return nil, fmt.Errorf("world: items %d and %d are the same blob", other, it.ID)
		}
		b.Blobs[it.ID] = []byte(data)
		b.Refs[it.ID] = br
		b.ByRef[br] = it.ID
		it.Ref = br.String()
		it.Size = len(data)
	}
	// ranks
	ids := make([]int, 0, len(w.Items))
	for _, it := range w.Items {
		ids = append(ids, it.ID)
	}
	sort.Slice(ids, func(i, j int) bool { return b.Refs[ids[i]].String() < b.Refs[ids[j]].String() })
	rank := map[int]int{}
	for i, id := range ids {
		rank[id] = 2 * (i + 1)
	}
	for i := range w.Items {
		w.Items[i].Rank = rank[w.Items[i].ID]
	}
	return b, nil
}

func deps(it *Item) []int {
	var d []int
	add := func(x int) {
		if x != 0 {
			d = append(d, x)
		}
	}
	add(it.PN)
	add(it.ValRef)
	add(it.Target)
	for _, p := range it.Parts {
		add(p.Ref)
	}
	for _, c := range it.Children {
		add(c)
	}
	return d
}

// Deps returns the item ids an item references.
func Deps(it *Item) []int { return deps(it) }

func (b *Built) Item(id int) *Item {
	for i := range b.W.Items {
		if b.W.Items[i].ID == id {
			return &b.W.Items[i]
		}
	}
	return nil
}

// Normalize fills nil slices so that the JSON has uniform records.
func (w *World) Normalize() {
	for i := range w.Items {
		if w.Items[i].Parts == nil {
			w.Items[i].Parts = []Part{}
		}
		if w.Items[i].Children == nil {
			w.Items[i].Children = []int{}
		}
	}
	if w.Values == nil {
		w.Values = []string{}
	}
}

func Load(path string) (*World, error) {
	data, err := os.ReadFile(path)
	if err != nil {
		return nil, err
	}
	w := &World{}
	if err := json.Unmarshal(data, w); err != nil {
		return nil, err
	}
	w.Normalize()
	return w, nil
}

func (w *World) Save(path string) error {
	w.Normalize()
	data, err := json.Marshal(w)
	if err != nil {
		return err
	}
	return os.WriteFile(path, data, 0600)
}
