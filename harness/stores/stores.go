// Package stores builds real perkeep storage configurations (through
// blobserver.CreateStorage and a harness Loader) over harness-owned gates.
package stores

import (
	"context"
	"fmt"
	"os"
	"path/filepath"
	"strconv"
	"strings"
	"sync"

	"filippo.io/age"
	"go4.org/jsonconfig"

	"perkeep.org/pkg/blob"
	"perkeep.org/pkg/blobserver"
	"perkeep.org/pkg/blobserver/files"
	"perkeep.org/pkg/blobserver/memory"
	"perkeep.org/pkg/sorted"

	"perkeep.org/pkg/blobserver/blobpacked"
	_ "perkeep.org/pkg/blobserver/cond"
	"perkeep.org/pkg/blobserver/diskpacked"
	_ "perkeep.org/pkg/blobserver/encrypt"
	_ "perkeep.org/pkg/blobserver/localdisk"
	_ "perkeep.org/pkg/blobserver/namespace"
	_ "perkeep.org/pkg/blobserver/overlay"
	_ "perkeep.org/pkg/blobserver/proxycache"
	_ "perkeep.org/pkg/blobserver/replica"
	_ "perkeep.org/pkg/blobserver/shard"
	_ "perkeep.org/pkg/blobserver/union"
	_ "perkeep.org/pkg/sorted/kvfile"
	_ "perkeep.org/pkg/sorted/leveldb"
	_ "perkeep.org/pkg/sorted/sqlite"

	"verif/gate"
)

// Cfg is a storage configuration tree.
type Cfg struct {
	Type string
	Subs []*Cfg
	Opt  map[string]string
}

// Parse reads e.g. "replica[min=1](gate,gate)", "overlay(gate,diskpacked[max=300])".
func Parse(s string) (*Cfg, error) {
	c, rest, err := parse(strings.TrimSpace(s))
	if err != nil {
		return nil, err
	}
	if strings.TrimSpace(rest) != "" {
		return nil, fmt.Errorf("trailing %q", rest)
	}
	return c, nil
}

func parse(s string) (*Cfg, string, error) {
	i := 0
	for i < len(s) && (s[i] == '_' || s[i] >= 'a' && s[i] <= 'z' || s[i] >= '0' && s[i] <= '9') {
		i++
	}
	if i == 0 {
		return nil, s, fmt.Errorf("expected type at %q", s)
	}
	c := &Cfg{Type: s[:i], Opt: map[string]string{}}
	s = s[i:]
	if strings.HasPrefix(s, "[") {
		j := strings.Index(s, "]")
		if j < 0 {
			return nil, s, fmt.Errorf("unterminated [")
		}
		for _, kv := range strings.Split(s[1:j], ";") {
			k, v, _ := strings.Cut(kv, "=")
			c.Opt[strings.TrimSpace(k)] = strings.TrimSpace(v)
		}
		s = s[j+1:]
	}
	if strings.HasPrefix(s, "(") {
		s = s[1:]
		for {
			sub, rest, err := parse(strings.TrimSpace(s))
			if err != nil {
				return nil, s, err
			}
			c.Subs = append(c.Subs, sub)
			s = strings.TrimSpace(rest)
			if strings.HasPrefix(s, ",") {
				s = s[1:]
				continue
			}
			if strings.HasPrefix(s, ")") {
				s = s[1:]
				break
			}
			return nil, s, fmt.Errorf("expected , or ) at %q", s)
		}
	}
	return c, s, nil
}

func (c *Cfg) String() string {
	s := c.Type
	if len(c.Opt) > 0 {
		var kv []string
		for _, k := range sortedKeys(c.Opt) {
			kv = append(kv, k+"="+c.Opt[k])
		}
		s += "[" + strings.Join(kv, ";") + "]"
	}
	if len(c.Subs) > 0 {
		var ss []string
		for _, x := range c.Subs {
			ss = append(ss, x.String())
		}
		s += "(" + strings.Join(ss, ",") + ")"
	}
	return s
}

func sortedKeys(m map[string]string) []string {
	var ks []string
	for k := range m {
		ks = append(ks, k)
	}
	for i := range ks {
		for j := i + 1; j < len(ks); j++ {
			if ks[j] < ks[i] {
				ks[i], ks[j] = ks[j], ks[i]
			}
		}
	}
	return ks
}

func (c *Cfg) optInt(k string, def int) int {
	if v, ok := c.Opt[k]; ok {
		n, err := strconv.Atoi(v)
		if err == nil {
			return n
		}
	}
	return def
}

func (c *Cfg) sub(i int) *Cfg {
	if i < len(c.Subs) {
		return c.Subs[i]
	}
	return &Cfg{Type: "gate", Opt: map[string]string{}}
}

// Durable is the state that survives a restart: gate MemStores, KV rows,
// VFS disks and real directories, keyed by the path of the node in the tree.
type Durable struct {
	mu    sync.Mutex
	Mem   map[string]*gate.MemStore
	KV    map[string]sorted.KeyValue // backing KVs of gate KVs
	Disk  map[string]*gate.Disk
	Dirs  map[string]string
	Root  string // scratch root for real directories
	KeyID *age.X25519Identity
	seq   int
}

func NewDurable(root string) *Durable {
	id, err := age.GenerateX25519Identity()
	if err != nil {
		panic(err)
	}
	return &Durable{Mem: map[string]*gate.MemStore{}, KV: map[string]sorted.KeyValue{}, Disk: map[string]*gate.Disk{},
		Dirs: map[string]string{}, Root: root, KeyID: id}
}

// Clone deep-copies the durable state (directories are copied file by file).
func (d *Durable) Clone() (*Durable, error) {
	d.mu.Lock()
	defer d.mu.Unlock()
	c := &Durable{Mem: map[string]*gate.MemStore{}, KV: map[string]sorted.KeyValue{}, Disk: map[string]*gate.Disk{},
		Dirs: map[string]string{}, Root: d.Root, KeyID: d.KeyID}
	for k, v := range d.Mem {
		c.Mem[k] = v.Clone()
	}
	for k, v := range d.KV {
		c.KV[k] = gate.CloneKV(v)
	}
	for k, v := range d.Disk {
		c.Disk[k] = v.CrashClone(nil)
	}
	for k, v := range d.Dirs {
		d.seq++
		nd := fmt.Sprintf("%s.c%d", v, d.seq)
		if err := CopyDir(v, nd); err != nil {
			return nil, err
		}
		c.Dirs[k] = nd
	}
	return c, nil
}

func CopyDir(src, dst string) error {
	return filepath.Walk(src, func(p string, fi os.FileInfo, err error) error {
		if err != nil {
			return err
		}
		rel, _ := filepath.Rel(src, p)
		t := filepath.Join(dst, rel)
		if fi.IsDir() {
			return os.MkdirAll(t, 0700)
		}
		b, err := os.ReadFile(p)
		if err != nil {
			return err
		}
		return os.WriteFile(t, b, 0600)
	})
}

func (d *Durable) mem(path string) *gate.MemStore {
	d.mu.Lock()
	defer d.mu.Unlock()
	if m, ok := d.Mem[path]; ok {
		return m
	}
	m := gate.NewMemStore()
	d.Mem[path] = m
	return m
}

func (d *Durable) kv(path string) sorted.KeyValue {
	d.mu.Lock()
	defer d.mu.Unlock()
	if m, ok := d.KV[path]; ok {
		return m
	}
	m := sorted.NewMemoryKeyValue()
	d.KV[path] = m
	return m
}

// WipeKV replaces the rows behind a gate KV by an empty KV.
func (d *Durable) WipeKV(path string) {
	d.mu.Lock()
	defer d.mu.Unlock()
	d.KV[path] = sorted.NewMemoryKeyValue()
}

func (d *Durable) disk(path string) *gate.Disk {
	d.mu.Lock()
	defer d.mu.Unlock()
	if m, ok := d.Disk[path]; ok {
		return m
	}
	m := gate.NewDisk()
	d.Disk[path] = m
	return m
}

func (d *Durable) dir(path string) (string, error) {
	d.mu.Lock()
	defer d.mu.Unlock()
	if m, ok := d.Dirs[path]; ok {
		return m, nil
	}
	p := filepath.Join(d.Root, strings.NewReplacer("/", "_").Replace(path))
	d.seq++
	p = fmt.Sprintf("%s.%d", p, d.seq)
	if err := os.MkdirAll(p, 0700); err != nil {
		return "", err
	}
	d.Dirs[path] = p
	return p, nil
}

var recoverMu sync.Mutex // blobpacked.SetRecovery is package-global

// Env is what one build shares: plan, log, rank function, durable state.
type Env struct {
	P    *gate.Plan
	L    *gate.Log
	Rank func(blob.Ref) any
	D    *Durable
	// Recover: rebuild every store from its primary data by its own recovery
	// procedure while building: diskpacked index wiped and re-created by
	// diskpacked.Reindex, blobpacked meta wiped and rebuilt by full recovery,
	// encrypt index wiped (meta re-scan at open).
	Recover bool
	// PackedRecovery: blobpacked recovery mode for this build without wiping anything first
	// (0 = none, 1 = fast, 2 = full), as an operator would restart the server.
	PackedRecovery int
}

// Sys is a built configuration.
type Sys struct {
	Cfg   *Cfg
	Sto   blobserver.Storage
	Env   *Env
	Gates map[string]*gate.Storage
	KVs   map[string]*gate.KV
	// Nodes maps the tree path of every node ("r", "r/0", ...) to its storage.
	Nodes map[string]blobserver.Storage
	// Caps
	CanRemove bool
	ReadOnly  bool
	closers   []func()
}

func (s *Sys) Close() {
	for i := len(s.closers) - 1; i >= 0; i-- {
		s.closers[i]()
	}
	s.closers = nil
}

type loader struct {
	sys  *Sys
	env  *Env
	pref map[string]blobserver.Storage
}

func (l *loader) FindHandlerByType(string) (string, any, error) {
	return "", nil, blobserver.ErrHandlerTypeNotFound
}
func (l *loader) AllHandlers() (map[string]string, map[string]any) { return nil, nil }
func (l *loader) MyPrefix() string                                 { return "/verif/" }
func (l *loader) BaseURL() string                                  { return "http://localhost:1" }
func (l *loader) GetHandlerType(string) string                     { return "" }
func (l *loader) GetHandler(p string) (any, error) {
	if s, ok := l.pref[p]; ok {
		return s, nil
	}
	return nil, fmt.Errorf("no handler %q", p)
}
func (l *loader) GetStorage(p string) (blobserver.Storage, error) {
	if s, ok := l.pref[p]; ok {
		return s, nil
	}
	return nil, fmt.Errorf("no storage %q", p)
}

// Build constructs cfg over env.
func Build(cfg *Cfg, env *Env) (*Sys, error) {
	sys := &Sys{Cfg: cfg, Env: env, Gates: map[string]*gate.Storage{}, KVs: map[string]*gate.KV{}, Nodes: map[string]blobserver.Storage{}}
	ld := &loader{sys: sys, env: env, pref: map[string]blobserver.Storage{}}
	sto, canRemove, readOnly, err := build(cfg, "r", sys, ld)
	if err != nil {
		sys.Close()
		return nil, err
	}
	sys.Sto, sys.CanRemove, sys.ReadOnly = sto, canRemove, readOnly
	sys.Nodes["r"] = sto
	// stores that can be shut down (blobpacked closes its meta index) are, so that long runs do not leak descriptors
	for _, n := range sys.Nodes {
		if cl, ok := n.(blobserver.ShutdownStorage); ok && fmt.Sprintf("%T", n) == "*blobpacked.storage" {
			sys.closers = append(sys.closers, func() { cl.Close() })
		}
	}
	return sys, nil
}

func (sys *Sys) gateKV(path string) jsonconfig.Obj {
	env := sys.Env
	g := gate.NewKV(path, env.D.kv(path), env.P, env.L)
	g.Quiet = true
	sys.KVs[path] = g
	gate.RegisterNamedKV(path, g)
	return jsonconfig.Obj(gate.KVConfig(path))
}

// kvConf returns the sorted-KV config for node path: harness gate KV by
// default, or a real on-disk implementation when kind is set.
func (sys *Sys) kvConf(path, kind string) (jsonconfig.Obj, error) {
	switch kind {
	case "", "gate":
		return sys.gateKV(path), nil
	case "leveldb", "kv", "sqlite":
		dir, err := sys.Env.D.dir(path + ".kv")
		if err != nil {
			return nil, err
		}
		typ := kind
		return jsonconfig.Obj{"type": typ, "file": filepath.Join(dir, "index."+kind)}, nil
	case "memory":
		return jsonconfig.Obj{"type": "memory"}, nil
	}
	return nil, fmt.Errorf("unknown kv kind %q", kind)
}

func build(c *Cfg, path string, sys *Sys, ld *loader) (sto blobserver.Storage, canRemove, readOnly bool, err error) {
	env := sys.Env
	child := func(i int) (string, bool, bool, error) {
		p := fmt.Sprintf("%s/%d", path, i)
		s, cr, ro, err := build(c.sub(i), p, sys, ld)
		if err != nil {
			return "", false, false, err
		}
		pref := "/" + p + "/"
		ld.pref[pref] = s
		sys.Nodes[p] = s
		return pref, cr, ro, nil
	}
	switch c.Type {
	case "gate":
		g := gate.NewStorage(path, env.D.mem(path), env.P, env.L)
		g.Rank = env.Rank
		sys.Gates[path] = g
		if c.Opt["nosub"] != "" {
			return gate.NoSub{Storage: g}, true, false, nil
		}
		return g, true, false, nil
	case "memory":
		s, err := blobserver.CreateStorage("memory", ld, jsonconfig.Obj{})
		return s, true, false, err
	case "localdisk":
		dir, err := env.D.dir(path)
		if err != nil {
			return nil, false, false, err
		}
		s, err := blobserver.CreateStorage("filesystem", ld, jsonconfig.Obj{"path": dir})
		return s, true, false, err
	case "filesvfs":
		v := gate.NewVFS(env.D.disk(path), env.P, env.L)
		v.MkdirAll("/root", 0700)
		return files.NewStorage(v, "/root"), true, false, nil
	case "diskpacked":
		dir, err := env.D.dir(path)
		if err != nil {
			return nil, false, false, err
		}
		if env.Recover && (c.Opt["kv"] == "" || c.Opt["kv"] == "gate") {
			env.D.WipeKV(path + ".idx")
		}
		kc, err := sys.kvConf(path+".idx", c.Opt["kv"])
		if err != nil {
			return nil, false, false, err
		}
		conf := jsonconfig.Obj{"path": dir, "metaIndex": map[string]any(kc)}
		if m := c.optInt("max", 0); m > 0 {
			conf["maxFileSize"] = float64(m)
		}
		if env.Recover && (c.Opt["kv"] == "" || c.Opt["kv"] == "gate") {
			if _, err := os.Stat(filepath.Join(dir, "pack-00000.blobs")); err == nil {
				kc2 := jsonconfig.Obj{}
				for k, v := range kc {
					kc2[k] = v
				}
				if err := diskpacked.Reindex(context.Background(), dir, true, kc2); err != nil {
					return nil, false, false, fmt.Errorf("RECOVERY-FAILED diskpacked.Reindex: %v", err)
				}
			}
		}
		s, err := blobserver.CreateStorage("diskpacked", ld, conf)
		if err == nil {
			if cl, ok := s.(interface{ Close() error }); ok {
				sys.closers = append(sys.closers, func() { cl.Close() })
			}
		}
		return s, true, false, err
	case "blobpacked":
		sp, _, _, err := child(0)
		if err != nil {
			return nil, false, false, err
		}
		lp, _, _, err := child(1)
		if err != nil {
			return nil, false, false, err
		}
		if env.Recover && (c.Opt["kv"] == "" || c.Opt["kv"] == "gate") {
			env.D.WipeKV(path + ".meta")
		}
		kc, err := sys.kvConf(path+".meta", c.Opt["kv"])
		if err != nil {
			return nil, false, false, err
		}
		if env.Recover || env.PackedRecovery > 0 {
			recoverMu.Lock()
			if env.Recover || env.PackedRecovery == 2 {
				blobpacked.SetRecovery(blobpacked.FullRecovery)
			} else {
				blobpacked.SetRecovery(blobpacked.FastRecovery)
			}
		}
		s, err := blobserver.CreateStorage("blobpacked", ld, jsonconfig.Obj{
			"smallBlobs": sp, "largeBlobs": lp, "metaIndex": map[string]any(kc), "keepGoing": true})
		if env.Recover || env.PackedRecovery > 0 {
			blobpacked.SetRecovery(blobpacked.NoRecovery)
			recoverMu.Unlock()
			if err != nil {
				err = fmt.Errorf("RECOVERY-FAILED blobpacked full recovery: %v", err)
			}
		}
		return s, true, false, err
	case "encrypt":
		bp, _, _, err := child(0)
		if err != nil {
			return nil, false, false, err
		}
		mp, _, _, err := child(1)
		if err != nil {
			return nil, false, false, err
		}
		if env.Recover && (c.Opt["kv"] == "" || c.Opt["kv"] == "gate") {
			env.D.WipeKV(path + ".idx")
		}
		kc, err := sys.kvConf(path+".idx", c.Opt["kv"])
		if err != nil {
			return nil, false, false, err
		}
		dir, err := env.D.dir(path + ".key")
		if err != nil {
			return nil, false, false, err
		}
		kf := filepath.Join(dir, "key")
		if err := os.WriteFile(kf, []byte(env.D.KeyID.String()+"\n"), 0600); err != nil {
			return nil, false, false, err
		}
		s, err := blobserver.CreateStorage("encrypt", ld, jsonconfig.Obj{
			"I_AGREE": "that encryption support hasn't been peer-reviewed, isn't finished, and its format might change.",
			"keyFile": kf, "blobs": bp, "meta": mp, "metaIndex": map[string]any(kc)})
		return s, false, false, err
	case "replica", "shard":
		n := len(c.Subs)
		if n == 0 {
			n = c.optInt("n", 2)
		}
		var prefs []any
		cr := true
		for i := 0; i < n; i++ {
			p, r, _, err := child(i)
			if err != nil {
				return nil, false, false, err
			}
			cr = cr && r
			prefs = append(prefs, p)
		}
		conf := jsonconfig.Obj{"backends": prefs}
		if c.Type == "replica" {
			if m := c.optInt("min", 0); m > 0 {
				conf["minWritesForSuccess"] = float64(m)
			}
		}
		s, err := blobserver.CreateStorage(c.Type, ld, conf)
		return s, cr, false, err
	case "cond":
		// write: schema -> child0, else child1; read & remove: a replica over both
		// is not a faithful read path, so read goes to a union-like "shard"? No:
		// the documented use is read from a store that sees both; we use a
		// replica whose backends are the two children with minWrites=... only
		// for read/remove, mirroring the repository's own cond test.
		a, _, _, err := child(0)
		if err != nil {
			return nil, false, false, err
		}
		b, _, _, err := child(1)
		if err != nil {
			return nil, false, false, err
		}
		rd, err := blobserver.CreateStorage("replica", ld, jsonconfig.Obj{"backends": []any{a, b}, "minWritesForSuccess": float64(1)})
		if err != nil {
			return nil, false, false, err
		}
		rp := "/" + path + "/read/"
		ld.pref[rp] = rd
		s, err := blobserver.CreateStorage("cond", ld, jsonconfig.Obj{
			"write": map[string]any{"if": "isSchema", "then": a, "else": b}, "read": rp, "remove": rp})
		return s, true, false, err
	case "overlay":
		lo, _, _, err := child(0)
		if err != nil {
			return nil, false, false, err
		}
		up, _, _, err := child(1)
		if err != nil {
			return nil, false, false, err
		}
		conf := jsonconfig.Obj{"lower": lo, "upper": up}
		if c.Opt["nodeleted"] == "" {
			conf["deleted"] = map[string]any(sys.gateKV(path + ".deleted"))
		}
		s, err := blobserver.CreateStorage("overlay", ld, conf)
		return s, c.Opt["nodeleted"] == "", false, err
	case "namespace":
		m, _, _, err := child(0)
		if err != nil {
			return nil, false, false, err
		}
		s, err := blobserver.CreateStorage("namespace", ld, jsonconfig.Obj{
			"storage": m, "inventory": map[string]any(sys.gateKV(path + ".inv"))})
		// removal only drops the inventory row: supported whatever the master can do
		return s, true, false, err
	case "proxycache":
		o, cr, _, err := child(0)
		if err != nil {
			return nil, false, false, err
		}
		cacheBytes := int64(c.optInt("cache", 1<<30))
		var cache blobserver.Storage = memory.NewCache(cacheBytes)
		if c.Opt["gatecache"] != "" {
			// a non-evicting gate store as cache, so that schedules can park the cache fill
			g := gate.NewStorage(path+"/cache", env.D.mem(path+"/cache"), env.P, env.L)
			g.Rank = env.Rank
			sys.Gates[path+"/cache"] = g
			cache = g
		}
		cp := "/" + path + "/cache/"
		ld.pref[cp] = cache
		s, err := blobserver.CreateStorage("proxycache", ld, jsonconfig.Obj{
			"origin": o, "cache": cp, "maxCacheBytes": float64(cacheBytes)})
		return s, cr, false, err
	case "union":
		n := len(c.Subs)
		if n == 0 {
			n = c.optInt("n", 2)
		}
		var prefs []any
		for i := 0; i < n; i++ {
			p, _, _, err := child(i)
			if err != nil {
				return nil, false, false, err
			}
			prefs = append(prefs, p)
		}
		s, err := blobserver.CreateStorage("union", ld, jsonconfig.Obj{"subsets": prefs})
		return s, false, true, err
	}
	return nil, false, false, fmt.Errorf("unknown storage type %q", c.Type)
}
