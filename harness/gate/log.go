// Package gate holds the harness-owned lower-layer boundaries: reference
// implementations of blobserver.Storage, sorted.KeyValue and files.VFS that
// record every call, inject faults, park calls for a scheduler and freeze
// (process death as seen by the durable state).
package gate

import (
	"bufio"
	"encoding/json"
	"errors"
	"fmt"
	"io"
	"os"
	"sync"
	"time"
)

// Event is one ndjson trace line. Values must be JSON-encodable; integers only
// where TLC is going to compare them.
type Event map[string]any

// Log is an append-only event log. seq is the only clock.
type Log struct {
	mu   sync.Mutex
	seq  int64
	evs  []Event
	w    *bufio.Writer
	f    *os.File
	Keep bool // keep events in memory too
}

func NewLog() *Log { return &Log{Keep: true} }

func NewFileLog(path string) (*Log, error) {
	f, err := os.Create(path)
	if err != nil {
		return nil, err
	}
	return &Log{f: f, w: bufio.NewWriterSize(f, 1<<20)}, nil
}

// Emit appends ev, assigning its sequence number under the log mutex.
func (l *Log) Emit(ev Event) int64 {
	if l == nil {
		return 0
	}
	l.mu.Lock()
	defer l.mu.Unlock()
	l.seq++
	ev["seq"] = l.seq
	if l.Keep {
		l.evs = append(l.evs, ev)
	}
	if l.w != nil {
		b, err := json.Marshal(ev)
		if err != nil {
			panic(fmt.Sprintf("gate: unencodable event %v: %v", ev, err))
		}
		l.w.Write(b)
		l.w.WriteByte('\n')
	}
	return l.seq
}

func (l *Log) Events() []Event {
	l.mu.Lock()
	defer l.mu.Unlock()
	return append([]Event(nil), l.evs...)
}

func (l *Log) Len() int64 {
	l.mu.Lock()
	defer l.mu.Unlock()
	return l.seq
}

func (l *Log) Reset() {
	l.mu.Lock()
	defer l.mu.Unlock()
	l.evs = nil
}

// Flush writes buffered events to the file.
func (l *Log) Flush() {
	if l == nil || l.w == nil {
		return
	}
	l.mu.Lock()
	l.w.Flush()
	l.mu.Unlock()
}

func (l *Log) Close() error {
	if l == nil || l.w == nil {
		return nil
	}
	l.mu.Lock()
	defer l.mu.Unlock()
	if err := l.w.Flush(); err != nil {
		return err
	}
	return l.f.Close()
}

// ErrInjected is the error returned by a faulted lower-layer call.
var ErrInjected = errors.New("verif: injected lower-layer fault")

// ErrFrozen is returned by every call after the plan froze (process death).
var ErrFrozen = errors.New("verif: frozen (crashed)")

// Fault selects the N-th (1-based) call matching Layer ("" = any layer) and
// Call ("" = any call) and makes it fail in the given way.
type Fault struct {
	Layer string `json:"layer"`
	Call  string `json:"call"`
	N     int    `json:"n"`
	// Kind: "error" (fail without effect), "after" (perform the effect, then
	// report an error), "wrongsize" (receive reports size+1), "short"
	// (receive stores nothing but reads half of the source), "slow".
	Kind string `json:"kind"`
	seen int
	Hit  bool `json:"-"`
	// HitAt is the "layer.call" the fault actually fired on.
	HitAt string `json:"-"`
}

// Plan is shared by all gates of one run.
type Plan struct {
	effMu    sync.Mutex // see effect()
	mu       sync.Mutex
	calls    int // global lower-layer call counter
	Faults   []*Fault
	FreezeAt int // freeze just before the global call number FreezeAt (0 = never)
	frozen   bool
	Sched    *Scheduler
	// Jitter > 0: seeded yields/sleeps at every lower call (C14).
	Jitter func()
	// RecordSeq: remember "layer.call" of every lower-layer call in SeqLog.
	RecordSeq bool
	SeqLog    []string
}

func NewPlan() *Plan { return &Plan{} }

func (p *Plan) Calls() int {
	p.mu.Lock()
	defer p.mu.Unlock()
	return p.calls
}

// HitCount returns how many faults have fired so far.
func (p *Plan) HitCount() int {
	p.mu.Lock()
	defer p.mu.Unlock()
	n := 0
	for _, f := range p.Faults {
		if f.Hit {
			n++
		}
	}
	return n
}

// HitCalls lists where the fired faults actually hit ("layer.call:kind").
func (p *Plan) HitCalls() []string {
	p.mu.Lock()
	defer p.mu.Unlock()
	var out []string
	for _, f := range p.Faults {
		if f.Hit {
			out = append(out, f.HitAt+":"+f.Kind)
		}
	}
	return out
}

// Seq returns a copy of the recorded call sequence.
func (p *Plan) Seq() []string {
	p.mu.Lock()
	defer p.mu.Unlock()
	return append([]string(nil), p.SeqLog...)
}

func (p *Plan) Frozen() bool {
	p.mu.Lock()
	defer p.mu.Unlock()
	return p.frozen
}

func (p *Plan) Freeze() {
	p.mu.Lock()
	p.frozen = true
	p.mu.Unlock()
}

// effect serialises [effect + log line] of lower-layer calls over all gates of a plan, so that the order of the log
// is the order in which the effects became visible (a reader on another goroutine can only observe an effect whose
// log line has been written). Usage: defer p.effect()() right before the effect.
func (p *Plan) effect() func() {
	if p == nil {
		return func() {}
	}
	p.effMu.Lock()
	return p.effMu.Unlock
}

// Rearm makes a fault fire again at its N-th matching call from now on.
func (f *Fault) Rearm() { f.Hit, f.seen, f.HitAt = false, 0, "" }

// enter registers a lower-layer call. It returns the global call number, the
// fault kind to apply ("" = none) and whether the plan is frozen.
func (p *Plan) enter(layer, call string, mutating bool) (n int, kind string, frozen bool) {
	if p == nil {
		return 0, "", false
	}
	p.mu.Lock()
	if p.frozen {
		p.mu.Unlock()
		return 0, "", true
	}
	p.calls++
	n = p.calls
	if p.RecordSeq {
		p.SeqLog = append(p.SeqLog, layer+"."+call)
	}
	if p.FreezeAt > 0 && n >= p.FreezeAt {
		p.frozen = true
		p.mu.Unlock()
		return n, "", true
	}
	for _, f := range p.Faults {
		if f.Hit {
			continue
		}
		if (f.Layer == "" || f.Layer == layer) && (f.Call == "" || f.Call == call) {
			f.seen++
			if f.seen == f.N {
				f.Hit = true
				f.HitAt = layer + "." + call
				kind = f.Kind
				break
			}
		}
	}
	j := p.Jitter
	s := p.Sched
	p.mu.Unlock()
	if j != nil {
		j()
	}
	if s != nil {
		s.park(layer, call)
	}
	if kind == "slow" {
		time.Sleep(5 * time.Millisecond)
		kind = ""
	}
	return n, kind, false
}

func (p *Plan) done(layer, call string) {
	if p == nil {
		return
	}
	p.mu.Lock()
	s := p.Sched
	p.mu.Unlock()
	if s != nil {
		s.completed(layer, call)
	}
}

// ReadAllCount drains r and returns the number of bytes read.
func readAll(r io.Reader) ([]byte, error) { return io.ReadAll(r) }
