package gate

import (
	"fmt"
	"sort"
	"strings"
	"sync"
	"time"
)

// Scheduler parks every lower-layer call until the replayer releases it, so a
// TLC interleaving can be replayed deterministically at lower-layer-call
// granularity. One step = wait until the expected call is parked, release it,
// wait until that lower call has completed.
type Scheduler struct {
	mu     sync.Mutex
	cond   *sync.Cond
	parked []*ticket
	free   bool
	detail func() string // optional: goroutine-local detail supplier
}

type ticket struct {
	id       string // layer.call
	released bool
	done     bool
}

func NewScheduler() *Scheduler {
	s := &Scheduler{}
	s.cond = sync.NewCond(&s.mu)
	return s
}

func (s *Scheduler) park(layer, call string) {
	s.mu.Lock()
	if s.free {
		s.mu.Unlock()
		return
	}
	t := &ticket{id: layer + "." + call}
	s.parked = append(s.parked, t)
	s.cond.Broadcast()
	for !t.released && !s.free {
		s.cond.Wait()
	}
	s.mu.Unlock()
}

func (s *Scheduler) completed(layer, call string) {
	s.mu.Lock()
	id := layer + "." + call
	for _, t := range s.parked {
		if t.id == id && t.released && !t.done {
			t.done = true
			break
		}
	}
	s.cond.Broadcast()
	s.mu.Unlock()
}

// Parked lists the ids currently parked and not yet released.
func (s *Scheduler) Parked() []string {
	s.mu.Lock()
	defer s.mu.Unlock()
	var out []string
	for _, t := range s.parked {
		if !t.released {
			out = append(out, t.id)
		}
	}
	sort.Strings(out)
	return out
}

// Step waits for a parked call whose id has the given prefix, releases it and
// waits for its completion.
func (s *Scheduler) Step(id string, watchdog time.Duration) error {
	deadline := time.Now().Add(watchdog)
	timer := time.AfterFunc(watchdog, func() { s.mu.Lock(); s.cond.Broadcast(); s.mu.Unlock() })
	defer timer.Stop()
	s.mu.Lock()
	defer s.mu.Unlock()
	var t *ticket
	for t == nil {
		for _, c := range s.parked {
			if !c.released && strings.HasPrefix(c.id, id) {
				t = c
				break
			}
		}
		if t != nil {
			break
		}
		if time.Now().After(deadline) {
			var p []string
			for _, c := range s.parked {
				if !c.released {
					p = append(p, c.id)
				}
			}
			return fmt.Errorf("schedule infeasible: %s never arrived; parked=%v", id, p)
		}
		s.cond.Wait()
	}
	t.released = true
	s.cond.Broadcast()
	for !t.done {
		if time.Now().After(deadline) {
			return fmt.Errorf("released %s did not complete", id)
		}
		s.cond.Wait()
	}
	return nil
}

// WaitParked waits until a call with the id prefix is parked (without releasing).
func (s *Scheduler) WaitParked(id string, watchdog time.Duration) error {
	deadline := time.Now().Add(watchdog)
	timer := time.AfterFunc(watchdog, func() { s.mu.Lock(); s.cond.Broadcast(); s.mu.Unlock() })
	defer timer.Stop()
	s.mu.Lock()
	defer s.mu.Unlock()
	for {
		for _, c := range s.parked {
			if !c.released && strings.HasPrefix(c.id, id) {
				return nil
			}
		}
		if time.Now().After(deadline) {
			return fmt.Errorf("%s never arrived", id)
		}
		s.cond.Wait()
	}
}

// Free releases everything, now and in the future.
func (s *Scheduler) Free() {
	s.mu.Lock()
	s.free = true
	for _, t := range s.parked {
		t.released = true
	}
	s.cond.Broadcast()
	s.mu.Unlock()
}
