package gate

import (
	"bytes"
	"context"
	"fmt"
	"io"
	"os"
	"sort"
	"sync"

	"perkeep.org/pkg/blob"
	"perkeep.org/pkg/blobserver"
)

// MemStore is the harness's reference blob store: a map from ref to bytes.
// It does not verify digests (callers downstream of blobserver.Receive may
// trust their input); it stores exactly what it is given.
type MemStore struct {
	mu sync.Mutex
	m  map[blob.Ref][]byte
}

func NewMemStore() *MemStore { return &MemStore{m: map[blob.Ref][]byte{}} }

func (s *MemStore) Clone() *MemStore {
	s.mu.Lock()
	defer s.mu.Unlock()
	c := NewMemStore()
	for k, v := range s.m {
		c.m[k] = append([]byte(nil), v...)
	}
	return c
}

func (s *MemStore) Has(br blob.Ref) bool {
	s.mu.Lock()
	defer s.mu.Unlock()
	_, ok := s.m[br]
	return ok
}

func (s *MemStore) Get(br blob.Ref) ([]byte, bool) {
	s.mu.Lock()
	defer s.mu.Unlock()
	b, ok := s.m[br]
	return b, ok
}

func (s *MemStore) Put(br blob.Ref, b []byte) {
	s.mu.Lock()
	defer s.mu.Unlock()
	s.m[br] = append([]byte(nil), b...)
}

func (s *MemStore) Del(br blob.Ref) {
	s.mu.Lock()
	defer s.mu.Unlock()
	delete(s.m, br)
}

func (s *MemStore) Len() int {
	s.mu.Lock()
	defer s.mu.Unlock()
	return len(s.m)
}

// Refs returns all refs sorted by text form.
func (s *MemStore) Refs() []blob.Ref {
	s.mu.Lock()
	defer s.mu.Unlock()
	out := make([]blob.Ref, 0, len(s.m))
	for k := range s.m {
		out = append(out, k)
	}
	sort.Slice(out, func(i, j int) bool { return out[i].String() < out[j].String() })
	return out
}

// All returns a copy of the contents keyed by ref text.
func (s *MemStore) All() map[string][]byte {
	s.mu.Lock()
	defer s.mu.Unlock()
	out := map[string][]byte{}
	for k, v := range s.m {
		out[k.String()] = append([]byte(nil), v...)
	}
	return out
}

// Storage is a recording, fault-injecting, parkable blobserver.Storage over a
// MemStore. It implements SubFetch.
type Storage struct {
	Name string
	B    *MemStore
	P    *Plan
	L    *Log
	// Rank maps a ref to the integer logged for it (nil: log the text).
	Rank func(blob.Ref) any
	// Quiet suppresses logging of read calls.
	Quiet bool
}

var (
	_ blobserver.Storage = (*Storage)(nil)
	_ blob.SubFetcher    = (*Storage)(nil)
)

func NewStorage(name string, b *MemStore, p *Plan, l *Log) *Storage {
	if b == nil {
		b = NewMemStore()
	}
	return &Storage{Name: name, B: b, P: p, L: l}
}

func (g *Storage) String() string { return "gate:" + g.Name }

func (g *Storage) rk(br blob.Ref) any {
	if g.Rank != nil {
		return g.Rank(br)
	}
	return br.String()
}

func (g *Storage) rks(brs []blob.Ref) []any {
	out := make([]any, len(brs))
	for i, b := range brs {
		out[i] = g.rk(b)
	}
	return out
}

func (g *Storage) log(call string, n int, res string, extra Event) {
	if g.L == nil {
		return
	}
	ev := Event{"ev": "lower", "layer": g.Name, "call": call, "res": res, "n": n}
	for k, v := range extra {
		ev[k] = v
	}
	g.L.Emit(ev)
}

func (g *Storage) Fetch(ctx context.Context, br blob.Ref) (io.ReadCloser, uint32, error) {
	n, kind, frozen := g.P.enter(g.Name, "Fetch", false)
	defer g.P.done(g.Name, "Fetch")
	if frozen {
		return nil, 0, ErrFrozen
	}
	if kind != "" {
		g.log("Fetch", n, "injected", Event{"b": g.rk(br)})
		return nil, 0, ErrInjected
	}
	defer g.P.effect()()
	b, ok := g.B.Get(br)
	if !ok {
		if !g.Quiet {
			g.log("Fetch", n, "notexist", Event{"b": g.rk(br)})
		}
		return nil, 0, os.ErrNotExist
	}
	if !g.Quiet {
		g.log("Fetch", n, "ok", Event{"b": g.rk(br)})
	}
	return io.NopCloser(bytes.NewReader(b)), uint32(len(b)), nil
}

func (g *Storage) SubFetch(ctx context.Context, br blob.Ref, offset, length int64) (io.ReadCloser, error) {
	n, kind, frozen := g.P.enter(g.Name, "SubFetch", false)
	defer g.P.done(g.Name, "SubFetch")
	if frozen {
		return nil, ErrFrozen
	}
	if kind != "" {
		g.log("SubFetch", n, "injected", Event{"b": g.rk(br)})
		return nil, ErrInjected
	}
	if offset < 0 || length < 0 {
		return nil, blob.ErrNegativeSubFetch
	}
	defer g.P.effect()()
	b, ok := g.B.Get(br)
	if !ok {
		if !g.Quiet {
			g.log("SubFetch", n, "notexist", Event{"b": g.rk(br)})
		}
		return nil, os.ErrNotExist
	}
	if offset > int64(len(b)) {
		return nil, blob.ErrOutOfRangeOffsetSubFetch
	}
	end := offset + length
	if end > int64(len(b)) {
		end = int64(len(b))
	}
	if !g.Quiet {
		g.log("SubFetch", n, "ok", Event{"b": g.rk(br), "off": offset, "len": length})
	}
	return io.NopCloser(bytes.NewReader(b[offset:end])), nil
}

func (g *Storage) ReceiveBlob(ctx context.Context, br blob.Ref, source io.Reader) (blob.SizedRef, error) {
	n, kind, frozen := g.P.enter(g.Name, "ReceiveBlob", true)
	defer g.P.done(g.Name, "ReceiveBlob")
	if frozen {
		return blob.SizedRef{}, ErrFrozen
	}
	switch kind {
	case "error":
		g.log("ReceiveBlob", n, "injected", Event{"b": g.rk(br)})
		return blob.SizedRef{}, ErrInjected
	case "short":
		io.CopyN(io.Discard, source, 1)
		g.log("ReceiveBlob", n, "injected", Event{"b": g.rk(br)})
		return blob.SizedRef{}, ErrInjected
	}
	data, err := readAll(source)
	if err != nil {
		g.log("ReceiveBlob", n, "srcerr", Event{"b": g.rk(br)})
		return blob.SizedRef{}, err
	}
	defer g.P.effect()()
	g.B.Put(br, data)
	switch kind {
	case "after":
		g.log("ReceiveBlob", n, "injected-after", Event{"b": g.rk(br), "size": len(data)})
		return blob.SizedRef{}, ErrInjected
	case "wrongsize":
		g.log("ReceiveBlob", n, "wrongsize", Event{"b": g.rk(br), "size": len(data)})
		return blob.SizedRef{Ref: br, Size: uint32(len(data)) + 1}, nil
	}
	g.log("ReceiveBlob", n, "ok", Event{"b": g.rk(br), "size": len(data)})
	return blob.SizedRef{Ref: br, Size: uint32(len(data))}, nil
}

func (g *Storage) StatBlobs(ctx context.Context, blobs []blob.Ref, fn func(blob.SizedRef) error) error {
	n, kind, frozen := g.P.enter(g.Name, "StatBlobs", false)
	defer g.P.done(g.Name, "StatBlobs")
	if frozen {
		return ErrFrozen
	}
	if kind != "" {
		g.log("StatBlobs", n, "injected", Event{"bs": g.rks(blobs)})
		return ErrInjected
	}
	var found []any
	for _, br := range blobs {
		if b, ok := g.B.Get(br); ok {
			found = append(found, g.rk(br))
			if err := fn(blob.SizedRef{Ref: br, Size: uint32(len(b))}); err != nil {
				return err
			}
		}
	}
	if !g.Quiet {
		g.log("StatBlobs", n, "ok", Event{"bs": g.rks(blobs), "found": found})
	}
	return nil
}

func (g *Storage) EnumerateBlobs(ctx context.Context, dest chan<- blob.SizedRef, after string, limit int) error {
	defer close(dest)
	n, kind, frozen := g.P.enter(g.Name, "EnumerateBlobs", false)
	defer g.P.done(g.Name, "EnumerateBlobs")
	if frozen {
		return ErrFrozen
	}
	if kind != "" {
		g.log("EnumerateBlobs", n, "injected", nil)
		return ErrInjected
	}
	sent := 0
	for _, br := range g.B.Refs() {
		if sent >= limit {
			break
		}
		if br.String() <= after {
			continue
		}
		b, ok := g.B.Get(br)
		if !ok {
			continue
		}
		select {
		case dest <- blob.SizedRef{Ref: br, Size: uint32(len(b))}:
			sent++
		case <-ctx.Done():
			return ctx.Err()
		}
	}
	if !g.Quiet {
		g.log("EnumerateBlobs", n, "ok", Event{"after": after, "limit": limit, "sent": sent})
	}
	return nil
}

func (g *Storage) RemoveBlobs(ctx context.Context, blobs []blob.Ref) error {
	n, kind, frozen := g.P.enter(g.Name, "RemoveBlobs", true)
	defer g.P.done(g.Name, "RemoveBlobs")
	if frozen {
		return ErrFrozen
	}
	if kind == "error" || kind == "short" || kind == "wrongsize" {
		g.log("RemoveBlobs", n, "injected", Event{"bs": g.rks(blobs)})
		return ErrInjected
	}
	defer g.P.effect()()
	if kind == "partial" {
		// only the first half of the blobs is removed before the failure / death
		h := (len(blobs) + 1) / 2
		for _, br := range blobs[:h] {
			g.B.Del(br)
		}
		g.log("RemoveBlobs", n, "injected-partial", Event{"bs": g.rks(blobs), "done": g.rks(blobs[:h])})
		return ErrInjected
	}
	for _, br := range blobs {
		g.B.Del(br)
	}
	if kind == "after" {
		g.log("RemoveBlobs", n, "injected-after", Event{"bs": g.rks(blobs)})
		return ErrInjected
	}
	g.log("RemoveBlobs", n, "ok", Event{"bs": g.rks(blobs)})
	return nil
}

// NoSub hides SubFetch (and everything else optional) of a storage.
type NoSub struct{ blobserver.Storage }

func (n NoSub) String() string { return fmt.Sprintf("nosub(%v)", n.Storage) }
