package gate

import (
	"fmt"
	"os"
	"sync"

	"go4.org/jsonconfig"
	"perkeep.org/pkg/sorted"
)

// KV is a recording, fault-injecting sorted.KeyValue over another one
// (default: perkeep's memory KV, which C10 checks against the spec on its own).
type KV struct {
	Name string
	B    sorted.KeyValue
	P    *Plan
	L    *Log
	// Quiet suppresses logging of Get/Find.
	Quiet bool
	// KeyFn abstracts a key for the log (nil: the key itself).
	KeyFn func(string) any
	// Marker, if set, receives one line per mutating call BEFORE it is applied, written with a single
	// write(2): under strace this places the index update in the total order of the process's system calls.
	Marker *os.File
}

var _ sorted.KeyValue = (*KV)(nil)

func NewKV(name string, b sorted.KeyValue, p *Plan, l *Log) *KV {
	if b == nil {
		b = sorted.NewMemoryKeyValue()
	}
	return &KV{Name: name, B: b, P: p, L: l}
}

func (g *KV) String() string { return "gatekv:" + g.Name }

func (g *KV) k(key string) any {
	if g.KeyFn != nil {
		return g.KeyFn(key)
	}
	return key
}

func (g *KV) log(call string, n int, res string, extra Event) {
	if g.L == nil {
		return
	}
	ev := Event{"ev": "lower", "layer": g.Name, "call": call, "res": res, "n": n}
	for k, v := range extra {
		ev[k] = v
	}
	g.L.Emit(ev)
}

func (g *KV) Get(key string) (string, error) {
	n, kind, frozen := g.P.enter(g.Name, "Get", false)
	defer g.P.done(g.Name, "Get")
	if frozen {
		return "", ErrFrozen
	}
	if kind != "" {
		g.log("Get", n, "injected", Event{"k": g.k(key)})
		return "", ErrInjected
	}
	defer g.P.effect()()
	v, err := g.B.Get(key)
	if !g.Quiet {
		res := "ok"
		if err == sorted.ErrNotFound {
			res = "notfound"
		} else if err != nil {
			res = "err"
		}
		g.log("Get", n, res, Event{"k": g.k(key)})
	}
	return v, err
}

func (g *KV) mark(what, key string) {
	if g.Marker != nil {
		g.Marker.Write([]byte("VERIFMARK " + what + " " + key + "\n"))
	}
}

func (g *KV) Set(key, value string) error {
	g.mark("Set", key)
	n, kind, frozen := g.P.enter(g.Name, "Set", true)
	defer g.P.done(g.Name, "Set")
	if frozen {
		return ErrFrozen
	}
	if kind == "error" || kind == "short" || kind == "wrongsize" {
		g.log("Set", n, "injected", Event{"k": g.k(key)})
		return ErrInjected
	}
	defer g.P.effect()()
	err := g.B.Set(key, value)
	if kind == "after" {
		g.log("Set", n, "injected-after", Event{"k": g.k(key), "v": value})
		return ErrInjected
	}
	g.log("Set", n, errRes(err), Event{"k": g.k(key), "v": value})
	return err
}

func (g *KV) Delete(key string) error {
	g.mark("Delete", key)
	n, kind, frozen := g.P.enter(g.Name, "Delete", true)
	defer g.P.done(g.Name, "Delete")
	if frozen {
		return ErrFrozen
	}
	if kind == "error" || kind == "short" || kind == "wrongsize" {
		g.log("Delete", n, "injected", Event{"k": g.k(key)})
		return ErrInjected
	}
	defer g.P.effect()()
	err := g.B.Delete(key)
	if kind == "after" {
		g.log("Delete", n, "injected-after", Event{"k": g.k(key)})
		return ErrInjected
	}
	g.log("Delete", n, errRes(err), Event{"k": g.k(key)})
	return err
}

func errRes(err error) string {
	if err == nil {
		return "ok"
	}
	return "err"
}

type gateBatch struct {
	sorted.BatchMutation
	sets []any
	dels []any
	g    *KV
}

func (b *gateBatch) Set(k, v string) {
	b.sets = append(b.sets, []any{b.g.k(k), v})
	b.BatchMutation.Set(k, v)
}
func (b *gateBatch) Delete(k string) {
	b.dels = append(b.dels, b.g.k(k))
	b.BatchMutation.Delete(k)
}

func (g *KV) BeginBatch() sorted.BatchMutation {
	return &gateBatch{BatchMutation: g.B.BeginBatch(), g: g}
}

func (g *KV) CommitBatch(b sorted.BatchMutation) error {
	gb, ok := b.(*gateBatch)
	if !ok {
		return fmt.Errorf("gatekv: foreign batch %T", b)
	}
	g.mark("CommitBatch", fmt.Sprint(len(gb.sets), " sets ", len(gb.dels), " dels"))
	n, kind, frozen := g.P.enter(g.Name, "CommitBatch", true)
	defer g.P.done(g.Name, "CommitBatch")
	if frozen {
		return ErrFrozen
	}
	if kind == "error" || kind == "short" || kind == "wrongsize" {
		g.log("CommitBatch", n, "injected", Event{"sets": gb.sets, "dels": gb.dels})
		return ErrInjected
	}
	defer g.P.effect()()
	err := g.B.CommitBatch(gb.BatchMutation)
	if kind == "after" {
		g.log("CommitBatch", n, "injected-after", Event{"sets": gb.sets, "dels": gb.dels})
		return ErrInjected
	}
	g.log("CommitBatch", n, errRes(err), Event{"sets": gb.sets, "dels": gb.dels})
	return err
}

type errIter struct{ err error }

func (errIter) Next() bool         { return false }
func (errIter) Key() string        { return "" }
func (errIter) KeyBytes() []byte   { return nil }
func (errIter) Value() string      { return "" }
func (errIter) ValueBytes() []byte { return nil }
func (e errIter) Close() error     { return e.err }

func (g *KV) Find(start, end string) sorted.Iterator {
	n, kind, frozen := g.P.enter(g.Name, "Find", false)
	defer g.P.done(g.Name, "Find")
	if frozen {
		return errIter{ErrFrozen}
	}
	if kind != "" {
		g.log("Find", n, "injected", Event{"start": g.k(start), "end": g.k(end)})
		return errIter{ErrInjected}
	}
	defer g.P.effect()()
	if !g.Quiet {
		g.log("Find", n, "ok", Event{"start": g.k(start), "end": g.k(end)})
	}
	return g.B.Find(start, end)
}

func (g *KV) Close() error { return nil }

// Wipe implements sorted.Wiper when the backing does.
func (g *KV) Wipe() error {
	if w, ok := g.B.(sorted.Wiper); ok {
		return w.Wipe()
	}
	return fmt.Errorf("gatekv: backing cannot wipe")
}

// Dump returns all rows.
func Dump(kv sorted.KeyValue) map[string]string {
	out := map[string]string{}
	it := kv.Find("", "")
	for it.Next() {
		out[it.Key()] = it.Value()
	}
	it.Close()
	return out
}

// CloneKV copies all rows into a fresh memory KV.
func CloneKV(kv sorted.KeyValue) sorted.KeyValue {
	c := sorted.NewMemoryKeyValue()
	for k, v := range Dump(kv) {
		c.Set(k, v)
	}
	return c
}

// registry lets CreateStorage configs name harness KVs: {"type":"verifkv","name":"x"}.
var (
	regMu sync.Mutex
	reg   = map[string]sorted.KeyValue{}
)

func RegisterNamedKV(name string, kv sorted.KeyValue) {
	regMu.Lock()
	reg[name] = kv
	regMu.Unlock()
}

func init() {
	sorted.RegisterKeyValue("verifkv", func(cfg jsonconfig.Obj) (sorted.KeyValue, error) {
		name := cfg.RequiredString("name")
		if err := cfg.Validate(); err != nil {
			return nil, err
		}
		regMu.Lock()
		defer regMu.Unlock()
		kv, ok := reg[name]
		if !ok {
			return nil, fmt.Errorf("verifkv: no KV named %q", name)
		}
		return kv, nil
	})
}

// KVConfig returns the jsonconfig object naming a registered KV.
func KVConfig(name string) map[string]any {
	return map[string]any{"type": "verifkv", "name": name}
}
