package gate

import (
	"bytes"
	"fmt"
	"io/fs"
	"os"
	"path/filepath"
	"sort"
	"strings"
	"sync"
	"syscall"
	"time"

	"perkeep.org/pkg/blobserver/files"
)

type vnode struct {
	dir    bool
	data   []byte
	synced int // durable prefix of data
}

// Disk is the durable state under a VFS: path -> node.
type Disk struct {
	mu    sync.Mutex
	nodes map[string]*vnode
	tmpN  int
}

func NewDisk() *Disk {
	return &Disk{nodes: map[string]*vnode{"/": {dir: true}}}
}

// FileState describes one file for crash enumeration.
type FileState struct {
	Path   string
	Len    int
	Synced int
}

// Files lists regular files (sorted by path).
func (d *Disk) Files() []FileState {
	d.mu.Lock()
	defer d.mu.Unlock()
	var out []FileState
	for p, n := range d.nodes {
		if !n.dir {
			out = append(out, FileState{p, len(n.data), n.synced})
		}
	}
	sort.Slice(out, func(i, j int) bool { return out[i].Path < out[j].Path })
	return out
}

// CrashClone returns the disk as found after a crash: metadata operations
// already executed are durable; each file keeps keep(path, synced, len) bytes,
// which must lie in [synced, len].
func (d *Disk) CrashClone(keep func(path string, synced, n int) int) *Disk {
	d.mu.Lock()
	defer d.mu.Unlock()
	c := &Disk{nodes: map[string]*vnode{}, tmpN: d.tmpN}
	for p, n := range d.nodes {
		nn := &vnode{dir: n.dir}
		if !n.dir {
			k := len(n.data)
			if keep != nil {
				k = keep(p, n.synced, len(n.data))
			}
			if k < n.synced || k > len(n.data) {
				panic("CrashClone: keep out of range")
			}
			nn.data = append([]byte(nil), n.data[:k]...)
			nn.synced = k
		}
		c.nodes[p] = nn
	}
	return c
}

// VFS is a files.VFS over a Disk with recording, faults, parking and freeze.
type VFS struct {
	D *Disk
	P *Plan
	L *Log
	// Name abstracts a path for the log (nil: the path itself).
	NameFn func(string) any
}

var _ files.VFS = (*VFS)(nil)

func NewVFS(d *Disk, p *Plan, l *Log) *VFS {
	if d == nil {
		d = NewDisk()
	}
	return &VFS{D: d, P: p, L: l}
}

func (v *VFS) nm(p string) any {
	if v.NameFn != nil {
		return v.NameFn(p)
	}
	return p
}

func (v *VFS) log(call string, n int, res string, extra Event) {
	if v.L == nil {
		return
	}
	ev := Event{"ev": "lower", "layer": "vfs", "call": call, "res": res, "n": n}
	for k, x := range extra {
		ev[k] = x
	}
	v.L.Emit(ev)
}

func clean(p string) string { return filepath.Clean("/" + p) }

func notExist(op, p string) error { return &fs.PathError{Op: op, Path: p, Err: syscall.ENOENT} }

// pre handles enter/fault/frozen for a call; ok=false means return err.
func (v *VFS) pre(call string, mutating bool, extra Event) (n int, kind string, err error) {
	n, kind, frozen := v.P.enter("vfs", call, mutating)
	if frozen {
		return n, "", ErrFrozen
	}
	if kind == "error" || (kind != "" && kind != "after") {
		v.log(call, n, "injected", extra)
		return n, kind, &fs.PathError{Op: call, Path: "", Err: ErrInjected}
	}
	return n, kind, nil
}

func (v *VFS) Remove(p string) error {
	p = clean(p)
	n, _, err := v.pre("Remove", true, Event{"p": v.nm(p)})
	defer v.P.done("vfs", "Remove")
	if err != nil {
		return err
	}
	v.D.mu.Lock()
	defer v.D.mu.Unlock()
	nd, ok := v.D.nodes[p]
	if !ok {
		v.log("Remove", n, "notexist", Event{"p": v.nm(p)})
		return notExist("remove", p)
	}
	if nd.dir {
		return &fs.PathError{Op: "remove", Path: p, Err: syscall.EISDIR}
	}
	delete(v.D.nodes, p)
	v.log("Remove", n, "ok", Event{"p": v.nm(p)})
	return nil
}

func (v *VFS) RemoveDir(p string) error {
	p = clean(p)
	n, _, err := v.pre("RemoveDir", true, Event{"p": v.nm(p)})
	defer v.P.done("vfs", "RemoveDir")
	if err != nil {
		return err
	}
	v.D.mu.Lock()
	defer v.D.mu.Unlock()
	nd, ok := v.D.nodes[p]
	if !ok {
		return notExist("rmdir", p)
	}
	if !nd.dir {
		return &fs.PathError{Op: "rmdir", Path: p, Err: syscall.ENOTDIR}
	}
	pre := p + "/"
	for q := range v.D.nodes {
		if strings.HasPrefix(q, pre) {
			return &fs.PathError{Op: "rmdir", Path: p, Err: syscall.ENOTEMPTY}
		}
	}
	delete(v.D.nodes, p)
	v.log("RemoveDir", n, "ok", Event{"p": v.nm(p)})
	return nil
}

type vinfo struct {
	name string
	size int64
	dir  bool
}

func (i vinfo) Name() string { return i.name }
func (i vinfo) Size() int64  { return i.size }
func (i vinfo) Mode() fs.FileMode {
	if i.dir {
		return fs.ModeDir | 0700
	}
	return 0600
}
func (i vinfo) ModTime() time.Time { return time.Unix(1, 0) }
func (i vinfo) IsDir() bool        { return i.dir }
func (i vinfo) Sys() any           { return nil }

func (v *VFS) stat(call, p string) (os.FileInfo, error) {
	p = clean(p)
	n, _, err := v.pre(call, false, Event{"p": v.nm(p)})
	defer v.P.done("vfs", call)
	if err != nil {
		return nil, err
	}
	v.D.mu.Lock()
	defer v.D.mu.Unlock()
	nd, ok := v.D.nodes[p]
	if !ok {
		return nil, notExist("stat", p)
	}
	_ = n
	return vinfo{name: filepath.Base(p), size: int64(len(nd.data)), dir: nd.dir}, nil
}

func (v *VFS) Stat(p string) (os.FileInfo, error)  { return v.stat("Stat", p) }
func (v *VFS) Lstat(p string) (os.FileInfo, error) { return v.stat("Lstat", p) }

type rfile struct {
	*bytes.Reader
}

func (rfile) Close() error { return nil }

func (v *VFS) Open(p string) (files.ReadableFile, error) {
	p = clean(p)
	_, _, err := v.pre("Open", false, Event{"p": v.nm(p)})
	defer v.P.done("vfs", "Open")
	if err != nil {
		return nil, err
	}
	v.D.mu.Lock()
	defer v.D.mu.Unlock()
	nd, ok := v.D.nodes[p]
	if !ok || nd.dir {
		return nil, notExist("open", p)
	}
	return rfile{bytes.NewReader(append([]byte(nil), nd.data...))}, nil
}

func (v *VFS) MkdirAll(p string, perm os.FileMode) error {
	p = clean(p)
	n, _, err := v.pre("MkdirAll", true, Event{"p": v.nm(p)})
	defer v.P.done("vfs", "MkdirAll")
	if err != nil {
		return err
	}
	v.D.mu.Lock()
	defer v.D.mu.Unlock()
	parts := strings.Split(strings.TrimPrefix(p, "/"), "/")
	cur := ""
	for _, part := range parts {
		if part == "" {
			continue
		}
		cur += "/" + part
		nd, ok := v.D.nodes[cur]
		if ok && !nd.dir {
			return &fs.PathError{Op: "mkdir", Path: cur, Err: syscall.ENOTDIR}
		}
		if !ok {
			v.D.nodes[cur] = &vnode{dir: true}
		}
	}
	v.log("MkdirAll", n, "ok", Event{"p": v.nm(p)})
	return nil
}

func (v *VFS) Rename(oldname, newname string) error {
	o, nn := clean(oldname), clean(newname)
	n, _, err := v.pre("Rename", true, Event{"from": v.nm(o), "to": v.nm(nn)})
	defer v.P.done("vfs", "Rename")
	if err != nil {
		return err
	}
	v.D.mu.Lock()
	defer v.D.mu.Unlock()
	nd, ok := v.D.nodes[o]
	if !ok {
		return notExist("rename", o)
	}
	if par, ok := v.D.nodes[filepath.Dir(nn)]; !ok || !par.dir {
		return notExist("rename", nn)
	}
	delete(v.D.nodes, o)
	v.D.nodes[nn] = nd
	v.log("Rename", n, "ok", Event{"from": v.nm(o), "to": v.nm(nn), "len": len(nd.data), "synced": nd.synced})
	return nil
}

type wfile struct {
	v      *VFS
	path   string
	nd     *vnode // the open file itself: a handle follows its file across a rename, as a descriptor does
	closed bool
}

// follow re-points the handle's path at the name its file has now (it may have been renamed since it was opened).
func (w *wfile) follow() {
	w.v.D.mu.Lock()
	defer w.v.D.mu.Unlock()
	if w.nd == nil || w.v.D.nodes[w.path] == w.nd {
		return
	}
	for q, n := range w.v.D.nodes {
		if n == w.nd {
			w.path = q
			return
		}
	}
}

func (w *wfile) Name() string { return w.path }

func (w *wfile) Write(b []byte) (int, error) {
	w.follow()
	n, kind, err := w.v.pre("Write", true, Event{"p": w.v.nm(w.path)})
	defer w.v.P.done("vfs", "Write")
	if err != nil && kind != "short" {
		return 0, err
	}
	w.v.D.mu.Lock()
	defer w.v.D.mu.Unlock()
	nd, ok := w.v.D.nodes[w.path]
	if !ok || w.closed {
		return 0, &fs.PathError{Op: "write", Path: w.path, Err: os.ErrClosed}
	}
	if kind == "short" {
		h := len(b) / 2
		nd.data = append(nd.data, b[:h]...)
		return h, err
	}
	nd.data = append(nd.data, b...)
	w.v.log("Write", n, "ok", Event{"p": w.v.nm(w.path), "n_bytes": len(b), "len": len(nd.data)})
	return len(b), nil
}

func (w *wfile) Sync() error {
	w.follow()
	n, _, err := w.v.pre("Sync", true, Event{"p": w.v.nm(w.path)})
	defer w.v.P.done("vfs", "Sync")
	if err != nil {
		return err
	}
	w.v.D.mu.Lock()
	defer w.v.D.mu.Unlock()
	nd, ok := w.v.D.nodes[w.path]
	if !ok {
		return notExist("sync", w.path)
	}
	nd.synced = len(nd.data)
	w.v.log("Sync", n, "ok", Event{"p": w.v.nm(w.path), "len": len(nd.data)})
	return nil
}

func (w *wfile) Close() error {
	n, _, err := w.v.pre("Close", true, Event{"p": w.v.nm(w.path)})
	defer w.v.P.done("vfs", "Close")
	if err != nil {
		return err
	}
	w.closed = true
	w.v.log("Close", n, "ok", Event{"p": w.v.nm(w.path)})
	return nil
}

func (v *VFS) TempFile(dir, prefix string) (files.WritableFile, error) {
	dir = clean(dir)
	n, _, err := v.pre("TempFile", true, Event{"p": v.nm(dir)})
	defer v.P.done("vfs", "TempFile")
	if err != nil {
		return nil, err
	}
	v.D.mu.Lock()
	defer v.D.mu.Unlock()
	if par, ok := v.D.nodes[dir]; !ok || !par.dir {
		return nil, notExist("open", dir)
	}
	v.D.tmpN++
	p := fmt.Sprintf("%s/%s%d", dir, prefix, v.D.tmpN)
	nd := &vnode{}
	v.D.nodes[p] = nd
	v.log("TempFile", n, "ok", Event{"p": v.nm(p)})
	return &wfile{v: v, path: p, nd: nd}, nil
}

func (v *VFS) ReadDirNames(dir string) ([]string, error) {
	dir = clean(dir)
	_, _, err := v.pre("ReadDirNames", false, Event{"p": v.nm(dir)})
	defer v.P.done("vfs", "ReadDirNames")
	if err != nil {
		return nil, err
	}
	v.D.mu.Lock()
	defer v.D.mu.Unlock()
	nd, ok := v.D.nodes[dir]
	if !ok || !nd.dir {
		return nil, notExist("readdir", dir)
	}
	pre := dir + "/"
	if dir == "/" {
		pre = "/"
	}
	var out []string
	for q := range v.D.nodes {
		if q != dir && strings.HasPrefix(q, pre) && !strings.Contains(q[len(pre):], "/") {
			out = append(out, q[len(pre):])
		}
	}
	sort.Strings(out)
	return out, nil
}
