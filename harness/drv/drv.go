// Package drv executes abstract storage operations (ranks, cursor ranks,
// offset/length classes) on a real perkeep storage and projects each reply
// into the event vocabulary Trace_BlobStore.tla consumes.
package drv

import (
	"bytes"
	"context"
	"errors"
	"fmt"
	"io"
	"os"
	"runtime"
	"sort"
	"strings"
	"time"

	"perkeep.org/pkg/blob"
	"perkeep.org/pkg/blobserver"

	"verif/gate"
	"verif/univ"
)

// Op is one abstract operation (as TLC emits it).
type Op struct {
	Op    string `json:"op"`
	B     int    `json:"b,omitempty"`
	Bs    []int  `json:"bs,omitempty"`
	After int    `json:"after,omitempty"`
	Limit int    `json:"limit,omitempty"`
	Form  int    `json:"form,omitempty"`
	Off   int    `json:"off,omitempty"` // class 0..6
	Len   int    `json:"len,omitempty"` // class 0..6
	// Src selects the reader fragmentation of a receive: 0 whole, 1 one-byte reads, 2 data+EOF.
	Src int `json:"src,omitempty"`
}

type Caps struct {
	CanRemove bool
	ReadOnly  bool
	SubFetch  string // yes | no | maybe
}

type Runner struct {
	U       *univ.Universe
	Sto     blobserver.Storage
	Caps    Caps
	Timeout time.Duration
	// Direct: call ReceiveBlob directly instead of blobserver.Receive.
	Direct bool
	// NoQuiesce: do not wait for background goroutines after a call (concurrent drivers).
	NoQuiesce bool
	// SlowEnum: the enumerate consumer yields between the blobs it receives (the channel is unbuffered, so
	// the enumerating store is held at its send while other clients run).
	SlowEnum bool
}

func (r *Runner) ResetEvent(cfg string) gate.Event {
	sizes := make([]any, len(r.U.Blobs))
	kinds := make([]any, len(r.U.Blobs))
	for i, b := range r.U.Blobs {
		sizes[i] = len(b.Data)
		kinds[i] = b.Kind
	}
	return gate.Event{"ev": "reset", "cfg": cfg, "sizes": sizes, "kinds": kinds, "canRemove": r.Caps.CanRemove,
		"readOnly": r.Caps.ReadOnly, "subfetch": r.Caps.SubFetch}
}

// Classify maps an error to the spec's error classes.
func Classify(err error) string {
	switch {
	case err == nil:
		return "ok"
	case errors.Is(err, gate.ErrInjected):
		return "injected"
	case errors.Is(err, gate.ErrFrozen):
		return "frozen"
	case errors.Is(err, os.ErrNotExist):
		return "notexist"
	case errors.Is(err, blob.ErrOutOfRangeOffsetSubFetch):
		return "outofrange"
	case errors.Is(err, blob.ErrNegativeSubFetch):
		return "negative"
	case errors.Is(err, blob.ErrUnimplemented):
		return "unsupported"
	case errors.Is(err, blobserver.ErrNotImplemented), errors.Is(err, blobserver.ErrReadonly):
		return "refused"
	case errors.Is(err, blobserver.ErrCorruptBlob):
		return "corrupt"
	case errors.Is(err, errHang):
		return "hang"
	case strings.Contains(err.Error(), gate.ErrInjected.Error()):
		return "injected"
	}
	return "other"
}

var errHang = errors.New("verif: call did not return within the watchdog")

// OffLen concretises offset/length classes for a blob of size s.
func OffLen(offc, lenc, s int) (off, ln int64) {
	S := int64(s)
	switch offc {
	case 0:
		off = 0
	case 1:
		off = 1
	case 2:
		off = S / 2
	case 3:
		off = S - 1
	case 4:
		off = S
	case 5:
		off = S + 1
	default:
		off = S + 7
	}
	if off < 0 {
		off = 0
	}
	switch lenc {
	case 0:
		ln = 0
	case 1:
		ln = 1
	case 2:
		ln = S / 2
	case 3:
		ln = S
	case 4:
		ln = S + 1
	case 5:
		ln = 1 << 30 // TLC integers are 32-bit
	default:
		ln = 2
	}
	return
}

type oneByteReader struct{ r io.Reader }

func (o oneByteReader) Read(p []byte) (int, error) {
	if len(p) == 0 {
		return 0, nil
	}
	return o.r.Read(p[:1])
}

// dataEOFReader returns the final bytes together with io.EOF.
type dataEOFReader struct {
	b []byte
}

func (d *dataEOFReader) Read(p []byte) (int, error) {
	n := copy(p, d.b)
	d.b = d.b[n:]
	if len(d.b) == 0 {
		return n, io.EOF
	}
	return n, nil
}

func source(data []byte, kind int) io.Reader {
	switch kind {
	case 1:
		return oneByteReader{bytes.NewReader(data)}
	case 2:
		return &dataEOFReader{b: append([]byte(nil), data...)}
	}
	return bytes.NewReader(data)
}

// quiesce waits until the goroutines an operation started in the background
// (replica stragglers, proxycache fan-out, enumerate pre-stat workers) have
// finished, so that sequential replays are deterministic. Schedules in which
// a background write overtakes the next call are explored by C12/C14.
func quiesce(baseline int) {
	deadline := time.Now().Add(500 * time.Millisecond)
	for runtime.NumGoroutine() > baseline && time.Now().Before(deadline) {
		time.Sleep(20 * time.Microsecond)
	}
}

func (r *Runner) withWatchdog(fn func(ctx context.Context) gate.Event, base gate.Event) gate.Event {
	if !r.NoQuiesce {
		baseline := runtime.NumGoroutine()
		defer quiesce(baseline)
	}
	to := r.Timeout
	if to == 0 {
		to = 20 * time.Second
	}
	ctx, cancel := context.WithCancel(context.Background())
	defer cancel()
	ch := make(chan gate.Event, 1)
	go func() {
		defer func() {
			if p := recover(); p != nil {
				base["res"] = "panic"
				base["detail"] = fmt.Sprint(p)
				ch <- base
			}
		}()
		ch <- fn(ctx)
	}()
	select {
	case ev := <-ch:
		return ev
	case <-time.After(to):
	}
	// Not back in time: on a heavily loaded machine that is no evidence of a hang. Only a call that stays away
	// for much longer is reported as one (a real deadlock never comes back); a late return is an ordinary result.
	select {
	case ev := <-ch:
		ev["slow"] = true
		return ev
	case <-time.After(9 * to):
		base["res"] = "hang"
		return base
	}
}

func fill(ev gate.Event) gate.Event {
	if _, ok := ev["size"]; !ok {
		ev["size"] = 0
	}
	if _, ok := ev["list"]; !ok {
		ev["list"] = []any{}
	}
	return ev
}

func (r *Runner) refs(ranks []int) []blob.Ref {
	out := make([]blob.Ref, len(ranks))
	for i, k := range ranks {
		out[i] = r.U.ByRank(k).Ref
	}
	return out
}

func (r *Runner) sizedList(srs []blob.SizedRef, sortIt bool) []any {
	if sortIt {
		sort.Slice(srs, func(i, j int) bool { return srs[i].Ref.String() < srs[j].Ref.String() })
	}
	out := make([]any, 0, len(srs))
	for _, sr := range srs {
		rk := r.U.RankOf(sr.Ref)
		if rk < 0 {
			// a ref outside the universe: a rank no blob has (odd), so it never matches
			rk = 2*r.U.CursorRank(sr.Ref.String()) + 1001
		}
		out = append(out, []any{rk, int(sr.Size)})
	}
	return out
}

// Do executes one operation and returns its event (ev="op").
func (r *Runner) Do(op Op) gate.Event {
	switch op.Op {
	case "receive":
		b := r.U.ByRank(op.B)
		base := gate.Event{"ev": "op", "op": "receive", "b": op.B, "src": op.Src}
		return fill(r.withWatchdog(func(ctx context.Context) gate.Event {
			var sr blob.SizedRef
			var err error
			if r.Direct {
				sr, err = r.Sto.ReceiveBlob(ctx, b.Ref, source(b.Data, op.Src))
			} else {
				sr, err = blobserver.Receive(ctx, r.Sto, b.Ref, source(b.Data, op.Src))
			}
			res := Classify(err)
			if err != nil && r.Caps.ReadOnly && res != "injected" {
				res = "refused"
			}
			base["res"] = res
			if err == nil {
				base["size"] = int(sr.Size)
				if sr.Ref != b.Ref {
					base["res"] = "wrongref"
				}
			} else {
				base["detail"] = err.Error()
			}
			return base
		}, base))
	case "fetch":
		b := r.U.ByRank(op.B)
		base := gate.Event{"ev": "op", "op": "fetch", "b": op.B}
		return fill(r.withWatchdog(func(ctx context.Context) gate.Event {
			rc, size, err := r.Sto.Fetch(ctx, b.Ref)
			base["res"] = Classify(err)
			if err != nil {
				base["detail"] = err.Error()
				return base
			}
			data, rerr := io.ReadAll(rc)
			rc.Close()
			base["size"] = int(size)
			if rerr != nil {
				base["res"] = "readerr"
				base["detail"] = rerr.Error()
			} else if !bytes.Equal(data, b.Data) {
				base["res"] = "wrongbytes"
				base["detail"] = fmt.Sprintf("got %d bytes, want %d", len(data), len(b.Data))
			}
			return base
		}, base))
	case "subfetch":
		b := r.U.ByRank(op.B)
		off, ln := OffLen(op.Off, op.Len, len(b.Data))
		base := gate.Event{"ev": "op", "op": "subfetch", "b": op.B, "off": off, "len": ln}
		sf, ok := r.Sto.(blob.SubFetcher)
		if !ok {
			base["res"] = "unsupported"
			return fill(base)
		}
		return fill(r.withWatchdog(func(ctx context.Context) gate.Event {
			rc, err := sf.SubFetch(ctx, b.Ref, off, ln)
			base["res"] = Classify(err)
			if err != nil {
				base["detail"] = err.Error()
				return base
			}
			data, rerr := io.ReadAll(rc)
			rc.Close()
			base["size"] = len(data)
			if rerr != nil {
				base["res"] = "readerr"
				base["detail"] = rerr.Error()
				return base
			}
			end := off + ln
			if end > int64(len(b.Data)) {
				end = int64(len(b.Data))
			}
			if off <= int64(len(b.Data)) && !bytes.Equal(data, b.Data[off:end]) {
				base["res"] = "wrongbytes"
			}
			return base
		}, base))
	case "stat":
		base := gate.Event{"ev": "op", "op": "stat", "bs": intsAny(op.Bs)}
		return fill(r.withWatchdog(func(ctx context.Context) gate.Event {
			var got []blob.SizedRef
			err := r.Sto.StatBlobs(ctx, r.refs(op.Bs), func(sr blob.SizedRef) error {
				got = append(got, sr)
				return nil
			})
			base["res"] = Classify(err)
			if err != nil {
				base["detail"] = err.Error()
				return base
			}
			// duplicates must be visible to the spec: do not dedup.
			base["list"] = r.sizedList(got, true)
			return base
		}, base))
	case "enum":
		form := op.Form
		if form == 0 {
			// generated histories name a rank only: spell the cursors between two blobs in every equivalent way
			form = (op.After + op.Limit) % 6
		}
		after := r.U.CursorString(op.After, form)
		arank := r.U.CursorRank(after)
		base := gate.Event{"ev": "op", "op": "enum", "after": arank, "limit": op.Limit, "cursor": after}
		return fill(r.withWatchdog(func(ctx context.Context) gate.Event {
			got, err := r.enumerate(ctx, after, op.Limit)
			base["res"] = Classify(err)
			if err != nil {
				base["detail"] = err.Error()
				return base
			}
			base["list"] = r.sizedList(got, false)
			return base
		}, base))
	case "stream":
		base := gate.Event{"ev": "op", "op": "stream"}
		st, ok := r.Sto.(blobserver.BlobStreamer)
		if !ok {
			base["res"] = "unsupported"
			return fill(base)
		}
		return fill(r.withWatchdog(func(ctx context.Context) gate.Event {
			ch := make(chan blobserver.BlobAndToken, 16)
			errc := make(chan error, 1)
			go func() { errc <- st.StreamBlobs(ctx, ch, "") }()
			var got []blob.SizedRef
			wrong := ""
			for bt := range ch {
				got = append(got, bt.Blob.SizedRef())
				rk := r.U.RankOf(bt.Blob.Ref())
				rc, err := bt.Blob.ReadAll(ctx)
				if err != nil {
					wrong = "readerr"
					continue
				}
				data, _ := io.ReadAll(rc)
				if rk < 0 || !bytes.Equal(data, r.U.ByRank(rk).Data) {
					wrong = "wrongbytes"
					base["detail"] = fmt.Sprintf("streamed blob %v has wrong bytes (%d)", bt.Blob.Ref(), len(data))
				}
			}
			err := <-errc
			base["res"] = Classify(err)
			if err != nil {
				base["detail"] = err.Error()
				return base
			}
			if wrong != "" {
				base["res"] = wrong
			}
			// StreamBlobs promises no particular order and (unlike enumerate) no uniqueness: a blob that was
			// appended twice to a pack is streamed twice. Identical duplicates are folded; "dups" keeps the count.
			seen := map[blob.SizedRef]bool{}
			var uniq []blob.SizedRef
			for _, sr := range got {
				if !seen[sr] {
					seen[sr] = true
					uniq = append(uniq, sr)
				}
			}
			base["dups"] = len(got) - len(uniq)
			base["list"] = r.sizedList(uniq, true)
			return base
		}, base))
	case "remove":
		base := gate.Event{"ev": "op", "op": "remove", "bs": intsAny(op.Bs)}
		return fill(r.withWatchdog(func(ctx context.Context) gate.Event {
			err := r.Sto.RemoveBlobs(ctx, r.refs(op.Bs))
			res := Classify(err)
			if err != nil && !r.Caps.CanRemove && res != "injected" {
				res = "refused"
			}
			base["res"] = res
			if err != nil {
				base["detail"] = err.Error()
			}
			return base
		}, base))
	}
	panic("drv: unknown op " + op.Op)
}

func intsAny(x []int) []any {
	out := make([]any, len(x))
	for i, v := range x {
		out[i] = v
	}
	return out
}

func (r *Runner) enumerate(ctx context.Context, after string, limit int) ([]blob.SizedRef, error) {
	ch := make(chan blob.SizedRef)
	errc := make(chan error, 1)
	go func() { errc <- r.Sto.EnumerateBlobs(ctx, ch, after, limit) }()
	var got []blob.SizedRef
	for sr := range ch {
		got = append(got, sr)
		if r.SlowEnum {
			runtime.Gosched()
			if len(got)%2 == 1 {
				time.Sleep(30 * time.Microsecond)
			}
		}
	}
	return got, <-errc
}

// Observe makes a full observation of the store: stat of everything, fetch of
// every blob, enumeration by pages of 1, 2 and unbounded size following the
// last element as cursor, a few cursor forms, and sub-fetch samples.
func (r *Runner) Observe(emit func(gate.Event), subfetch bool) {
	var all []int
	for _, b := range r.U.Blobs {
		all = append(all, b.Rank)
	}
	emit(r.Do(Op{Op: "stat", Bs: all}))
	for _, b := range r.U.Blobs {
		emit(r.Do(Op{Op: "fetch", B: b.Rank}))
	}
	n := len(r.U.Blobs)
	for _, lim := range []int{1, 2, n + 3} {
		cur := 0
		for step := 0; step <= n+1; step++ {
			ev := r.Do(Op{Op: "enum", After: cur, Limit: lim})
			emit(ev)
			lst, _ := ev["list"].([]any)
			if ev["res"] != "ok" || len(lst) == 0 {
				break
			}
			last := lst[len(lst)-1].([]any)[0].(int)
			if last <= cur || last%2 != 0 || last > 2*n {
				break // the validator reports it
			}
			cur = last
		}
	}
	if subfetch {
		for i, b := range r.U.Blobs {
			emit(r.Do(Op{Op: "subfetch", B: b.Rank, Off: (i + 1) % 7, Len: (i + 3) % 7}))
		}
	}
}
