"""Shared machinery of /verif/bin/check: scratch space, Go driver builds, TLC runs (exhaustive
check, behaviour generation, trace validation), discrepancy classification against
KNOWN_FINDINGS.json, evidence files.

Exit codes: 0 = property held on everything explored (KNOWN-FINDING lines may be printed),
1 = VIOLATION (a discrepancy of the real code that KNOWN_FINDINGS.json does not list),
2 = machinery error (TLC crash, time-out, dead driver, unreproducible rejection): never a verdict."""
import hashlib
import json
import os
import re
import shutil
import subprocess
import sys
import tempfile
import time

VERIF = os.path.dirname(os.path.dirname(os.path.abspath(__file__)))
REPO = os.environ.get("VERIF_REPO", "/repo")
TLA_CP = "/opt/veriftools/tla/tla2tools.jar:/opt/veriftools/tla/CommunityModules-deps.jar"


class MachineryError(Exception):
    pass


def goenv():
    env = dict(os.environ)
    env["GOFLAGS"] = "-mod=mod"
    env["GOPROXY"] = "off"
    env.pop("GOTOOLCHAIN", None)   # the toolchain auto-switch must stay enabled
    env.pop("GOSUMDB", None)
    return env


class Ctx:
    def __init__(self, prop, tier, seed, level="model_checking"):
        self.prop = prop
        self.tier = tier
        self.seed = seed
        self.level = level
        self.t0 = time.time()
        base = os.environ.get("VERIF_SCRATCH") or os.environ.get("TMPDIR") or "/tmp"
        self.scratch = tempfile.mkdtemp(prefix="verif-%s-" % prop, dir=base)
        os.makedirs(os.path.join(self.scratch, "bin"))
        self._specs = None
        self.cov = {"states": 0, "transitions": 0, "traces_validated_against_impl": 0, "samples": [],
                    "evaluations": 0, "distinct_nontrivial": 0, "legs": {}}
        self.assumptions = []
        self.discrepancies = []     # (sig, what, replay)
        self.known_seen = {}
        self.known_sigs = set()
        self.violations = []
        self.notes = []
        self.beyond_seen = {}
        self.kf = load_known()
        self._distinct = set()
        self.keep_scratch = bool(os.environ.get("VERIF_KEEP"))

    # ---------------------------------------------------------------- util
    def log(self, *a):
        print("[%s %6.1fs]" % (self.prop, time.time() - self.t0), *a, flush=True)

    def path(self, *p):
        return os.path.join(self.scratch, *p)

    def quick(self):
        return self.tier == "quick"

    def sample(self, s, cap=6):
        if len(self.cov["samples"]) < cap:
            self.cov["samples"].append(s)

    def count(self, leg, **kw):
        d = self.cov["legs"].setdefault(leg, {})
        for k, v in kw.items():
            if isinstance(v, (int, float)) and not isinstance(v, bool):
                d[k] = d.get(k, 0) + v
            else:
                d[k] = v

    def distinct(self, key):
        """Register a distinct non-trivial case (measured, deduplicated)."""
        self._distinct.add(key if isinstance(key, str) else json.dumps(key, sort_keys=True))

    # ---------------------------------------------------------------- go
    def build(self, name, race=False, tags="verif"):
        out = self.path("bin", name + ("-race" if race else ""))
        if os.path.exists(out):
            return out
        cmd = ["go", "build", "-tags", tags]
        if os.path.realpath(REPO) != "/repo":
            # development aid: build against another checkout (scratch worktree with a candidate change)
            # without touching /repo; registered checks never set VERIF_REPO.
            alt = self.path("go.alt.mod")
            if not os.path.exists(alt):
                mod = open(os.path.join(VERIF, "harness", "go.mod")).read()
                open(alt, "w").write(mod.replace("=> /repo", "=> " + os.path.realpath(REPO)))
                shutil.copy(os.path.join(VERIF, "harness", "go.sum"), self.path("go.alt.sum"))
            cmd += ["-modfile", alt]
        if race:
            cmd.append("-race")
        cmd += ["-o", out, "./cmd/" + name]
        t = time.time()
        p = subprocess.run(cmd, cwd=os.path.join(VERIF, "harness"), env=goenv(), capture_output=True, text=True)
        if p.returncode != 0:
            raise MachineryError("go build %s failed:\n%s" % (name, p.stderr[-4000:]))
        self.log("built %s in %.1fs" % (name, time.time() - t))
        return out

    def run(self, argv, timeout=600, env=None, cwd=None, ok_codes=(0,)):
        """Run a child process (driver). Returns (rc, stdout, stderr). Timeout => MachineryError."""
        e = goenv()
        if env:
            e.update(env)
        try:
            p = subprocess.run(argv, cwd=cwd or self.scratch, env=e, capture_output=True, text=True, timeout=timeout)
        except subprocess.TimeoutExpired:
            raise MachineryError("driver timed out after %ds: %s" % (timeout, " ".join(argv)))
        if ok_codes is not None and p.returncode not in ok_codes:
            raise MachineryError("driver failed rc=%d: %s\n%s" % (p.returncode, " ".join(argv), (p.stderr or p.stdout)[-3000:]))
        return p.returncode, p.stdout, p.stderr

    # ---------------------------------------------------------------- tlc
    def specs(self):
        if self._specs is None:
            d = self.path("specs")
            shutil.copytree(os.path.join(VERIF, "specs"), d)
            self._specs = d
        return self._specs

    def _cfg(self, cfg, overrides):
        """Derive a cfg with some CONSTANT values replaced: overrides = {name: tla-text}."""
        src = os.path.join(self.specs(), cfg)
        if not overrides:
            return cfg
        txt = open(src).read()
        for k, v in overrides.items():
            txt, n = re.subn(r"(?m)^(\s*%s\s*=\s*).*$" % re.escape(k), lambda m: m.group(1) + str(v), txt)
            if n != 1:
                raise MachineryError("cfg %s: constant %s not found" % (cfg, k))
        name = "%s.%s.cfg" % (cfg[:-4], hashlib.md5(json.dumps(overrides, sort_keys=True).encode()).hexdigest()[:8])
        dst = os.path.join(self.specs(), name)
        if not os.path.exists(dst):
            fd, tmp = tempfile.mkstemp(dir=self.specs(), suffix=".tmpcfg")     # several threads may derive the same cfg
            with os.fdopen(fd, "w") as f:
                f.write(txt)
            os.replace(tmp, dst)
        return name

    def _tlc(self, module, cfg, args, timeout, env=None, heap=None, deque=False):
        md = tempfile.mkdtemp(prefix="md-", dir=self.scratch)
        jvm = ["java", "-XX:+UseParallelGC"]
        if heap:
            jvm.append("-Xmx" + heap)
        jvm.append("-Xss64m")
        jvm.append("-Djava.io.tmpdir=" + md)      # TLC leaves an empty tlc-<n> directory per run in java.io.tmpdir
        if deque:
            jvm.append("-Dtlc2.tool.queue.IStateQueue=StateDeque")
        cmd = jvm + ["-cp", TLA_CP, "tlc2.TLC", "-metadir", md, "-config", cfg] + args + [module + ".tla"]
        e = dict(os.environ)
        if env:
            e.update(env)
        t = time.time()
        try:
            p = subprocess.run(cmd, cwd=self.specs(), env=e, capture_output=True, text=True, timeout=timeout)
        except subprocess.TimeoutExpired:
            subprocess.run(["pkill", "-f", md], capture_output=True)
            raise MachineryError("TLC timed out after %ds on %s/%s" % (timeout, module, cfg))
        finally:
            shutil.rmtree(md, ignore_errors=True)
        out = p.stdout + p.stderr
        res = {"rc": p.returncode, "out": out, "wall": time.time() - t, "module": module, "cfg": cfg}
        m = re.search(r"(\d+) states generated, (\d+) distinct states found", out)
        if m:
            res["generated"], res["distinct"] = int(m.group(1)), int(m.group(2))
        m = re.search(r"depth of the complete state graph search is (\d+)", out)
        if m:
            res["depth"] = int(m.group(1))
        res["violated"] = re.findall(r"Error: Invariant (\S+) is violated", out) + \
            re.findall(r"Error: Action property (\S+) is violated", out) + \
            re.findall(r"Temporal property (\S+) (?:was|is) violated", out) + \
            (["<temporal>"] if "Temporal properties were violated" in out else [])
        res["postcondition_false"] = bool(re.search(r"[Pp]ostcondition.*(is false|violated)", out))
        res["completed"] = "Model checking completed" in out or "Finished in" in out
        res["error"] = None
        if ("Error:" in out and not res["violated"] and not res["postcondition_false"]) or (not m and "-simulate" not in args
                                                                                                        and "is violated by the initial state" not in out):
            em = re.search(r"Error: .*(?:\n.*){0,6}", out)
            res["error"] = em.group(0) if em else out[-1500:]
        return res

    def tlc_check(self, module, cfg, overrides=None, workers=8, timeout=900, expect_violation=None, coverage=False):
        """Leg S: exhaustive model check. expect_violation: name of an invariant that MUST be violated
        (sensitivity run with a deviation switched on)."""
        c = self._cfg(cfg, overrides)
        args = ["-workers", str(workers)]
        if coverage:
            args += ["-coverage", "1"]
        r = self._tlc(module, c, args, timeout)
        if r["error"]:
            raise MachineryError("TLC error on %s/%s: %s" % (module, cfg, r["error"]))
        if expect_violation:
            if expect_violation not in r["violated"]:
                raise MachineryError("sensitivity: %s/%s %s did not violate %s (violated=%s)" %
                                     (module, cfg, overrides, expect_violation, r["violated"]))
        elif r["violated"]:
            raise MachineryError("leg S: %s/%s violates %s - the model does not satisfy its own property:\n%s" %
                                 (module, cfg, r["violated"], r["out"][-3000:]))
        self.cov["states"] += r.get("distinct", 0)
        self.cov["transitions"] += r.get("generated", 0)
        self.count("S", runs=1, distinct=r.get("distinct", 0), generated=r.get("generated", 0), wall=round(r["wall"], 1))
        self.log("S %s/%s %s: %s distinct, %s generated, %.1fs%s" % (
            module, cfg, overrides or "", r.get("distinct"), r.get("generated"), r["wall"],
            " (violates %s as expected)" % expect_violation if expect_violation else ""))
        if coverage:
            r["zero_actions"] = re.findall(r"<(\w+) line \d+, col \d+ to line \d+, col \d+ of module \w+>: 0:0", r["out"])
        return r

    def tlc_gen(self, module, cfg, overrides=None, simulate=None, depth=None, seed=None, timeout=900, tag="HIST", workers=1):
        """Leg G: run the generator module, return the list of emitted JSON values."""
        c = self._cfg(cfg, overrides)
        args = ["-workers", str(workers)]
        if simulate:
            args += ["-simulate", "num=%d" % simulate, "-depth", str(depth or 100)]
            if seed is not None:
                args += ["-seed", str(seed)]
        r = self._tlc(module, c, args, timeout)
        outs = []
        pat = re.compile(r'^<<"%s", (".*")>>$' % tag)
        buf = None
        for line in r["out"].splitlines():
            # PrintT of a long tuple may be wrapped over several lines
            if buf is not None:
                buf += line.strip()
                if buf.endswith(">>"):
                    m = pat.match(buf)
                    if m:
                        outs.append(json.loads(json.loads(m.group(1))))
                    buf = None
                continue
            if line.startswith('<<"%s"' % tag):
                m = pat.match(line)
                if m:
                    outs.append(json.loads(json.loads(m.group(1))))
                elif not line.endswith(">>"):
                    buf = line.strip()
        if r["violated"] or (r["error"] and not simulate):
            raise MachineryError("generator %s/%s failed: %s %s" % (module, cfg, r["violated"], r["error"]))
        if not outs:
            raise MachineryError("generator %s/%s produced nothing:\n%s" % (module, cfg, r["out"][-2000:]))
        self.cov["states"] += r.get("distinct", 0)
        self.cov["transitions"] += r.get("generated", 0)
        self.count("G", gen_runs=1, behaviours=len(outs))
        self.log("G %s/%s %s%s: %d behaviours, %.1fs" % (module, cfg, overrides or "",
                 " simulate=%s seed=%s" % (simulate, seed) if simulate else "", len(outs), r["wall"]))
        return outs

    def tlc_trace(self, module, cfg, tracefile, timeout=900, deque=False, env=None, overrides=None):
        """Leg T: validate a recorded ndjson trace. Returns dict(accepted, viols=[(line, text)], states)."""
        e = {"TRACE_FILE": tracefile}
        if env:
            e.update(env)
        c = self._cfg(cfg, overrides)
        r = self._tlc(module, c, ["-workers", "1"], timeout, env=e, deque=deque)
        if r["error"] and not r["postcondition_false"]:
            raise MachineryError("TLC error validating %s with %s: %s" % (tracefile, module, r["error"]))
        viols = []
        for m in re.finditer(r'<<\s*"VIOL",\s*(\d+),(.*?)>>\n(?=\S|$)', r["out"], re.S):
            viols.append((int(m.group(1)), " ".join(m.group(2).split())))
        seen = set()
        uv = []
        for v in viols:
            if v[0] not in seen:
                seen.add(v[0])
                uv.append(v)
        r["viols"] = uv
        r["accepted"] = not r["postcondition_false"] and not r["violated"]
        self.cov["states"] += r.get("distinct", 0)
        self.cov["transitions"] += r.get("generated", 0)
        return r

    def tlc_trace_strict(self, module, cfg, events, is_reset, deque=False, max_rounds=15, overrides=None, timeout=900):
        """Strict validation of a concatenation of independent segments (nondeterministic modules:
        TLC must search, so there is no collect mode).  On rejection the offending segment is cut out,
        recorded, and the remainder is validated again until everything has been examined.
        Returns [(segment_events, index_of_first_unmatched_line_in_segment, reason)]."""
        failures = []
        evs = list(events)
        rounds = 0
        while evs:
            rounds += 1
            if rounds > max_rounds:
                self.notes.append("%s: %d segments rejected; the remaining %d lines were left unexamined" % (module, len(failures), len(evs)))
                self.log("strict validation of %s stopped after %d rejected segments" % (module, len(failures)))
                break
            fd, tf = tempfile.mkstemp(prefix="strict_%s_" % module, suffix=".ndjson", dir=self.scratch)
            os.close(fd)
            write_jsonl(tf, evs)
            r = self.tlc_trace(module, cfg, tf, deque=deque, overrides=overrides, timeout=timeout)
            os.remove(tf)
            if r["accepted"]:
                break
            if r["violated"]:
                states = [int(x) for x in re.findall(r"^State (\d+):", r["out"], re.M)]
                if not states:
                    raise MachineryError("%s: invariant violated but no error trace:\n%s" % (module, r["out"][-2000:]))
                line = max(states) - 1          # state k = k-1 lines consumed; the violating state consumed line k-1
                reason = "invariant %s violated" % ",".join(r["violated"])
            else:
                if "depth" not in r:
                    raise MachineryError("%s: rejected without depth:\n%s" % (module, r["out"][-2000:]))
                line = r["depth"]               # depth d = d-1 lines matched; line d is the first unmatched
                reason = "no behaviour of the specification matches this line"
            if line < 1 or line > len(evs):
                raise MachineryError("%s: rejection at line %d outside the trace (%d lines)" % (module, line, len(evs)))
            i = line - 1
            a = i
            while a > 0 and not is_reset(evs[a]):
                a -= 1
            b = i + 1
            while b < len(evs) and not is_reset(evs[b]):
                b += 1
            failures.append((evs[a:b], i - a, reason))
            evs = evs[b:]          # segments are independent and everything before `a` has been accepted
        return failures

    def tlc_trace_segments(self, module, cfg, events, is_reset, overrides=None, timeout=1800):
        """One linear TLC run over a concatenation of independent segments with a trace spec that has a
        `dead` give-up chain and reports the highest explained line (<<"HW", line>>).  Returns the same
        shape as tlc_trace_strict: [(segment_events, index_of_first_unexplained_line, reason)]."""
        if not events:
            return []
        fd, tf = tempfile.mkstemp(prefix="seg_%s_" % module, suffix=".ndjson", dir=self.scratch)
        os.close(fd)
        write_jsonl(tf, events)
        r = self.tlc_trace(module, cfg, tf, overrides=overrides, timeout=timeout)
        os.remove(tf)
        if not r["accepted"]:
            raise MachineryError("%s: the dead chain did not consume the trace: %s" % (module, r["out"][-2000:]))
        hw = set(int(x) for x in re.findall(r'<<"HW", (\d+)>>', r["out"]))
        starts = [i for i, e in enumerate(events) if is_reset(e)]
        if not starts or starts[0] != 0:
            raise MachineryError("%s: trace does not start with a reset line" % module)
        failures = []
        for si, a in enumerate(starts):
            b = starts[si + 1] if si + 1 < len(starts) else len(events)
            if b - a <= 1 or b in hw:       # lines are 1-based: the last line of the segment is number b
                continue
            explained = [x for x in hw if a + 1 < x <= b]
            first_bad = (max(explained) + 1) if explained else a + 2     # 1-based line number
            failures.append((events[a:b], first_bad - 1 - a, "no behaviour of the specification matches this line"))
        self.count("T", segments=len(starts), rejected_segments=len(failures))
        return failures

    # ---------------------------------------------------------------- apalache (unbounded-length leg)
    def apalache_ind(self, module, init, inv, length, cinit=None, timeout=300, expect=None):
        """One proof obligation of an inductive-invariant argument, discharged by Apalache (symbolic, SMT):
        `apalache-mc check --init=<init> --inv=<inv> --length=<length> [--cinit=<cinit>] <module>.tla`, run in the
        scratch copy of specs/ with its output and temporary directories inside the scratch directory (offline,
        deterministic: z3 with Apalache's fixed seed).  length=0 from Init = base case, length=1 from the invariant
        itself = inductive step.  Returns "ok" (no counterexample: the obligation is PROVED for the fixed constants,
        for behaviours of any length) or "violated" (counterexample found).  expect="ok"|"violated": anything else
        raises MachineryError (a must-fail sensitivity run that passes means the leg is vacuous).  Tool errors
        (parse/type errors, deadlock, unexpected exit code) and time-outs always raise MachineryError (exit 2)."""
        od = tempfile.mkdtemp(prefix="apa-", dir=self.scratch)
        cmd = ["apalache-mc", "check", "--out-dir=" + od, "--init=" + init, "--inv=" + inv, "--length=%d" % length]
        if cinit:
            cmd.append("--cinit=" + cinit)
        cmd.append(module + ".tla")
        e = dict(os.environ)
        e["TMPDIR"] = od                      # the launcher creates its SANY temp dir there (removed with the scratch)
        # short JVM runs: C1-only JIT measured at 4.4 s CPU per obligation instead of 12 s
        e.setdefault("JAVA_TOOL_OPTIONS", "-XX:TieredStopAtLevel=1 -XX:ParallelGCThreads=2")
        what = "%s init=%s inv=%s length=%d%s" % (module, init, inv, length, " cinit=" + cinit if cinit else "")
        t = time.time()
        try:
            p = subprocess.run(cmd, cwd=self.specs(), env=e, capture_output=True, text=True, timeout=timeout)
        except subprocess.TimeoutExpired:
            subprocess.run(["pkill", "-f", od], capture_output=True)
            raise MachineryError("Apalache timed out after %ds on %s" % (timeout, what))
        except OSError as ex:
            raise MachineryError("Apalache could not be started (%s) on %s" % (ex, what))
        finally:
            shutil.rmtree(od, ignore_errors=True)
        out = p.stdout + p.stderr
        wall = time.time() - t
        if p.returncode == 0 and "The outcome is: NoError" in out:
            res = "ok"
        elif p.returncode == 12 and re.search(r"(?:state|action|trace) invariant \d+ violated", out):
            res = "violated"
        else:
            raise MachineryError("Apalache error (rc=%s) on %s:\n%s" % (p.returncode, what, out[-2500:]))
        if expect and res != expect:
            raise MachineryError("Apalache: %s is %s, expected %s%s" % (
                what, res, expect, " - the inductive argument is vacuous" if expect == "violated" else
                " - the invariant is not inductive / does not hold:\n" + out[-2500:]))
        self.count("S", apalache_runs=1, **{"apalache_" + res: 1})
        self.log("S apalache %s: %s, %.1fs%s" % (what, res, wall, " (as expected)" if expect == "violated" else ""))
        return res

    # ---------------------------------------------------------------- classification
    def discrepancy(self, sig, what, replay=None):
        """A behaviour of the real code that the spec does not allow. sig is the canonical signature."""
        for f in self.kf:
            if f.get("status") == "open" and f["property"] == self.prop and \
                    any(sig_match(pat, sig) for pat in (f.get("signatures") or [f["signature"]])):
                if f["id"] not in self.known_seen:
                    self.known_seen[f["id"]] = 0
                    print("KNOWN-FINDING: property=%s %s [%s] %s" % (self.prop, f["id"], sig, f["what"]), flush=True)
                self.known_seen[f["id"]] += 1
                if os.environ.get("VERIF_SHOW_KNOWN") and (f["id"], sig) not in self.known_sigs:
                    # development aid: every distinct signature a known finding absorbs
                    self.known_sigs.add((f["id"], sig))
                    print("KNOWN-SIG: %s %s" % (f["id"], sig), flush=True)
                return False
        if any(v[0] == sig for v in self.violations):
            self.violations.append((sig, what, replay))
            return True
        if replay is None:
            replay = self.save_replay({"signature": sig, "what": what})
        elif isinstance(replay, dict):
            replay = self.save_replay(replay)
        if True:
            print("VIOLATION property=%s replay=%s signature=%s %s" % (self.prop, replay, sig, what), flush=True)
        self.violations.append((sig, what, replay))
        return True

    def beyond(self, sig, what):
        """A behaviour of the real code that a growth module of the specification does not allow, in an area the
        property's statement does not cover: reported (one line per signature, counted in the evidence), never a
        violation of the property and never in the exit code."""
        if sig not in self.beyond_seen:
            self.beyond_seen[sig] = {"signature": sig, "count": 0, "what": what[:600]}
            print("BEYOND-PROPERTY: property=%s %s %s" % (self.prop, sig, what[:400]), flush=True)
        self.beyond_seen[sig]["count"] += 1

    def save_replay(self, obj):
        d = os.path.join(VERIF, "replays")
        os.makedirs(d, exist_ok=True)
        body = json.dumps(obj, sort_keys=True, indent=1)
        name = "%s-%s.json" % (self.prop, hashlib.md5(body.encode()).hexdigest()[:10])
        p = os.path.join(d, name)
        with open(p, "w") as f:
            f.write(body)
        return p

    # ---------------------------------------------------------------- finish
    def finish(self):
        cov = self.cov
        cov["distinct_nontrivial"] = max(cov.get("distinct_nontrivial", 0), len(self._distinct))
        if not cov["samples"]:
            cov["samples"] = ["(no sample recorded)"]
        cov["known_findings_seen"] = self.known_seen
        if self.notes:
            cov["notes"] = self.notes
        if self.beyond_seen:
            cov["beyond_property"] = sorted(self.beyond_seen.values(), key=lambda x: x["signature"])
        ev = {"property_id": self.prop, "tier": self.tier, "seed": self.seed, "level": self.level,
              "coverage": cov, "assumptions": self.assumptions, "wall_s": round(time.time() - self.t0, 1),
              "violations": len(set(v[0] for v in self.violations))}
        os.makedirs(os.path.join(VERIF, "evidence"), exist_ok=True)
        with open(os.path.join(VERIF, "evidence", self.prop + ".json"), "w") as f:
            json.dump(ev, f, indent=1, sort_keys=True)
        self.cleanup()
        self.log("done: states=%d transitions=%d traces=%d evaluations=%d distinct=%d violations=%d known=%s" % (
            cov["states"], cov["transitions"], cov["traces_validated_against_impl"], cov["evaluations"],
            cov["distinct_nontrivial"], ev["violations"], dict(self.known_seen)))
        return 1 if self.violations else 0

    def cleanup(self):
        if not self.keep_scratch:
            shutil.rmtree(self.scratch, ignore_errors=True)


def sig_match(pattern, sig):
    """Known-finding signatures may end in '*' (prefix match) or contain '*' segments."""
    if "*" not in pattern:
        return pattern == sig
    rx = "^" + ".*".join(re.escape(p) for p in pattern.split("*")) + "$"
    return re.match(rx, sig) is not None


def load_known():
    p = os.path.join(VERIF, "KNOWN_FINDINGS.json")
    if not os.path.exists(p):
        return []
    return json.load(open(p)).get("findings", [])


def read_ndjson(path):
    out = []
    with open(path) as f:
        for line in f:
            line = line.strip()
            if line:
                out.append(json.loads(line))
    return out


def write_jsonl(path, items):
    with open(path, "w") as f:
        for it in items:
            f.write(json.dumps(it) + "\n")
